//! C26 — the network host allow-list is enforced on every request.
//!
//! Drives (a) the public `RestrictedResolver` over a recording mock transport, (b) the default
//! resolver stack (`RedirectResolver<RestrictedResolver<T>>`, via the `verif_hooks::*_resolver_stack`
//! hooks) over the same mock serving scripted redirect chains, sync and async, and (c) a few directed
//! cases through the *real* `Context::resolver()` / `resolver_async()` stack (settings
//! `core.allowed_network_hosts`) against loopback listeners owned by the monitor.
//!
//! Oracle: a reference matcher written from the `HostPattern` doc comment (case-insensitive exact host,
//! or one leading `*.` requiring at least one extra label; scheme must be equal iff the pattern has one;
//! port must be equal, both-absent included; scheme-only pattern) applied to the harness's own RFC-3986
//! split of every URI string the mock transport *recorded*.  A recorded request no pattern matches is a
//! violation; a refusal must be `UriDisallowed`.  Refusing a URI the reference would accept
//! (over-refusal) is counted, not judged.
use c2pa::http::http::Request;
use c2pa::http::restricted::{HostPattern, RestrictedResolver};
use c2pa::http::{AsyncHttpResolver, SyncHttpResolver};
use c2pa::{verif_hooks, Context};
use serde::{Deserialize, Serialize};
use serde_json::json;
use std::collections::BTreeMap;
use std::io::{Read, Write};
use vmon::httpmon::{self, split_uri, Mock, Reply, UriParts};
use vmon::{par, report, Rng, Run};

// ------------------------------------------------------------------------------------------------
// reference model

#[derive(Clone, Debug)]
struct RefPat {
    scheme: Option<String>,
    /// lower-cased host text without the wildcard prefix
    host: Option<String>,
    wildcard: bool,
    port: Option<String>,
    /// Some(reason) when the documentation does not define what this pattern means
    undefined: Option<&'static str>,
    shape: String,
}

fn ref_parse_pattern(p: &str) -> RefPat {
    let lower = p.to_ascii_lowercase();
    let (scheme, rest) = if let Some(r) = lower.strip_prefix("https://") {
        (Some("https".to_string()), r.to_string())
    } else if let Some(r) = lower.strip_prefix("http://") {
        (Some("http".to_string()), r.to_string())
    } else {
        (None, lower.clone())
    };
    let mut undefined = None;
    if rest.contains("://") {
        undefined = Some("other-scheme-in-pattern");
    }
    if rest.chars().any(|c| c == '/' || c == '@' || c == '?' || c == '#' || c.is_whitespace() || c == '%') {
        undefined = Some("path-userinfo-or-space-in-pattern");
    }
    let (host, port): (String, Option<String>) = if rest.starts_with('[') {
        match rest.find(']') {
            Some(j) => {
                let tail = &rest[j + 1..];
                if let Some(t) = tail.strip_prefix(':') {
                    (rest[..=j].to_string(), Some(t.to_string()))
                } else {
                    if !tail.is_empty() {
                        undefined = Some("garbage-after-ip-literal");
                    }
                    (rest[..=j].to_string(), None)
                }
            }
            None => {
                undefined = Some("unterminated-ip-literal");
                (rest.clone(), None)
            }
        }
    } else if let Some(i) = rest.rfind(':') {
        (rest[..i].to_string(), Some(rest[i + 1..].to_string()))
    } else {
        (rest.clone(), None)
    };
    if !host.starts_with('[') && host.contains(':') {
        undefined = Some("colon-in-host");
    }
    if let Some(pt) = &port {
        if pt.is_empty() || !pt.bytes().all(|b| b.is_ascii_digit()) || pt.parse::<u32>().map(|v| v > 65535).unwrap_or(true) {
            undefined = Some("non-numeric-or-empty-port-in-pattern");
        }
    }
    let wildcard = host.starts_with("*.");
    let h = if wildcard { host[2..].to_string() } else { host.clone() };
    if h.contains('*') {
        undefined = Some("wildcard-not-single-leading");
    }
    if wildcard && h.is_empty() {
        undefined = Some("wildcard-without-suffix");
    }
    if host.is_empty() && port.is_some() {
        undefined = Some("port-without-host");
    }
    let host_opt = if host.is_empty() { None } else { Some(h) };
    let mut shape = String::new();
    shape.push_str(match (&host_opt, wildcard) {
        (None, _) => "nohost",
        (Some(h), false) if h.starts_with('[') => "exact-v6",
        (Some(h), false) if h.bytes().all(|b| b.is_ascii_digit() || b == b'.') => "exact-v4",
        (Some(_), false) => "exact",
        (Some(_), true) => "wildcard",
    });
    if port.is_some() {
        shape.push_str("+port");
    }
    if scheme.is_some() {
        shape.push_str("+scheme");
    }
    RefPat { scheme, host: host_opt, wildcard, port, undefined, shape }
}

#[derive(Clone, Debug, PartialEq)]
struct Cmp {
    host: &'static str, // "ok" | relation of the mismatch
    port: &'static str, // "ok" | "mismatch"
    scheme: &'static str,
}

fn port_norm(p: &Option<String>) -> Option<String> {
    match p {
        None => None,
        Some(s) if s.is_empty() => None,
        Some(s) => match s.parse::<u32>() {
            Ok(v) if s.bytes().all(|b| b.is_ascii_digit()) => Some(v.to_string()),
            _ => Some(s.clone()),
        },
    }
}

fn ref_compare(p: &RefPat, u: &UriParts) -> Cmp {
    let uscheme = u.scheme.as_ref().map(|s| s.to_ascii_lowercase());
    let scheme = match &p.scheme {
        None => "ok",
        Some(s) => {
            if uscheme.as_deref() == Some(s.as_str()) {
                "ok"
            } else {
                "mismatch"
            }
        }
    };
    let uhost = u.host.clone().unwrap_or_default().to_ascii_lowercase();
    let Some(ph) = &p.host else {
        // scheme-only pattern
        return Cmp { host: if p.scheme.is_some() { "ok" } else { "empty-pattern" }, port: "ok", scheme };
    };
    let host = if uhost.is_empty() {
        "uri-without-host"
    } else if !p.wildcard {
        if uhost == *ph {
            "ok"
        } else if uhost.ends_with(ph.as_str()) {
            if uhost.as_bytes()[uhost.len() - ph.len() - 1] == b'.' {
                "subdomain-of-exact"
            } else {
                "glued-prefix"
            }
        } else if uhost.starts_with(ph.as_str()) {
            "pattern-is-prefix"
        } else if uhost.trim_end_matches('.') == ph.trim_end_matches('.') {
            "trailing-dot"
        } else {
            "different"
        }
    } else {
        let dotted = format!(".{ph}");
        if uhost.len() > dotted.len() && uhost.ends_with(&dotted) {
            "ok"
        } else if uhost == *ph {
            "apex-for-wildcard"
        } else if uhost == dotted {
            "empty-label-for-wildcard"
        } else if uhost.ends_with(ph.as_str()) {
            "glued-prefix"
        } else if uhost.contains(ph.as_str()) {
            "pattern-inside"
        } else {
            "different"
        }
    };
    let port = if port_norm(&p.port) == port_norm(&u.port) { "ok" } else { "mismatch" };
    Cmp { host, port, scheme }
}

fn cmp_ok(c: &Cmp) -> bool {
    c.host == "ok" && c.port == "ok" && c.scheme == "ok"
}

/// URI shapes for which the documentation does not say what "match" means: reported, not judged.
fn uri_undefined(u: &UriParts) -> Option<&'static str> {
    if let Some(p) = &u.port {
        if !p.is_empty() && (!p.bytes().all(|b| b.is_ascii_digit()) || p.parse::<u32>().map(|v| v > 65535).unwrap_or(true)) {
            return Some("invalid-port-text");
        }
    }
    None
}

fn port_kind(u: &UriParts) -> &'static str {
    match &u.port {
        None => "noport",
        Some(p) if p.is_empty() => "emptyport",
        Some(p) if !p.bytes().all(|b| b.is_ascii_digit()) => "nonnumeric-port",
        Some(p) if p.parse::<u32>().map(|v| v > 65535).unwrap_or(true) => "overflow-port",
        Some(p) if p.len() > 1 && p.starts_with('0') => "zero-padded-port",
        Some(_) => "port",
    }
}

fn uri_shape(u: &UriParts) -> String {
    let h = u.host.clone().unwrap_or_default();
    let hk = if h.is_empty() {
        "nohost"
    } else if h.starts_with('[') {
        "v6"
    } else if h.contains('%') {
        "pct-host"
    } else if httpmon::parse_ipv4_whatwg(&h).is_some() {
        "v4"
    } else if h.ends_with('.') {
        "name+tdot"
    } else if h.starts_with('.') || h.contains("..") {
        "name+empty-label"
    } else {
        "name"
    };
    let sch = match u.scheme.as_ref().map(|s| s.to_ascii_lowercase()).as_deref() {
        None => "noscheme",
        Some("http") => "http",
        Some("https") => "https",
        _ => "other-scheme",
    };
    format!("{sch}|{hk}|{}{}", port_kind(u), if u.userinfo.is_some() { "|userinfo" } else { "" })
}

struct RefVerdict {
    allowed: bool,
    /// best (closest) comparison, for class strings / signatures
    best: Option<(String, Cmp)>,
    undefined: Option<&'static str>,
}

fn ref_allowed(pats: &[RefPat], u: &UriParts) -> RefVerdict {
    let mut best: Option<(usize, String, Cmp)> = None;
    let mut undefined = uri_undefined(u);
    for p in pats {
        if let Some(r) = p.undefined {
            undefined = undefined.or(Some(r));
            continue;
        }
        let c = ref_compare(p, u);
        if c.host == "empty-label-for-wildcard" && c.port == "ok" && c.scheme == "ok" {
            // `.a.org` against `*.a.org`: the wildcard position is filled by an EMPTY label.  The doc says a
            // wildcard needs a sub-domain; whether an empty label counts is not stated, and such a name
            // cannot be resolved by any transport: reported as a differential, not judged.
            undefined = undefined.or(Some("empty-label-in-wildcard-position"));
        }
        if cmp_ok(&c) {
            return RefVerdict { allowed: true, best: Some((p.shape.clone(), c)), undefined: None };
        }
        let score = (c.host == "ok") as usize * 4 + (c.port == "ok") as usize + (c.scheme == "ok") as usize + (c.host != "different" && c.host != "uri-without-host") as usize * 2;
        if best.as_ref().map(|b| score > b.0).unwrap_or(true) {
            best = Some((score, p.shape.clone(), c));
        }
    }
    RefVerdict { allowed: false, best: best.map(|b| (b.1, b.2)), undefined }
}

// ------------------------------------------------------------------------------------------------
// workload

#[derive(Clone, Debug, Serialize, Deserialize)]
struct Case {
    /// "restricted" (public wrapper only) | "stack" (redirect follower over the wrapper, via hook)
    mode: String,
    asynch: bool,
    /// construct with `with_allowed_hosts` (true) or `new` + `set_allowed_hosts` (false)
    ctor_with: bool,
    patterns: Vec<String>,
    start: String,
    /// Location values of the scripted 3xx replies (stack mode)
    hops: Vec<String>,
}

const DOMAINS: &[&str] = &["a.org", "contentauthenticity.org", "example.com", "cdn.example.com", "192.0.2.1", "93.184.216.34", "[2001:db8::1]", "xn--bcher-kva.example", "b.a.org", "org", "a.org."];

fn rand_case(rng: &mut Rng, s: &str) -> String {
    if rng.chance(1, 3) {
        s.chars().map(|c| if rng.bool() { c.to_ascii_uppercase() } else { c }).collect()
    } else {
        s.to_string()
    }
}

fn gen_pattern(rng: &mut Rng) -> String {
    if rng.chance(1, 25) {
        // shapes the documentation does not define (unjudged when they matter)
        return rng.pick(&["*", "*.", "a.*.org", "**.a.org", "a.org/path", "ftp://a.org", "user@a.org", "a.org:80a", ":80", "2001:db8::1", "[2001:db8::1", "a.org:", " a.org", "https:// "]).to_string();
    }
    if rng.chance(1, 20) {
        return rng.pick(&["https://", "http://", ""]).to_string();
    }
    let d = *rng.pick(DOMAINS);
    let mut p = String::new();
    if rng.chance(1, 3) {
        p.push_str(*rng.pick(&["https://", "http://", "HTTPS://", "Http://"]));
    }
    if rng.chance(1, 3) && !d.starts_with('[') {
        p.push_str("*.");
    }
    p.push_str(&rand_case(rng, d));
    if rng.chance(1, 3) {
        p.push_str(*rng.pick(&[":443", ":80", ":8080", ":8443", ":65535", ":0"]));
    }
    p
}

/// A URI (or Location) derived from one of the patterns by a near-miss mutation.
fn gen_uri(rng: &mut Rng, patterns: &[String], for_location: bool) -> String {
    let pat = if patterns.is_empty() || rng.chance(1, 8) { gen_pattern(rng) } else { rng.pick(patterns).clone() };
    let rp = ref_parse_pattern(&pat);
    let base = rp.host.clone().unwrap_or_else(|| rng.pick(DOMAINS).to_string());
    let label = *rng.pick(&["sub", "api", "x", "a.b", "www", "fake", "xn--nxasmq6b", "-", "1"]);
    let v6 = base.starts_with('[');
    let mut host = match rng.below(if v6 { 3 } else { 16 }) {
        0 | 1 => base.clone(),
        2 if v6 => rng.pick(&["[2001:db8:0:0:0:0:0:1]", "[2001:DB8::1]", "[2001:db8::2]", "[::1]"]).to_string(),
        2 | 3 | 4 => format!("{label}.{base}"),
        5 => format!("{label}{base}"),                // glued prefix (fakea.org)
        6 => format!("{base}.evil.example"),          // pattern as a prefix label sequence
        7 => format!("{base}{label}"),                // glued suffix
        8 => base.splitn(2, '.').nth(1).unwrap_or("org").to_string(), // parent domain
        9 => format!("{base}."),                      // trailing dot
        10 => format!(".{base}"),                     // empty first label
        11 => format!("{label}..{base}"),             // empty middle label
        12 => base.replacen('.', "%2e", 1),           // percent-encoded dot
        13 => format!("{label}.{}", base.trim_end_matches('.')),
        14 => rng.pick(DOMAINS).to_string(),
        _ => format!("evil.example"),
    };
    host = rand_case(rng, &host);
    // userinfo games
    let authority_host = match rng.below(14) {
        0 => format!("user:pw@{host}"),
        1 => format!("{}@{host}", base),
        2 => format!("{host}@evil.example"),
        3 => format!("{host}:443@evil.example"),
        4 if for_location => format!("evil.example\\@{host}"),
        5 if for_location => format!("{host}\\@evil.example"),
        6 if for_location => format!("evil.example#@{host}"),
        _ => host.clone(),
    };
    let port = match rng.below(16) {
        0..=5 => String::new(),
        6..=8 => rp.port.clone().map(|p| format!(":{p}")).unwrap_or_default(),
        9 => ":443".into(),
        10 => ":80".into(),
        11 => ":".into(),
        12 => format!(":0{}", rp.port.clone().unwrap_or_else(|| "80".into())),
        13 => ":99999".into(),
        14 => ":80a".into(),
        _ => ":8080".into(),
    };
    let scheme = match rng.below(12) {
        0..=3 => "https://",
        4..=6 => "http://",
        7 => "HTTPS://",
        8 => "ftp://",
        9 if !for_location => "",
        10 => "httpx://",
        _ => rp.scheme.as_deref().map(|s| if s == "https" { "https://" } else { "http://" }).unwrap_or("https://"),
    };
    let path = if scheme.is_empty() { "" } else { *rng.pick(&["/", "/m.c2pa", "", "/a?b=c", "?q", "/x#f"]) };
    format!("{scheme}{authority_host}{port}{path}")
}

fn gen_case(rng: &mut Rng) -> Case {
    let np = match rng.below(10) {
        0 => 0,
        1..=4 => 1,
        5..=7 => 2,
        _ => 3 + rng.usize(3),
    };
    let patterns: Vec<String> = (0..np).map(|_| gen_pattern(rng)).collect();
    let stack = rng.chance(1, 2);
    let mut c = Case {
        mode: if stack { "stack".into() } else { "restricted".into() },
        asynch: rng.bool(),
        ctor_with: rng.bool(),
        start: gen_uri(rng, &patterns, false),
        hops: Vec::new(),
        patterns,
    };
    if stack {
        // make hop 0 pass more often so that later hops are exercised
        if rng.chance(2, 3) {
            if let Some(p) = c.patterns.iter().map(|p| ref_parse_pattern(p)).find(|p| p.undefined.is_none() && p.host.is_some()) {
                let h = if p.wildcard { format!("sub.{}", p.host.clone().unwrap_or_default()) } else { p.host.clone().unwrap_or_default() };
                c.start = format!("{}://{}{}/start", p.scheme.clone().unwrap_or_else(|| "https".into()), h, p.port.clone().map(|x| format!(":{x}")).unwrap_or_default());
            }
        }
        for _ in 0..rng.usize(6) {
            c.hops.push(if rng.chance(1, 5) { rng.pick(&["/next", "other", "?q=2", "//evil.example/x", "../up"]).to_string() } else { gen_uri(rng, &c.patterns, true) });
        }
    }
    c
}

/// Monitor self-test doubles (never used for a verdict): an allow-list wrapper with a seeded defect, to
/// show that the oracle fires on the mutants the design lists.  0 = off.
static SELFTEST: std::sync::atomic::AtomicU8 = std::sync::atomic::AtomicU8::new(0);

struct Buggy {
    inner: Box<dyn SyncHttpResolver>,
    pats: Vec<String>,
    /// 1 = wildcard suffix match without the dot check, 2 = port ignored
    defect: u8,
}

impl SyncHttpResolver for Buggy {
    fn http_resolve(&self, request: Request<Vec<u8>>) -> Result<c2pa::http::http::Response<Box<dyn Read>>, c2pa::http::HttpResolverError> {
        let u = request.uri().clone();
        let ok = self.pats.iter().any(|p| {
            let rp = ref_parse_pattern(p);
            let Some(ph) = rp.host.clone() else { return rp.scheme.is_some() && u.scheme_str() == rp.scheme.as_deref() };
            let h = u.host().unwrap_or("").to_ascii_lowercase();
            let host_ok = if rp.wildcard {
                if self.defect == 1 {
                    h.len() > ph.len() && h.ends_with(&ph)
                } else {
                    h.len() > ph.len() + 1 && h.ends_with(&format!(".{ph}"))
                }
            } else {
                h == ph
            };
            let port_ok = self.defect == 2 || rp.port.as_deref() == u.port().as_ref().map(|p| p.as_str());
            let scheme_ok = rp.scheme.is_none() || u.scheme_str() == rp.scheme.as_deref();
            host_ok && port_ok && scheme_ok
        });
        if ok {
            self.inner.http_resolve(request)
        } else {
            Err(c2pa::http::HttpResolverError::UriDisallowed { uri: u.to_string() })
        }
    }
}

struct Boxed(Box<dyn SyncHttpResolver>);
impl SyncHttpResolver for Boxed {
    fn http_resolve(&self, request: Request<Vec<u8>>) -> Result<c2pa::http::http::Response<Box<dyn Read>>, c2pa::http::HttpResolverError> {
        self.0.http_resolve(request)
    }
}

struct Exec {
    records: Vec<String>,
    outcome: String,
    built: bool,
}

fn execute(c: &Case) -> Exec {
    let script: Vec<Reply> = c.hops.iter().map(|l| Reply::redirect(302, l.as_bytes())).collect();
    let mock = Mock::scripted(script);
    let req = match Request::builder().method("GET").uri(c.start.as_str()).header("accept", "*/*").body(Vec::new()) {
        Ok(r) => r,
        Err(_) => return Exec { records: vec![], outcome: "request-not-built".into(), built: false },
    };
    let pats: Vec<HostPattern> = c.patterns.iter().map(|p| HostPattern::new(p)).collect();
    let m2 = mock.clone();
    let (mode, asynch, ctor_with) = (c.mode.clone(), c.asynch, c.ctor_with);
    let st = SELFTEST.load(std::sync::atomic::Ordering::Relaxed);
    if st != 0 {
        let strs = c.patterns.clone();
        let r = if st == 3 {
            // real components, wrong order: the allow-list wraps the redirect follower (checked at hop 0 only)
            RestrictedResolver::with_allowed_hosts(Boxed(verif_hooks::sync_resolver_stack(m2, None, true)), pats).http_resolve(req).map(|r| r.status().as_u16())
        } else if mode == "stack" {
            verif_hooks::sync_resolver_stack(Buggy { inner: Box::new(m2), pats: strs, defect: st }, None, true).http_resolve(req).map(|r| r.status().as_u16())
        } else {
            Buggy { inner: Box::new(m2), pats: strs, defect: st }.http_resolve(req).map(|r| r.status().as_u16())
        };
        let outcome = match r {
            Ok(s) => format!("ok:{s}"),
            Err(e) => format!("err:{}", httpmon::http_err_kind(&e)),
        };
        return Exec { records: mock.records().into_iter().map(|r| r.uri).collect(), outcome, built: true };
    }
    let r = report::catch_sdk(move || {
        if mode == "stack" {
            if asynch {
                httpmon::block_on(verif_hooks::async_resolver_stack(m2, Some(pats), true).http_resolve_async(req)).map(|r| r.status().as_u16())
            } else {
                verif_hooks::sync_resolver_stack(m2, Some(pats), true).http_resolve(req).map(|r| r.status().as_u16())
            }
        } else {
            let res = if ctor_with {
                RestrictedResolver::with_allowed_hosts(m2, pats)
            } else {
                let mut r = RestrictedResolver::new(m2);
                r.set_allowed_hosts(Some(pats));
                r
            };
            if asynch {
                httpmon::block_on(res.http_resolve_async(req)).map(|r| r.status().as_u16())
            } else {
                res.http_resolve(req).map(|r| r.status().as_u16())
            }
        }
    });
    let outcome = match r {
        Err(p) => format!("panic:{p}"),
        Ok(Ok(s)) => format!("ok:{s}"),
        Ok(Err(e)) => format!("err:{}", httpmon::http_err_kind(&e)),
    };
    Exec { records: mock.records().into_iter().map(|r| r.uri).collect(), outcome, built: true }
}

#[derive(Default)]
struct Verdict {
    violations: Vec<(String, String)>,
    classes: Vec<String>,
    counters: BTreeMap<String, u64>,
    differentials: Vec<(String, serde_json::Value)>,
    unjudged: Vec<String>,
    trivial: bool,
}

/// What `url::Url` (the view of a WHATWG-URL based transport such as reqwest) makes of the same string.
fn url_view(s: &str) -> Option<(String, String, Option<u16>)> {
    let u = url::Url::parse(s).ok()?;
    Some((u.scheme().to_string(), u.host_str().unwrap_or("").to_string(), u.port()))
}

fn is_simple_location(l: &str) -> bool {
    // canonical absolute http(s) URL with a plain public-looking DNS name: resolution is unambiguous
    let p = split_uri(l);
    let sch = p.scheme.clone().unwrap_or_default();
    let h = p.host.clone().unwrap_or_default();
    (sch == "http" || sch == "https")
        && p.userinfo.is_none()
        && !h.is_empty()
        // every label = letter followed by letters/digits: nothing IDNA or the IPv4 parser could object to
        && h.split('.').all(|lab| !lab.is_empty() && lab.len() <= 30 && lab.as_bytes()[0].is_ascii_lowercase() && lab.bytes().all(|b| b.is_ascii_lowercase() || b.is_ascii_digit()))
        && !h.ends_with("localhost")
        && p.port.as_ref().map(|x| !x.is_empty() && x.bytes().all(|b| b.is_ascii_digit()) && x.parse::<u32>().map(|v| v <= 65535).unwrap_or(false)).unwrap_or(true)
        && !l.contains('\\')
        && !l.contains(' ')
        && (p.rest.is_empty() || p.rest.starts_with('/'))
}

fn judge(c: &Case, e: &Exec) -> Verdict {
    let mut v = Verdict::default();
    if !e.built {
        v.trivial = true;
        return v;
    }
    let mode = format!("{}-{}", c.mode, if c.asynch { "async" } else { "sync" });
    let pats: Vec<RefPat> = c.patterns.iter().map(|p| ref_parse_pattern(p)).collect();
    let n = e.records.len();
    *v.counters.entry("requests_recorded".into()).or_insert(0) += n as u64;
    if e.outcome.starts_with("panic") {
        v.violations.push(("panic|allow-list".into(), e.outcome.clone()));
    }
    for (k, uri) in e.records.iter().enumerate() {
        let parts = split_uri(uri);
        let rv = ref_allowed(&pats, &parts);
        let hop = if k == 0 { "hop0" } else { "hop>=1" };
        let shape = uri_shape(&parts);
        if rv.allowed {
            let (ps, _) = rv.best.clone().unwrap_or_default_shape();
            v.classes.push(format!("{mode}|passed-and-matches|{ps}|{shape}|{hop}"));
        } else if let Some(u) = rv.undefined {
            v.unjudged.push(format!("passed|{u}|{shape}"));
            v.differentials.push((format!("undefined:{u}"), json!({"uri": uri, "patterns": c.patterns, "hop": k, "url_crate_view": url_view(uri).map(|x| json!({"scheme": x.0, "host": x.1, "port": x.2}))})));
        } else {
            let (ps, cm) = rv.best.clone().unwrap_or(("empty-list".to_string(), Cmp { host: "-", port: "-", scheme: "-" }));
            let why = format!("host:{},port:{},scheme:{}", cm.host, cm.port, cm.scheme);
            // cause class: the first component of the closest pattern that fails (host relation, else port, else scheme)
            let primary = if cm.host != "ok" {
                format!("host:{}", cm.host)
            } else if cm.port != "ok" {
                let pk = port_kind(&parts);
                format!("port:mismatch{}", if pk == "port" || pk == "noport" { String::new() } else { format!("({pk})") })
            } else {
                "scheme:mismatch".to_string()
            };
            v.violations.push((
                format!("{primary}|{hop}"),
                format!("request {k} to `{uri}` reached the transport but no pattern of {:?} matches it (closest: {ps}, {why}); harness split: scheme={:?} host={:?} port={:?}", c.patterns, parts.scheme, parts.host, parts.port),
            ));
        }
        // parser differential: what a WHATWG-URL transport would dial for the very same string
        if let Some((_, uh, up)) = url_view(uri) {
            let mine = parts.host.clone().unwrap_or_default().to_ascii_lowercase();
            let myport = port_norm(&parts.port);
            if uh.to_ascii_lowercase() != mine || up.map(|p| p.to_string()) != myport && !(up.is_none() && matches!(myport.as_deref(), Some("80") | Some("443"))) {
                v.differentials.push(("split-vs-url-crate".into(), json!({"uri": uri, "harness": {"host": mine, "port": myport}, "url_crate": {"host": uh, "port": up}})));
            }
        }
    }
    // refusals
    if c.mode == "restricted" {
        match (e.outcome.as_str(), n) {
            (o, 1) if o.starts_with("ok:") => {}
            ("err:UriDisallowed", 0) => {
                let parts = split_uri(&c.start);
                let rv = ref_allowed(&pats, &parts);
                let shape = uri_shape(&parts);
                if rv.allowed {
                    *v.counters.entry("over_refusal(unjudged)".into()).or_insert(0) += 1;
                    v.unjudged.push(format!("over-refusal|{}|{shape}", rv.best.map(|b| b.0).unwrap_or_default()));
                } else if rv.undefined.is_none() {
                    let (ps, cm) = rv.best.unwrap_or(("empty-list".to_string(), Cmp { host: "-", port: "-", scheme: "-" }));
                    v.classes.push(format!("{mode}|refused-UriDisallowed|{ps}|host:{},port:{},scheme:{}|{shape}", cm.host, cm.port, cm.scheme));
                } else {
                    v.unjudged.push(format!("refused|{}|{shape}", rv.undefined.unwrap_or("")));
                }
            }
            (o, k) => v.violations.push((format!("wrong-refusal|{}|records={}", o.split(':').take(2).collect::<Vec<_>>().join(":"), k.min(2)), format!("RestrictedResolver returned {o} with {k} recorded requests for `{}`", c.start))),
        }
    } else {
        // stack: the reply to request n-1 is hops[n-1]; if that is a simple absolute public URL that no
        // pattern matches, the refusal must be UriDisallowed
        if n == 0 && e.outcome != "err:UriDisallowed" {
            v.violations.push((format!("wrong-refusal|{}|hop0", e.outcome.split(':').take(2).collect::<Vec<_>>().join(":")), format!("hop 0 `{}` was not sent but the error is {}", c.start, e.outcome)));
        }
        if n == 0 {
            let parts = split_uri(&c.start);
            let rv = ref_allowed(&pats, &parts);
            if !rv.allowed && rv.undefined.is_none() {
                v.classes.push(format!("{mode}|refused-UriDisallowed|hop0|{}", uri_shape(&parts)));
            }
        }
        if n >= 1 && e.outcome.starts_with("err:") {
            if let Some(l) = c.hops.get(n - 1) {
                // the hop is resolved against the last URI that was sent; only judge when both are plain
                if is_simple_location(l) && is_simple_location(&e.records[n - 1]) {
                    let parts = split_uri(l);
                    let rv = ref_allowed(&pats, &parts);
                    if !rv.allowed && rv.undefined.is_none() {
                        if e.outcome == "err:UriDisallowed" {
                            let (ps, cm) = rv.best.unwrap_or(("empty-list".to_string(), Cmp { host: "-", port: "-", scheme: "-" }));
                            v.classes.push(format!("{mode}|redirect-hop-refused-UriDisallowed|{ps}|host:{},port:{},scheme:{}|hop{}", cm.host, cm.port, cm.scheme, if n == 1 { "1" } else { ">1" }));
                        } else if n <= 10 {
                            v.violations.push((format!("wrong-refusal|{}|redirect-hop", e.outcome.split(':').take(2).collect::<Vec<_>>().join(":")), format!("redirect to `{l}` (matches no pattern of {:?}) was refused with {} instead of UriDisallowed", c.patterns, e.outcome)));
                        }
                    } else if rv.allowed {
                        *v.counters.entry("over_refusal(unjudged)".into()).or_insert(0) += 1;
                    }
                }
            }
        }
    }
    v
}

trait OrShape {
    fn unwrap_or_default_shape(self) -> (String, Cmp);
}
impl OrShape for Option<(String, Cmp)> {
    fn unwrap_or_default_shape(self) -> (String, Cmp) {
        self.unwrap_or(("?".to_string(), Cmp { host: "-", port: "-", scheme: "-" }))
    }
}

fn directed() -> Vec<Case> {
    let mut out = Vec::new();
    let mk = |mode: &str, asynch: bool, pats: &[&str], start: &str, hops: &[&str]| Case {
        mode: mode.into(),
        asynch,
        ctor_with: !asynch,
        patterns: pats.iter().map(|s| s.to_string()).collect(),
        start: start.into(),
        hops: hops.iter().map(|s| s.to_string()).collect(),
    };
    // the documented examples
    let doc: &[(&[&str], &str)] = &[
        (&["*.contentauthenticity.org"], "https://sub.contentauthenticity.org"),
        (&["*.contentauthenticity.org"], "http://api.contentauthenticity.org"),
        (&["*.contentauthenticity.org"], "https://contentauthenticity.org"),
        (&["*.contentauthenticity.org"], "https://sub.fakecontentauthenticity.org"),
        (&["*.contentauthenticity.org"], "https://fakecontentauthenticity.org"),
        (&["*.contentauthenticity.org"], "https://xcontentauthenticity.org"),
        (&["*.contentauthenticity.org"], "https://sub.contentauthenticity.org.evil.example"),
        (&["http://192.0.2.1:8080"], "http://192.0.2.1:8080"),
        (&["http://192.0.2.1:8080"], "https://192.0.2.1:8080"),
        (&["http://192.0.2.1:8080"], "http://192.0.2.1"),
        (&["http://192.0.2.1:8080"], "http://192.0.2.1:80"),
        (&["http://192.0.2.1:8080"], "http://192.0.2.2:8080"),
        (&["a.org"], "https://a.org:8443/"),
        (&["a.org"], "https://A.ORG/"),
        (&["a.org"], "https://a.org@evil.example/"),
        (&["a.org"], "https://evil.example@a.org/"),
        (&["a.org"], "https://b.a.org/"),
        (&["a.org:443"], "https://a.org/"),
        (&["a.org:443"], "https://a.org:443/"),
        (&["a.org:443"], "https://a.org:4430/"),
        (&["https://"], "https://anything.example/"),
        (&["https://"], "http://anything.example/"),
        (&[], "https://a.org/"),
        (&["[2001:db8::1]:8080"], "http://[2001:db8::1]:8080/"),
        (&["[2001:db8::1]:8080"], "http://[2001:db8::1]/"),
        (&["[2001:db8::1]:8080"], "http://[2001:db8::2]:8080/"),
    ];
    for (i, (p, u)) in doc.iter().enumerate() {
        out.push(mk("restricted", i % 2 == 0, p, u, &[]));
        out.push(mk("stack", i % 2 == 1, p, u, &[]));
    }
    // every redirect hop is re-checked
    for asynch in [false, true] {
        out.push(mk("stack", asynch, &["a.org"], "https://a.org/start", &["https://evil.example/x"]));
        out.push(mk("stack", asynch, &["a.org"], "https://a.org/start", &["/next", "https://a.org:8443/x"]));
        out.push(mk("stack", asynch, &["*.a.org"], "https://s.a.org/start", &["https://t.a.org/1", "https://a.org/2"]));
        out.push(mk("stack", asynch, &["*.a.org"], "https://s.a.org/start", &["https://t.a.org/1", "https://xa.org/2"]));
        out.push(mk("stack", asynch, &["https://a.org"], "https://a.org/start", &["http://a.org/downgrade"]));
        out.push(mk("stack", asynch, &["a.org", "b.example.com:8080"], "https://a.org/start", &["http://b.example.com:8080/1", "http://b.example.com/2"]));
        out.push(mk("stack", asynch, &["a.org"], "https://a.org/start", &["//evil.example/x"]));
        out.push(mk("stack", asynch, &["a.org"], "https://a.org/start", &["https://a.org@evil.example/x"]));
        out.push(mk("stack", asynch, &["a.org"], "https://a.org/start", &["/1", "/2", "/3", "https://a.org.evil.example/x"]));
    }
    out
}

// ------------------------------------------------------------------------------------------------
// real stack (Context::resolver / resolver_async) against loopback listeners

struct Listener {
    port: u16,
    hits: std::sync::Arc<std::sync::atomic::AtomicUsize>,
}

fn spawn_listener(reply: String) -> Option<Listener> {
    let l = std::net::TcpListener::bind("127.0.0.1:0").ok()?;
    let port = l.local_addr().ok()?.port();
    let hits = std::sync::Arc::new(std::sync::atomic::AtomicUsize::new(0));
    let h2 = hits.clone();
    std::thread::spawn(move || {
        for s in l.incoming() {
            let Ok(mut s) = s else { continue };
            h2.fetch_add(1, std::sync::atomic::Ordering::SeqCst);
            let _ = s.set_read_timeout(Some(std::time::Duration::from_secs(2)));
            let mut buf = [0u8; 2048];
            let mut got = Vec::new();
            while !got.windows(4).any(|w| w == b"\r\n\r\n") {
                match s.read(&mut buf) {
                    Ok(0) | Err(_) => break,
                    Ok(n) => got.extend_from_slice(&buf[..n]),
                }
            }
            let _ = s.write_all(reply.as_bytes());
            let _ = s.flush();
        }
    });
    Some(Listener { port, hits })
}

/// Returns (class, Option<(sig, what)>) per directed real-stack case, or Err(reason) if the sandbox
/// does not allow loopback listeners.
fn real_stack_cases() -> Result<Vec<(String, Option<(String, String)>, serde_json::Value)>, String> {
    let mut out = Vec::new();
    let redirect_to_name = "HTTP/1.1 302 Found\r\nLocation: http://not-on-the-list.example.com/x\r\nContent-Length: 0\r\nConnection: close\r\n\r\n".to_string();
    let ok = "HTTP/1.1 200 OK\r\nContent-Length: 2\r\nConnection: close\r\n\r\nok".to_string();
    let rt = tokio::runtime::Builder::new_current_thread().enable_all().build().map_err(|e| e.to_string())?;
    for asynch in [false, true] {
        let a = spawn_listener(redirect_to_name.clone()).ok_or("cannot bind a loopback listener")?;
        let b = spawn_listener(ok.clone()).ok_or("cannot bind a loopback listener")?;
        let settings = json!({"core": {"allowed_network_hosts": [format!("127.0.0.1:{}", a.port)], "allow_redirects": true}});
        let ctx = Context::new().with_settings(settings.to_string().as_str()).map_err(|e| format!("settings: {e}"))?;
        let get = |uri: String| -> String {
            let req = Request::builder().method("GET").uri(uri).body(Vec::new()).expect("request");
            let r = report::catch_sdk(|| {
                if asynch {
                    rt.block_on(ctx.resolver_async().http_resolve_async(req)).map(|r| r.status().as_u16())
                } else {
                    ctx.resolver().http_resolve(req).map(|r| r.status().as_u16())
                }
            });
            match r {
                Err(p) => format!("panic:{p}"),
                Ok(Ok(s)) => format!("ok:{s}"),
                Ok(Err(e)) => format!("err:{}", httpmon::http_err_kind(&e)),
            }
        };
        let m = if asynch { "real-async" } else { "real-sync" };
        // (1) a listener that is not on the list must never be connected to
        let o = get(format!("http://127.0.0.1:{}/direct", b.port));
        let hits_b = b.hits.load(std::sync::atomic::Ordering::SeqCst);
        let w = json!({"case": "direct request to a loopback port that is not on the list", "outcome": o, "connections_seen": hits_b});
        let viol = if hits_b != 0 {
            Some((format!("{m}|hop0|connected-to-unlisted-port"), format!("listener not on the allow-list received {hits_b} connection(s); outcome {o}")))
        } else if o != "err:UriDisallowed" {
            Some((format!("{m}|hop0|wrong-refusal"), format!("expected UriDisallowed, got {o}")))
        } else {
            None
        };
        out.push((format!("{m}|hop0-unlisted-port|{o}|connections={hits_b}"), viol, w));
        // (2) allowed origin redirects to a public name that is not on the list: the hop must be
        //     refused by the allow-list (UriDisallowed) — not attempted (which offline would surface
        //     as a DNS/connect error)
        let o = get(format!("http://127.0.0.1:{}/redirect", a.port));
        let hits_a = a.hits.load(std::sync::atomic::Ordering::SeqCst);
        let w = json!({"case": "allowed loopback origin answers 302 to http://not-on-the-list.example.com/x", "outcome": o, "origin_connections": hits_a});
        let viol = if hits_a == 0 {
            None
        } else if o != "err:UriDisallowed" {
            Some((format!("{m}|redirect-hop|not-refused-by-allow-list"), format!("redirect to a host outside the allow-list ended as {o} instead of UriDisallowed (the hop was attempted or mis-reported)")))
        } else {
            None
        };
        if hits_a == 0 {
            return Err(format!("{m}: the allowed loopback origin was never contacted (outcome {o}); loopback networking unavailable"));
        }
        out.push((format!("{m}|redirect-to-unlisted-name|{o}|origin_connections={hits_a}"), viol, w));
        // (3) the allowed origin itself is reachable (positive control for the listener plumbing)
        let c = spawn_listener(ok.clone()).ok_or("cannot bind a loopback listener")?;
        let settings = json!({"core": {"allowed_network_hosts": [format!("http://127.0.0.1:{}", c.port)]}});
        let ctx2 = Context::new().with_settings(settings.to_string().as_str()).map_err(|e| format!("settings: {e}"))?;
        let req = Request::builder().method("GET").uri(format!("http://127.0.0.1:{}/ok", c.port)).body(Vec::new()).expect("request");
        let o = if asynch {
            rt.block_on(ctx2.resolver_async().http_resolve_async(req)).map(|r| format!("ok:{}", r.status().as_u16())).unwrap_or_else(|e| format!("err:{}", httpmon::http_err_kind(&e)))
        } else {
            ctx2.resolver().http_resolve(req).map(|r| format!("ok:{}", r.status().as_u16())).unwrap_or_else(|e| format!("err:{}", httpmon::http_err_kind(&e)))
        };
        out.push((format!("{m}|listed-origin|{o}|connections={}", c.hits.load(std::sync::atomic::Ordering::SeqCst)), None, json!({"case": "listed loopback origin", "outcome": o})));
    }
    // (4) signing with a signer that names a TSA URL: the time-stamp request is an SDK HTTP request too.
    //     The Context used for signing carries an allow-list that does NOT contain the TSA host.
    {
        let tsa = spawn_listener("HTTP/1.1 500 Internal Server Error\r\nContent-Length: 0\r\nConnection: close\r\n\r\n".to_string()).ok_or("cannot bind a loopback listener")?;
        let settings = json!({"core": {"allowed_network_hosts": ["manifests.allowed.example"]}, "builder": {"thumbnail": {"enabled": false}}});
        let ctx = Context::new().with_settings(settings.to_string().as_str()).map_err(|e| format!("settings: {e}"))?;
        let signer = c2pa::create_signer::from_keys(&vmon::signers::cert_pem("ed25519"), &vmon::signers::key_pem("ed25519"), c2pa::SigningAlg::Ed25519, Some(format!("http://127.0.0.1:{}/tsa", tsa.port))).map_err(|e| format!("signer: {e}"))?;
        let src = vmon::assets::tiny_png(true, &[]);
        let r = report::catch_sdk(|| {
            let mut b = c2pa::Builder::from_context(ctx).with_definition(json!({"title": "c26-tsa"}))?;
            b.set_intent(c2pa::BuilderIntent::Edit);
            let mut s = std::io::Cursor::new(src.clone());
            let mut d = std::io::Cursor::new(Vec::new());
            b.sign(signer.as_ref(), "png", &mut s, &mut d).map(|_| ())
        });
        let o = match r {
            Err(p) => format!("panic:{p}"),
            Ok(Ok(())) => "ok:signed".to_string(),
            Ok(Err(e)) => format!("err:{}", report::err_kind(&e)),
        };
        let hits = tsa.hits.load(std::sync::atomic::Ordering::SeqCst);
        let w = json!({"case": "Builder::sign in a Context whose core.allowed_network_hosts = [manifests.allowed.example], signer from create_signer::from_keys with tsa_url = http://127.0.0.1:<port>/tsa", "outcome": o, "tsa_listener_connections": hits});
        let viol = if hits > 0 {
            Some(("real-sync|signer-tsa-request|not-checked-against-context-allow-list".to_string(), format!("the TSA listener (host not on the Context's allow-list) received {hits} connection(s) during Builder::sign; outcome {o}")))
        } else {
            None
        };
        out.push((format!("real-sync|signer-tsa-request|{o}|tsa_connections={}", hits.min(2)), viol, w));
    }
    Ok(out)
}

fn main() {
    let mut run = Run::from_args("C26", "exploration");
    report::quiet_panics();
    run.rule = "case = pattern list (0-5 patterns: exact / wildcard / +port / +scheme / scheme-only / IPv4 / IPv6 / mixed case, ~4% undocumented shapes) x a URI derived from a pattern by a near-miss mutation (sub-label, glued prefix/suffix, parent, trailing dot, empty label, %2e, userinfo decoys, port equal/other/empty/zero-padded/overflow/non-numeric, scheme http/https/other/none) through RestrictedResolver (both constructors) or the default stack with 0-5 scripted redirect hops, sync and async; plus the documented examples and three real-stack cases per mode against loopback listeners. Non-trivial = the allow-list decided a request (passed+recorded or refused); distinct = (mode, decision, closest pattern shape, mismatch relation, URI shape, hop).".into();
    run.assumptions = vec![
        "reference matcher is textual on the harness's RFC-3986 split (no IDNA, no IP canonicalisation): a request is judged only when it REACHED the transport; refusing a URI the reference accepts is counted as over-refusal, not judged".into(),
        "pattern shapes the documentation does not define (non-leading '*', path/userinfo/other scheme inside a pattern, unbracketed IPv6, non-numeric port) and URIs whose port text is not a valid number make a passed request unjudged; they are recorded under differentials".into(),
        "an empty port (`host:`) is treated as an absent port; ports are compared numerically".into(),
        "real-stack cases assume an offline sandbox: a redirect hop that is attempted instead of refused surfaces as a non-UriDisallowed error".into(),
    ];

    if let Some(i) = std::env::args().position(|a| a == "--probe") {
        // c26 --probe <pattern> <uri>...
        let args: Vec<String> = std::env::args().skip(i + 1).collect();
        for u in &args[1..] {
            let c = Case { mode: "restricted".into(), asynch: false, ctor_with: true, patterns: vec![args[0].clone()], start: u.clone(), hops: vec![] };
            let e = execute(&c);
            let j = judge(&c, &e);
            println!("{u:?}: outcome={} recorded={:?} split={:?} url={:?} violations={:?}", e.outcome, e.records, split_uri(u), url_view(u), j.violations);
        }
        return;
    }
    // monitor self-test: `c26 --selftest` runs the mock workload against doubles with seeded defects
    // (wildcard without dot check / port ignored / allow-list applied at hop 0 only) and prints the
    // signatures the oracle raises; writes no evidence, exit code 3.
    if std::env::args().any(|a| a == "--selftest") {
        for (st, name) in [(1u8, "wildcard-suffix-without-dot-check"), (2, "port-ignored"), (3, "allow-list-outside-redirect-follower")] {
            SELFTEST.store(st, std::sync::atomic::Ordering::Relaxed);
            let mut cases = directed();
            let mut rng = Rng::new(run.seed, "c26");
            for _ in 0..60_000 {
                cases.push(gen_case(&mut rng));
            }
            let res = par::par_map(cases.len(), |i| judge(&cases[i], &execute(&cases[i])).violations);
            let mut sigs: BTreeMap<String, u64> = BTreeMap::new();
            for v in res {
                for (s, _) in v {
                    *sigs.entry(s).or_insert(0) += 1;
                }
            }
            let total: u64 = sigs.values().sum();
            println!("selftest {name}: {total} oracle hits, {} distinct signatures, e.g. {:?}", sigs.len(), sigs.iter().take(4).collect::<Vec<_>>());
        }
        std::process::exit(3);
    }
    if let Some(p) = run.replay.clone() {
        let v: serde_json::Value = serde_json::from_slice(&std::fs::read(&p).expect("replay file")).expect("json");
        let Ok(c) = serde_json::from_value::<Case>(v["witness"]["case"].clone()) else {
            // real-stack witnesses are fixed directed cases: they are re-executed by every normal run
            match real_stack_cases() {
                Ok(list) => {
                    let hits: Vec<_> = list.iter().filter_map(|x| x.1.clone()).collect();
                    println!("replay (real-stack directed cases): violations={hits:?}");
                    std::process::exit(if hits.is_empty() { 0 } else { 1 });
                }
                Err(e) => {
                    println!("INCONCLUSIVE: property=C26 replay of real-stack cases impossible: {e}");
                    std::process::exit(2);
                }
            }
        };
        let e = execute(&c);
        let j = judge(&c, &e);
        println!("replay: outcome={} records={:?}\nreplay: violations={:?}", e.outcome, e.records, j.violations);
        std::process::exit(if j.violations.is_empty() { 0 } else { 1 });
    }

    let directed_cases = directed();
    let n_directed = directed_cases.len();
    let n_random: usize = run.tier.pick(400_000, 6_000_000);
    let mut rng = Rng::new(run.seed, "c26");
    let mut unjudged: BTreeMap<String, u64> = BTreeMap::new();
    let mut diffs: BTreeMap<String, (u64, Vec<serde_json::Value>)> = BTreeMap::new();
    let mut sampled: std::collections::BTreeSet<String> = Default::default();
    let mut remaining = n_random;
    let mut first = true;
    // batches bound the memory of the thorough tier; the case stream depends only on the seed
    while first || remaining > 0 {
        let mut cases: Vec<Case> = if first { directed_cases.clone() } else { Vec::new() };
        first = false;
        let take = remaining.min(250_000);
        remaining -= take;
        for _ in 0..take {
            cases.push(gen_case(&mut rng));
        }
        let results = par::par_map(cases.len(), |i| {
            let e = execute(&cases[i]);
            let v = judge(&cases[i], &e);
            (e.outcome, e.records, v)
        });
        for (i, (outcome, records, v)) in results.into_iter().enumerate() {
            run.eval();
            if v.trivial {
                run.count("trivial:uri-rejected-by-http-crate", 1);
                continue;
            }
            for (k, n) in &v.counters {
                run.count(k, *n);
            }
            let oc = outcome.split(':').take(2).collect::<Vec<_>>().join(":");
            run.count(&format!("outcome:{}:{oc}", cases[i].mode), 1);
            for c in &v.classes {
                run.nontrivial(c.clone());
            }
            for u in &v.unjudged {
                *unjudged.entry(u.clone()).or_insert(0) += 1;
            }
            for (k, d) in v.differentials {
                let e = diffs.entry(k).or_insert((0, Vec::new()));
                e.0 += 1;
                if e.1.len() < 6 {
                    e.1.push(d);
                }
            }
            let kind = format!("{}:{oc}:records={}", cases[i].mode, records.len().min(3));
            let need_sample = sampled.insert(kind.clone());
            if need_sample || !v.violations.is_empty() {
                let cj = json!({"case": cases[i], "outcome": outcome, "recorded_uris": records});
                if need_sample {
                    run.sample(&kind, 1, cj.clone());
                }
                for (sig, what) in &v.violations {
                    run.violation(sig, what, cj.clone());
                }
            }
        }
    }
    match real_stack_cases() {
        Ok(list) => {
            for (class, viol, w) in list {
                run.eval();
                run.nontrivial(class.clone());
                run.sample("real-stack", 8, json!({"class": class, "detail": w}));
                if let Some((sig, what)) = viol {
                    run.violation(&sig, &what, w);
                }
            }
            run.engine("real-stack-loopback", true, json!({"transport": "ureq (sync) / reqwest (async) via Context::resolver*"}));
        }
        Err(why) => {
            run.inconclusive(format!("real-stack sub-check skipped: {why}"));
            run.engine("real-stack-loopback", false, json!({"reason": why}));
        }
    }
    run.set("directed_cases", json!(n_directed));
    run.set("random_cases", json!(n_random));
    run.set("unjudged", json!(unjudged.iter().take(300).collect::<BTreeMap<_, _>>()));
    run.set("differentials", json!(diffs.iter().map(|(k, v)| (k.clone(), json!({"count": v.0, "examples": v.1}))).collect::<BTreeMap<_, _>>()));
    run.engine("release", true, json!({"threads": par::workers()}));
    run.finish(60);
}
