//! Evidence writer, three-valued verdict bookkeeping, known-findings lookup, replay files.
//!
//! Exit codes of every monitor binary:
//!   0  no unlisted violation and at least `min_nontrivial` distinct non-trivial observations
//!   1  an oracle fired on a witness whose signature is not listed in KNOWN_FINDINGS.txt
//!      (a line `VIOLATION property=<id> replay=<path>` is printed for each distinct signature)
//!   2  the run observed too little to say anything (inconclusive as a whole)
use serde_json::{json, Map, Value};
use std::collections::{BTreeMap, BTreeSet};
use std::path::PathBuf;
use std::time::Instant;

#[derive(Clone, Copy, Debug, PartialEq, Eq)]
pub enum Tier {
    Quick,
    Thorough,
}

impl Tier {
    pub fn name(&self) -> &'static str {
        match self {
            Tier::Quick => "quick",
            Tier::Thorough => "thorough",
        }
    }
    pub fn pick<T>(&self, quick: T, thorough: T) -> T {
        match self {
            Tier::Quick => quick,
            Tier::Thorough => thorough,
        }
    }
}

pub fn verif_root() -> PathBuf {
    PathBuf::from(std::env::var("VERIF_ROOT").unwrap_or_else(|_| "/verif".to_string()))
}

pub fn repo_root() -> PathBuf {
    PathBuf::from(std::env::var("VERIF_REPO").unwrap_or_else(|_| "/repo".to_string()))
}

#[derive(Clone, Debug)]
pub struct Known {
    pub sig: String,
    pub text: String,
}

pub struct Run {
    pub id: String,
    pub tier: Tier,
    pub seed: u64,
    pub level: String,
    pub replay: Option<PathBuf>,
    start: Instant,
    evaluations: u64,
    classes: BTreeMap<String, u64>,
    samples: Vec<Value>,
    sample_kinds: BTreeMap<String, usize>,
    violations: BTreeMap<String, (String, PathBuf, u64)>,
    known: Vec<Known>,
    known_hits: BTreeMap<String, u64>,
    inconclusive: Vec<String>,
    extra: Map<String, Value>,
    engines: Vec<Value>,
    pub rule: String,
    pub assumptions: Vec<String>,
    pub exhaustive: bool,
    counters: BTreeMap<String, u64>,
}

fn sanitize(s: &str) -> String {
    s.chars()
        .map(|c| if c.is_ascii_alphanumeric() || "-_.".contains(c) { c } else { '_' })
        .take(120)
        .collect()
}

pub fn sig_token(s: &str) -> String {
    s.chars().map(|c| if c.is_whitespace() { '_' } else { c }).collect()
}

impl Run {
    /// Parses `--tier quick|thorough`, `--seed N`, `--replay path` (env VERIF_TIER / VERIF_SEED as defaults).
    pub fn from_args(id: &str, level: &str) -> Run {
        let args: Vec<String> = std::env::args().collect();
        let mut tier = match std::env::var("VERIF_TIER").ok().as_deref() {
            Some("thorough") => Tier::Thorough,
            _ => Tier::Quick,
        };
        let mut seed: u64 = std::env::var("VERIF_SEED")
            .ok()
            .and_then(|s| s.trim().parse::<i64>().ok())
            .map(|v| v as u64)
            .unwrap_or(1);
        let mut replay = None;
        let mut i = 1;
        while i < args.len() {
            match args[i].as_str() {
                "--tier" if i + 1 < args.len() => {
                    tier = if args[i + 1] == "thorough" { Tier::Thorough } else { Tier::Quick };
                    i += 1;
                }
                "--seed" if i + 1 < args.len() => {
                    seed = args[i + 1].parse::<i64>().map(|v| v as u64).unwrap_or(1);
                    i += 1;
                }
                "--replay" if i + 1 < args.len() => {
                    replay = Some(PathBuf::from(&args[i + 1]));
                    i += 1;
                }
                _ => {}
            }
            i += 1;
        }
        let known = load_known(id);
        Run {
            id: id.to_string(),
            tier,
            seed,
            level: level.to_string(),
            replay,
            start: Instant::now(),
            evaluations: 0,
            classes: BTreeMap::new(),
            samples: Vec::new(),
            sample_kinds: BTreeMap::new(),
            violations: BTreeMap::new(),
            known,
            known_hits: BTreeMap::new(),
            inconclusive: Vec::new(),
            extra: Map::new(),
            engines: Vec::new(),
            rule: String::new(),
            assumptions: Vec::new(),
            exhaustive: false,
            counters: BTreeMap::new(),
        }
    }

    pub fn quick(&self) -> bool {
        self.tier == Tier::Quick
    }

    pub fn eval(&mut self) {
        self.evaluations += 1;
    }
    pub fn evals(&mut self, n: u64) {
        self.evaluations += n;
    }
    pub fn evaluations(&self) -> u64 {
        self.evaluations
    }
    /// Records one non-trivial observation belonging to class `class` (distinctness is per class).
    pub fn nontrivial(&mut self, class: impl Into<String>) {
        *self.classes.entry(class.into()).or_insert(0) += 1;
    }
    pub fn nontrivial_n(&mut self, class: impl Into<String>, n: u64) {
        *self.classes.entry(class.into()).or_insert(0) += n;
    }
    pub fn distinct(&self) -> usize {
        self.classes.len()
    }
    pub fn count(&mut self, key: &str, n: u64) {
        *self.counters.entry(key.to_string()).or_insert(0) += n;
    }
    pub fn counter(&self, key: &str) -> u64 {
        self.counters.get(key).copied().unwrap_or(0)
    }
    /// Keeps at most `per_kind` samples of each kind.
    pub fn sample(&mut self, kind: &str, per_kind: usize, v: Value) {
        let n = self.sample_kinds.entry(kind.to_string()).or_insert(0);
        if *n < per_kind {
            *n += 1;
            self.samples.push(json!({"kind": kind, "case": v}));
        }
    }
    pub fn set(&mut self, key: &str, v: Value) {
        self.extra.insert(key.to_string(), v);
    }
    pub fn engine(&mut self, name: &str, ran: bool, detail: Value) {
        self.engines.push(json!({"engine": name, "ran": ran, "detail": detail}));
    }
    pub fn inconclusive(&mut self, reason: impl Into<String>) {
        let r = reason.into();
        println!("INCONCLUSIVE: property={} {}", self.id, r);
        self.inconclusive.push(r);
    }
    pub fn known_sigs(&self) -> BTreeSet<String> {
        self.known.iter().map(|k| k.sig.clone()).collect()
    }

    /// An oracle fired.  `sig` is the property-specific witness signature; `witness` is written to a
    /// replay file.  Listed signatures are counted as known findings, others as violations.
    pub fn violation(&mut self, sig: &str, what: &str, witness: Value) {
        let sig = sig_token(sig);
        if self.known.iter().any(|k| k.sig == sig) {
            *self.known_hits.entry(sig).or_insert(0) += 1;
            return;
        }
        if let Some(e) = self.violations.get_mut(&sig) {
            e.2 += 1;
            return;
        }
        let dir = verif_root().join("replay").join(&self.id);
        let _ = std::fs::create_dir_all(&dir);
        let path = dir.join(format!("{}.json", sanitize(&sig)));
        let doc = json!({
            "property": self.id, "sig": sig, "what": what, "seed": self.seed,
            "tier": self.tier.name(), "witness": witness,
        });
        let _ = std::fs::write(&path, serde_json::to_vec_pretty(&doc).unwrap_or_default());
        println!("VIOLATION property={} replay={}", self.id, path.display());
        println!("  sig={} :: {}", sig, what);
        self.violations.insert(sig, (what.to_string(), path, 1));
    }

    pub fn violation_count(&self) -> usize {
        self.violations.len()
    }

    /// Writes the evidence file, prints the summary and exits with the verdict code.
    pub fn finish(mut self, min_nontrivial: usize) -> ! {
        let wall = self.start.elapsed().as_secs_f64();
        for k in &self.known {
            match self.known_hits.get(&k.sig) {
                Some(n) => println!(
                    "KNOWN-FINDING: property={} sig={} {} (observed {}x this run)",
                    self.id, k.sig, k.text, n
                ),
                None => println!(
                    "NOTE: property={} listed finding sig={} was not exercised/reproduced in this run",
                    self.id, k.sig
                ),
            }
        }
        let distinct = self.classes.len();
        if self.samples.is_empty() {
            self.samples.push(json!({"kind": "none", "case": "no sample recorded"}));
        }
        let mut coverage = Map::new();
        coverage.insert("evaluations".into(), json!(self.evaluations));
        coverage.insert("distinct_nontrivial".into(), json!(distinct));
        coverage.insert("rule".into(), json!(self.rule));
        coverage.insert("samples".into(), Value::Array(self.samples.clone()));
        coverage.insert("exhaustive".into(), json!(self.exhaustive));
        let mut top: Vec<(&String, &u64)> = self.classes.iter().collect();
        top.sort_by(|a, b| b.1.cmp(a.1));
        let classes: Map<String, Value> =
            top.iter().take(400).map(|(k, v)| ((*k).clone(), json!(**v))).collect();
        coverage.insert("classes".into(), Value::Object(classes));
        coverage.insert(
            "counters".into(),
            Value::Object(self.counters.iter().map(|(k, v)| (k.clone(), json!(*v))).collect()),
        );
        coverage.insert("engines".into(), Value::Array(self.engines.clone()));
        coverage.insert("inconclusive".into(), json!(self.inconclusive));
        coverage.insert(
            "known_findings_observed".into(),
            Value::Object(self.known_hits.iter().map(|(k, v)| (k.clone(), json!(*v))).collect()),
        );
        coverage.insert(
            "violation_signatures".into(),
            Value::Array(
                self.violations
                    .iter()
                    .map(|(s, (w, p, n))| json!({"sig": s, "what": w, "replay": p, "count": n}))
                    .collect(),
            ),
        );
        for (k, v) in self.extra.iter() {
            coverage.insert(k.clone(), v.clone());
        }
        let doc = json!({
            "property_id": self.id,
            "tier": self.tier.name(),
            "seed": self.seed as i64,
            "level": self.level,
            "coverage": Value::Object(coverage),
            "assumptions": self.assumptions,
            "wall_s": wall,
            "violations": self.violations.len(),
        });
        let dir = verif_root().join("evidence");
        let _ = std::fs::create_dir_all(&dir);
        let path = dir.join(format!("{}.json", self.id));
        let enough = distinct >= min_nontrivial.max(2) && self.evaluations >= 1;
        if let Err(e) = std::fs::write(&path, serde_json::to_vec_pretty(&doc).unwrap_or_default()) {
            println!("ERROR: cannot write evidence {}: {}", path.display(), e);
            std::process::exit(2);
        }
        println!(
            "SUMMARY property={} tier={} seed={} evaluations={} distinct_nontrivial={} violations={} known_hits={} inconclusive={} wall_s={:.1}",
            self.id,
            self.tier.name(),
            self.seed,
            self.evaluations,
            distinct,
            self.violations.len(),
            self.known_hits.values().sum::<u64>(),
            self.inconclusive.len(),
            wall
        );
        if !self.violations.is_empty() {
            std::process::exit(1);
        }
        if !enough {
            println!(
                "INCONCLUSIVE: property={} observed only {} distinct non-trivial classes (< {})",
                self.id, distinct, min_nontrivial
            );
            std::process::exit(2);
        }
        std::process::exit(0);
    }
}

fn load_known(id: &str) -> Vec<Known> {
    // the committed file; VERIF_KNOWN_FILE lets a scratch evaluation (VERIF_ROOT elsewhere) still use it
    let path = std::env::var("VERIF_KNOWN_FILE").map(PathBuf::from).unwrap_or_else(|_| verif_root().join("KNOWN_FINDINGS.txt"));
    let Ok(text) = std::fs::read_to_string(path) else {
        return Vec::new();
    };
    let mut out = Vec::new();
    for line in text.lines() {
        let line = line.trim();
        let Some(rest) = line.strip_prefix("finding:") else {
            continue;
        };
        let mut prop = None;
        let mut sig = None;
        let mut text_parts = Vec::new();
        for tok in rest.split_whitespace() {
            if let Some(p) = tok.strip_prefix("property=") {
                if prop.is_none() {
                    prop = Some(p.to_string());
                    continue;
                }
            }
            if let Some(s) = tok.strip_prefix("sig=") {
                if sig.is_none() {
                    sig = Some(s.to_string());
                    continue;
                }
            }
            text_parts.push(tok);
        }
        if let (Some(p), Some(s)) = (prop, sig) {
            if p == id {
                out.push(Known { sig: s, text: text_parts.join(" ") });
            }
        }
    }
    out
}
