//! C11 — the reader's verdict does not depend on a wrong format hint.
//!
//! Oracle (written from the statement): for a byte string whose *leading magic* identifies a supported
//! container family according to the table below (written from the format specifications, not from the
//! SDK's sniffing code), `Reader::with_stream(hint, bytes)` must yield the same triple
//! (normalised report, validation codes, error kind) for every hint string as for the true format.
//! Streams whose leading bytes identify nothing (SVG/XML text, plain text, random bytes, and — because
//! the statement is about "containers" and a bare JUMBF superbox is arguably one — `.c2pa` sidecars are
//! listed separately) are only checked for "no panic, deterministic (two runs agree)".
//!
//! A second pass delivers the same bytes through a stream that returns *short reads* (legal for
//! `std::io::Read`): the leading bytes are the same, so the triple must still not depend on the hint.
use c2pa::{Context, Reader};
use serde_json::{json, Value};
use std::collections::BTreeMap;
use std::io::Cursor;
use vmon::iokit::{self, differing, out_class, Mode, Shim};
use vmon::{assets, embedkit, par, report, signers, Rng, Run};

// ------------------------------------------------------------------------------------------------
// magic table (format specifications)

/// Container family identified by the leading bytes, or None.
///   jpeg  : ITU T.81 — SOI marker FF D8 followed by another marker (FF)
///   png   : PNG spec §5.2 — 89 50 4E 47 0D 0A 1A 0A
///   gif   : GIF87a / GIF89a
///   tiff  : TIFF 6.0 — "II" 2A 00 | "MM" 00 2A ; BigTIFF — "II" 2B 00 | "MM" 00 2B
///   jxl   : ISO 18181-2 — signature box 00 00 00 0C 'JXL ' 0D 0A 87 0A
///   riff  : "RIFF" <size> form-type ∈ {WAVE, "AVI ", WEBP}
///   bmff  : ISO 14496-12 — FileTypeBox first: bytes 4..8 = "ftyp"
///   flac  : "fLaC", or an ID3v2 tag followed by "fLaC"
///   mp3   : an ID3v2 tag (ID3 vv ff ss ss ss ss, v<0xFF, s<0x80) not followed by fLaC, or an MPEG audio
///           frame header (11 sync bits, version != 01, layer != 00, bitrate != 1111, rate != 11)
///   pdf   : "%PDF-"
fn magic_family(b: &[u8]) -> Option<&'static str> {
    if b.len() >= 3 && b[0] == 0xFF && b[1] == 0xD8 && b[2] == 0xFF {
        return Some("jpeg");
    }
    if b.len() >= 8 && b[..8] == [0x89, b'P', b'N', b'G', 0x0D, 0x0A, 0x1A, 0x0A] {
        return Some("png");
    }
    if b.len() >= 6 && (&b[..6] == b"GIF87a" || &b[..6] == b"GIF89a") {
        return Some("gif");
    }
    if b.len() >= 4 && (b[..4] == [b'I', b'I', 0x2A, 0] || b[..4] == [b'M', b'M', 0, 0x2A] || b[..4] == [b'I', b'I', 0x2B, 0] || b[..4] == [b'M', b'M', 0, 0x2B]) {
        return Some("tiff");
    }
    if b.len() >= 12 && b[..12] == [0, 0, 0, 0x0C, b'J', b'X', b'L', b' ', 0x0D, 0x0A, 0x87, 0x0A] {
        return Some("jxl");
    }
    if b.len() >= 12 && &b[..4] == b"RIFF" && (&b[8..12] == b"WAVE" || &b[8..12] == b"AVI " || &b[8..12] == b"WEBP") {
        return Some("riff");
    }
    if b.len() >= 8 && &b[4..8] == b"ftyp" {
        return Some("bmff");
    }
    if b.len() >= 4 && &b[..4] == b"fLaC" {
        return Some("flac");
    }
    if b.len() >= 10 && &b[..3] == b"ID3" && b[3] != 0xFF && b[4] != 0xFF && b[6..10].iter().all(|x| *x < 0x80) {
        let size = ((b[6] as usize) << 21) | ((b[7] as usize) << 14) | ((b[8] as usize) << 7) | b[9] as usize;
        let footer = if b[3] >= 4 && b[5] & 0x10 != 0 { 10 } else { 0 };
        let after = 10 + size + footer;
        if b.len() >= after + 4 && &b[after..after + 4] == b"fLaC" {
            return Some("flac");
        }
        return Some("mp3");
    }
    if b.len() >= 4 && b[0] == 0xFF && b[1] & 0xE0 == 0xE0 {
        let version = (b[1] >> 3) & 3;
        let layer = (b[1] >> 1) & 3;
        let bitrate = b[2] >> 4;
        let rate = (b[2] >> 2) & 3;
        if version != 1 && layer != 0 && bitrate != 0xF && rate != 3 {
            return Some("mp3");
        }
    }
    if b.len() >= 5 && &b[..5] == b"%PDF-" {
        return Some("pdf");
    }
    None
}

/// Family a *hint string* names, by this harness's own table of extensions / MIME types (used for
/// class strings and signatures only — never for the verdict).
fn hint_family(h: &str) -> &'static str {
    let n = h.trim().to_ascii_lowercase();
    match n.as_str() {
        "jpg" | "jpeg" | "image/jpeg" => "jpeg",
        "png" | "image/png" => "png",
        "gif" | "image/gif" => "gif",
        "tif" | "tiff" | "dng" | "arw" | "nef" | "image/tiff" | "image/x-adobe-dng" | "image/dng" | "image/x-sony-arw" | "image/x-nikon-nef" => "tiff",
        "jxl" | "image/jxl" => "jxl",
        "wav" | "avi" | "webp" | "audio/wav" | "audio/wave" | "audio/x-wav" | "audio/vnd.wave" | "image/webp" | "video/avi" | "video/msvideo" | "video/x-msvideo" | "application/x-troff-msvideo" => "riff",
        "mp4" | "m4a" | "mov" | "m4v" | "avif" | "heic" | "heif" | "application/mp4" | "audio/mp4" | "image/avif" | "image/heic" | "image/heif" | "video/mp4" | "video/quicktime" | "video/x-m4v" => "bmff",
        "flac" | "audio/flac" => "flac",
        "mp3" | "audio/mpeg" => "mp3",
        "pdf" | "application/pdf" => "pdf",
        "svg" | "xhtml" | "xml" | "image/svg+xml" | "application/xhtml+xml" | "text/xml" | "application/xml" => "svg",
        "c2pa" | "application/c2pa" | "application/x-c2pa-manifest-store" => "c2pa",
        "" => "empty",
        _ => "unknown",
    }
}

fn settings() -> String {
    json!({
        "verify": {"verify_trust": true, "remote_manifest_fetch": false, "ocsp_fetch": false},
        "trust": {"trust_anchors": signers::trust_anchors_pem()},
        "builder": {"thumbnail": {"enabled": false}}
    })
    .to_string()
}

fn ctx() -> Context {
    Context::new().with_settings(settings().as_str()).expect("settings")
}

#[derive(Clone)]
struct Subject {
    name: String,
    true_fmt: &'static str,
    variant: &'static str,
    bytes: Vec<u8>,
    family: Option<&'static str>,
}

/// Hint used for the reference read: the asset's nominal format if it belongs to the family the magic
/// identifies, otherwise that family's plain extension (e.g. a truncated ID3-prefixed FLAC is, by its
/// leading bytes, an ID3/MP3 stream).
fn ref_hint(s: &Subject) -> &'static str {
    match s.family {
        Some(f) if hint_family(s.true_fmt) != f => match f {
            "jpeg" => "jpg",
            "tiff" => "tif",
            "riff" => "wav",
            "bmff" => "mp4",
            other => other,
        },
        _ => s.true_fmt,
    }
}

/// The asynchronous entry point (`Reader::with_stream_async`) driven on a current-thread runtime.
fn read_async(hint: &str, bytes: &[u8]) -> report::Outcome {
    let h = hint.to_string();
    let b = bytes.to_vec();
    match report::catch_sdk(move || {
        let rt = tokio::runtime::Builder::new_current_thread().enable_all().build().expect("runtime");
        rt.block_on(async move { iokit::outcome_of(c2pa::Reader::from_context(ctx()).with_stream_async(&h, std::io::Cursor::new(b)).await) })
    }) {
        Ok(o) => o,
        Err(p) => iokit::panic_outcome(p),
    }
}

fn read_choppy(hint: &str, bytes: &[u8], seed: u64, max_chunk: usize) -> report::Outcome {
    iokit::read_stream(ctx(), hint, Shim::new(Cursor::new(bytes.to_vec()), Mode::Choppy { max_chunk, interrupt_every: 0 }, seed))
}

struct CaseRes {
    subject: usize,
    hint: String,
    mode: &'static str,
    out: String,
    diff: Option<&'static str>,
    detail: String,
    panic: Option<String>,
    nondet: bool,
    /// choppy only: does the in-memory read under the *same* hint agree with the reference?
    mem_same: bool,
}

fn main() {
    let mut run = Run::from_args("C11", "exploration");
    report::quiet_panics();
    run.rule = "subjects = every tiny synthetic asset (all formats/sub-formats) and fixture in the states clean / signed / content-tampered / manifest-tampered / truncated, plus pre-signed fixtures; hints = every Reader::supported_mime_types() string + upper-case and padded variants + the harness's own extension list + unknown strings + empty string; each (subject, hint) is read once in memory and (sampled) once through a short-read stream. Non-trivial = a read of magic-identified bytes under a hint; distinct = (true family, state, hint family, outcome, delivery).".into();
    run.assumptions = vec![
        "'identifies a supported container' is decided by the harness's magic table (see source) — bytes it does not recognise (SVG/XML, text, .c2pa sidecars, bare JXL codestreams, unknown RIFF forms) are only checked for no-panic + determinism and logged as unjudged".into(),
        "the reference outcome is the read with the asset's true extension as hint; equality of (normalised report, codes, error kind) is demanded for every other hint".into(),
        "short-read delivery: std::io::Read permits returning fewer bytes than requested, so the 'leading bytes' of such a stream are the same bytes; the reference is the read with the true hint through the same short-read delivery (whether short reads alone change a result is judged by C35)".into(),
        "remote manifest fetching is disabled (offline sandbox)".into(),
    ];
    let quick = run.quick();
    let mut rng = Rng::new(run.seed, "c11");

    // ---------------- hints
    let mut hints: Vec<String> = Reader::supported_mime_types();
    hints.sort();
    run.set("supported_mime_types", json!(hints));
    let own_ext = ["jpg", "jpeg", "png", "gif", "tif", "tiff", "dng", "webp", "wav", "avi", "jxl", "mp4", "mov", "m4a", "m4v", "heic", "heif", "avif", "flac", "mp3", "svg", "c2pa", "pdf", "xhtml", "arw", "nef"];
    for e in own_ext {
        if !hints.iter().any(|h| h == e) {
            hints.push(e.to_string());
        }
    }
    let base: Vec<String> = hints.clone();
    for h in &base {
        let up = h.to_uppercase();
        if up != *h {
            hints.push(up);
        }
    }
    for h in ["jpg", "image/png", "mp4", "tif", "c2pa", "svg"] {
        hints.push(format!(" {h} "));
        hints.push(format!(".{h}"));
        let mut mixed = String::new();
        for (i, c) in h.chars().enumerate() {
            mixed.push(if i % 2 == 0 { c.to_ascii_uppercase() } else { c });
        }
        hints.push(mixed);
    }
    for h in ["", "application/octet-stream", "xyz", "image/", "image/jpeg; charset=binary", "text/plain", "\u{0}", "jpg\u{0}png", "image/x-unknown", "zip", "application/zip", "psd"] {
        hints.push(h.to_string());
    }
    hints.sort();
    hints.dedup();
    run.set("hint_count", json!(hints.len()));

    // ---------------- subjects
    let mut pool: Vec<assets::Asset> = embedkit::extended_tiny_assets();
    pool.extend(embedkit::hostile_bmff_assets());
    let fx_max = run.tier.pick(150_000usize, 2_000_000usize);
    pool.extend(assets::fixture_assets(fx_max));
    for (n, f) in [("sample1.heic", "heic"), ("sample1.m4a", "m4a"), ("c.mov", "mov"), ("MultiPage.tif", "tif"), ("test.tiff", "tif"), ("mars.webp", "webp"), ("basic.pdf", "pdf"), ("sample1.png", "png")] {
        if pool.iter().any(|a| a.name == n) {
            continue;
        }
        if let Some(b) = assets::fixture(n) {
            if b.len() <= fx_max {
                pool.push(assets::Asset { name: n.to_string(), format: f, bytes: b });
            }
        }
    }
    let built = embedkit::subjects(&pool, "pool", true);
    let mut subjects: Vec<Subject> = Vec::new();
    for s in &built {
        let variant: &'static str = match s.state {
            "clean" => "clean",
            "signed" => "signed",
            "xmp" => "remote-ref",
            _ => "other",
        };
        subjects.push(Subject { name: s.name.clone(), true_fmt: s.format, variant, bytes: s.bytes.clone(), family: None });
        if s.state == "signed" && s.bytes.len() > 64 {
            // content tamper: flip a byte near the end (outside the header magic); manifest tamper: flip a
            // byte inside the embedded store (located by searching for the claim-signature label)
            let mut t = s.bytes.clone();
            let p = t.len() - 1 - rng.usize(8.min(t.len() / 4));
            t[p] ^= 0x01;
            subjects.push(Subject { name: s.name.clone(), true_fmt: s.format, variant: "tamper-tail", bytes: t, family: None });
            if let Some(pos) = find(&s.bytes, b"c2pa.signature") {
                let mut t = s.bytes.clone();
                let q = (pos + 40).min(t.len() - 1);
                t[q] ^= 0x20;
                subjects.push(Subject { name: s.name.clone(), true_fmt: s.format, variant: "tamper-store", bytes: t, family: None });
            }
            if let Some(pos) = find(&s.bytes, b"org.verif.test") {
                let mut t = s.bytes.clone();
                t[pos + 4] ^= 0x02;
                subjects.push(Subject { name: s.name.clone(), true_fmt: s.format, variant: "tamper-assertion", bytes: t, family: None });
            }
            let mut t = s.bytes.clone();
            t.truncate(s.bytes.len() * 2 / 3);
            subjects.push(Subject { name: s.name.clone(), true_fmt: s.format, variant: "truncated", bytes: t, family: None });
        }
    }
    // pre-signed fixtures (other claim generators, ingredients, legacy versions)
    for (n, f) in [("C.jpg", "jpg"), ("CA.jpg", "jpg"), ("CACA.jpg", "jpg"), ("XCA.jpg", "jpg"), ("E-sig-CA.jpg", "jpg"), ("video1.mp4", "mp4"), ("legacy.mp4", "mp4"), ("cloud.jpg", "jpg"), ("boxhash.jpg", "jpg"), ("libpng-test_with_url.png", "png"), ("basic-signed.pdf", "pdf"), ("express-signed.pdf", "pdf"), ("update_manifest.jpg", "jpg"), ("ocsp.jpg", "jpg"), ("no_alg.jpg", "jpg"), ("prerelease.jpg", "jpg")] {
        if let Some(b) = assets::fixture(n) {
            if b.len() <= run.tier.pick(400_000, 4_000_000) {
                subjects.push(Subject { name: n.to_string(), true_fmt: f, variant: "fixture-signed", bytes: b, family: None });
            }
        }
    }
    // streams without magic
    subjects.push(Subject { name: "text".into(), true_fmt: "txt", variant: "nomagic", bytes: b"just some text, no container here\n".to_vec(), family: None });
    subjects.push(Subject { name: "zeros".into(), true_fmt: "bin", variant: "nomagic", bytes: vec![0u8; 64], family: None });
    subjects.push(Subject { name: "random".into(), true_fmt: "bin", variant: "nomagic", bytes: { let mut b = rng.bytes(300); b[0] = 0x11; b }, family: None });
    subjects.push(Subject { name: "one-byte".into(), true_fmt: "bin", variant: "nomagic", bytes: vec![0xFF], family: None });
    subjects.push(Subject { name: "empty".into(), true_fmt: "bin", variant: "nomagic", bytes: vec![], family: None });
    if let Some(b) = assets::fixture("cloud_manifest.c2pa") {
        subjects.push(Subject { name: "cloud_manifest.c2pa".into(), true_fmt: "c2pa", variant: "sidecar", bytes: b, family: None });
    }
    for s in subjects.iter_mut() {
        s.family = magic_family(&s.bytes);
    }
    // sanity of the magic table against the pool: a clean asset of a container format must be identified
    for s in &subjects {
        let expect = hint_family(s.true_fmt);
        if s.variant == "clean" && !matches!(expect, "svg" | "c2pa" | "unknown") {
            match s.family {
                Some(f) if f == expect => {}
                other => run.inconclusive(format!("magic table disagrees with the generator for {} ({:?} vs {})", s.name, other, expect)),
            }
        }
    }
    run.set("subjects", json!(subjects.len()));

    // ---------------- replay
    if let Some(p) = run.replay.clone() {
        let v: Value = serde_json::from_slice(&std::fs::read(&p).expect("replay")).expect("json");
        let w = &v["witness"];
        let bytes = hex::decode(w["bytes_hex"].as_str().unwrap_or("")).unwrap_or_default();
        let bytes = if bytes.is_empty() {
            subjects.iter().find(|s| s.name == w["subject"].as_str().unwrap_or("") && s.variant == w["variant"].as_str().unwrap_or("")).map(|s| s.bytes.clone()).expect("subject")
        } else {
            bytes
        };
        let a = iokit::read_mem(ctx(), w["true_fmt"].as_str().unwrap(), &bytes);
        let a = if w["mode"] == "choppy" { read_choppy(w["true_fmt"].as_str().unwrap(), &bytes, 1, 1) } else { a };
        let b = if w["mode"] == "choppy" { read_choppy(w["hint"].as_str().unwrap(), &bytes, 1, 1) } else { iokit::read_mem(ctx(), w["hint"].as_str().unwrap(), &bytes) };
        let d = differing(&a, &b);
        println!("replay: reference={} hinted={} differing={:?}", out_class(&a), out_class(&b), d);
        std::process::exit(if d.is_some() { 1 } else { 0 });
    }

    // ---------------- work list
    // reference outcomes (true hint, in memory)
    let refs: Vec<report::Outcome> = par::par_map(subjects.len(), |i| iokit::read_mem(ctx(), ref_hint(&subjects[i]), &subjects[i].bytes));
    // short-read delivery is compared against the *same delivery* under the true hint, so that only the
    // hint varies (whether short reads by themselves change a result is C35's question)
    let chunk_of = |si: usize| [1usize, 2, 3, 7, 15][si % 5];
    let seed = run.seed;
    let refs_choppy: Vec<report::Outcome> = par::par_map(subjects.len(), |i| read_choppy(ref_hint(&subjects[i]), &subjects[i].bytes, seed ^ (i as u64), chunk_of(i)));
    let mut work: Vec<(usize, usize, &'static str)> = Vec::new();
    for (si, s) in subjects.iter().enumerate() {
        let big = s.bytes.len() > 60_000;
        for (hi, _) in hints.iter().enumerate() {
            if big && quick && hi % 3 != (si % 3) {
                continue;
            }
            work.push((si, hi, "mem"));
        }
        // short-read delivery: one hint per hint family + a few more
        if s.bytes.len() <= run.tier.pick(20_000, 200_000) {
            let mut seen: BTreeMap<&'static str, u32> = BTreeMap::new();
            for (hi, h) in hints.iter().enumerate() {
                let f = hint_family(h);
                let c = seen.entry(f).or_insert(0);
                if *c < run.tier.pick(1, 3) {
                    *c += 1;
                    work.push((si, hi, "choppy"));
                    // the asynchronous reader must sniff the container exactly like the synchronous one
                    work.push((si, hi, "async"));
                }
            }
        }
    }
    let results: Vec<CaseRes> = par::par_map_watch(
        work.len(),
        180,
        |i| {
            let (si, hi, mode) = &work[i];
            println!("INCONCLUSIVE: property=C11 watchdog: read of {} ({}) under hint {:?} ({mode}) exceeded 180 s", subjects[*si].name, subjects[*si].variant, hints[*hi]);
        },
        |i| {
            let (si, hi, mode) = work[i];
            let s = &subjects[si];
            let h = &hints[hi];
            let o = if mode == "mem" {
                iokit::read_mem(ctx(), h, &s.bytes)
            } else if mode == "async" {
                read_async(h, &s.bytes)
            } else {
                read_choppy(h, &s.bytes, seed ^ (si as u64), chunk_of(si))
            };
            let mem_same = mode != "mem" && differing(&refs[si], &iokit::read_mem(ctx(), h, &s.bytes)).is_none();
            let mut nondet = false;
            if s.family.is_none() && mode == "mem" {
                let o2 = iokit::read_mem(ctx(), h, &s.bytes);
                nondet = differing(&o, &o2).is_some();
            }
            let rf = if mode == "choppy" { &refs_choppy[si] } else { &refs[si] };
            let diff = differing(rf, &o);
            let detail = match diff {
                Some("report") => report::diff_paths(&rf.report, &o.report, 3).join(" ; "),
                Some("codes") => format!("{:?} vs {:?}", rf.failure_codes(), o.failure_codes()),
                Some(_) => format!("{} vs {}", out_class(rf), out_class(&o)),
                None => String::new(),
            };
            CaseRes { subject: si, hint: h.clone(), mode, out: out_class(&o), diff, detail, panic: if o.state == "Panic" { o.error.clone() } else { None }, nondet, mem_same }
        },
    );

    // ---------------- fold
    let mut unjudged_diffs: BTreeMap<String, u64> = BTreeMap::new();
    for r in &results {
        let s = &subjects[r.subject];
        run.eval();
        let hf = hint_family(&r.hint);
        let w = json!({"subject": s.name, "variant": s.variant, "true_fmt": s.true_fmt, "len": s.bytes.len(), "hint": r.hint, "mode": r.mode,
            "reference": out_class(if r.mode == "choppy" { &refs_choppy[r.subject] } else { &refs[r.subject] }), "hinted": r.out, "detail": r.detail,
            "bytes_hex": if s.bytes.len() <= 4096 { hex::encode(&s.bytes) } else { String::new() }});
        if let Some(p) = &r.panic {
            run.violation(&format!("{}|{}|panic", s.family.unwrap_or("nomagic"), hf), &format!("panic reading {} under hint {:?}: {p}", s.name, r.hint), w.clone());
            continue;
        }
        match s.family {
            Some(fam) => {
                run.nontrivial(format!("{fam}|{}|hint:{hf}|{}|{}", s.variant, r.out, r.mode));
                run.count(&format!("judged:{}", r.mode), 1);
                if hf != fam {
                    run.count("judged_wrong_family_hint", 1);
                }
                if let Some(d) = r.diff {
                    // cause classes: (a) the hint alone changes the verdict (in memory); (b) only the short-read
                    // delivery does, under a hint of another family (sniffing relies on one full first read);
                    // (c) short reads change the verdict even under a same-family hint (C35's subject too).
                    let sig = if r.mode == "mem" {
                        format!("{fam}|{hf}|{d}")
                    } else if r.mode == "async" {
                        format!("async-reader|{}|{d}", if hf == fam { "same-family-hint" } else { "other-family-hint" })
                    } else if r.mem_same && hf != fam {
                        run.count("short_read_sniff_fallback_to_hint", 1);
                        "any-magic|other-family-hint|short-first-read-defeats-sniffing".to_string()
                    } else if r.mem_same {
                        format!("{fam}|same-family-hint|{d}|short-read")
                    } else {
                        format!("{fam}|{hf}|{d}")
                    };
                    run.violation(&sig, &format!("{} ({}, magic={fam}) read with hint {:?} [{}]: {} — differs from the read with the true hint ({})", s.name, s.variant, r.hint, r.mode, r.out, r.detail), w.clone());
                } else if hf != fam && refs[r.subject].accepted() {
                    run.sample("accepted-under-wrong-hint", 3, w.clone());
                } else {
                    run.sample(&format!("same:{fam}"), 1, w.clone());
                }
            }
            None => {
                let why = if hint_family(s.true_fmt) == "c2pa" { "sidecar-jumbf-not-in-magic-table" } else if hint_family(s.true_fmt) == "svg" { "xml-text-has-no-magic" } else { "no-magic" };
                run.count(&format!("unjudged:{why}"), 1);
                if r.nondet {
                    run.violation(&format!("nomagic|{hf}|nondeterministic"), &format!("{} under hint {:?}: two reads disagree", s.name, r.hint), w.clone());
                }
                if let Some(d) = r.diff {
                    *unjudged_diffs.entry(format!("{}|hint:{hf}|{d}", s.true_fmt)).or_insert(0) += 1;
                }
                run.sample(&format!("unjudged:{why}"), 1, w);
            }
        }
    }
    run.set("unjudged_hint_dependence", json!(unjudged_diffs));
    run.engine("release", true, json!({"threads": par::workers()}));
    run.finish(60);
}

fn find(h: &[u8], n: &[u8]) -> Option<usize> {
    h.windows(n.len()).position(|w| w == n)
}
