#!/bin/bash
. "$(cd "$(dirname "$0")" && pwd)/tools/env.sh"
# Builds the framework offline from files on disk (idempotent): the shared lib and the monitor
# binary of every check registered in tools/checks.json.  A monitor that is not registered is not
# built here (./check builds on demand).
set -u
cd "$(dirname "$0")"
export CARGO_NET_OFFLINE=true
export CARGO_TARGET_DIR="$PWD/.build"
mkdir -p .build/logs evidence
BINS=$(python3 -c "import json;print(' '.join('--bin '+c['id'].lower() for c in json.load(open('tools/checks.json'))['checks']))")
( cd harness && cargo build --release --offline -p vmon $BINS 2>&1 | tail -3 )
rc=${PIPESTATUS[0]}
for s in tools/build_*.sh; do [ -x "$s" ] && { echo "[setup] $s"; "$s" || echo "[setup] $s failed (engine will be reported inconclusive)"; }; done
echo "setup done"
exit 0
