//! C17 — BMFF mdat hashing is independent of how the payload is chunked.
//!
//! Two observation levels, both judged from the property statement only:
//!  (a) accumulator (hook `merkle_accumulate`): with a fixed leaf size L the recorded leaves plus the
//!      buffered remainder must equal the reference `sha(region[i*L..(i+1)*L])` / `region[n*L..]`
//!      where `region` = the mdat box from byte 16 on (what the validator re-hashes), for EVERY way
//!      of cutting the fed payload into chunks;
//!  (b) end to end (public API): placeholder -> hash_bmff_mdat_bytes* -> update_hash_from_stream ->
//!      sign_embeddable -> patch in place (our own BMFF writer) -> Reader must say Valid/Trusted.
//! Calling convention (taken from the SDK's own workflow test): the caller feeds the mdat *payload*
//! (the bytes after the 8- or 16-byte box header) and says whether the header is the 64-bit form.
use c2pa::{verif_hooks, Builder, Context};
use serde_json::{json, Value};
use sha2::{Digest, Sha256, Sha384, Sha512};
use std::io::Cursor;
use vmon::{assets, assets::Mp4Layout, embed, par, report, signers, Rng, Run};

#[derive(Clone, Debug)]
struct Case {
    moov_first: bool,
    co64: bool,
    large: bool,
    /// fixed leaf size in bytes (None = variable-size leaves); the public API takes KiB
    leaf: Option<usize>,
    alg: &'static str,
    /// payload length of each mdat (1 or 2 mdats)
    mdat_lens: Vec<usize>,
    /// feed history: (mdat index, chunk length); per mdat the lengths sum to its payload length
    feeds: Vec<(usize, usize)>,
    /// 0 = reserve a `free` box only; 1 = embed the composed placeholder followed by a `free` box
    variant: u8,
    e2e: bool,
    /// negative history (unjudged): update_hash_from_stream called twice before signing
    update_twice: bool,
    origin: &'static str,
}

fn digest(alg: &str, b: &[u8]) -> Vec<u8> {
    match alg {
        "sha384" => Sha384::digest(b).to_vec(),
        "sha512" => Sha512::digest(b).to_vec(),
        _ => Sha256::digest(b).to_vec(),
    }
}

fn hash_len(alg: &str) -> usize {
    match alg {
        "sha384" => 48,
        "sha512" => 64,
        _ => 32,
    }
}

fn payload(m: usize, len: usize) -> Vec<u8> {
    if m == 0 {
        (0..len).map(|i| (i * 31 % 253) as u8).collect() // same bytes as assets::tiny_mp4
    } else {
        (0..len).map(|i| ((i * 17 + 5) % 251) as u8).collect()
    }
}

/// The part of the mdat box that Merkle leaves cover: box bytes from offset 16 on.
fn region(payload: &[u8], large: bool) -> &[u8] {
    if large {
        payload
    } else {
        &payload[payload.len().min(8)..]
    }
}

fn chunks_of(c: &Case) -> Vec<(usize, Vec<u8>)> {
    let pl: Vec<Vec<u8>> = c.mdat_lens.iter().enumerate().map(|(m, l)| payload(m, *l)).collect();
    let mut pos = vec![0usize; pl.len()];
    let mut out = Vec::new();
    for (m, l) in &c.feeds {
        out.push((*m, pl[*m][pos[*m]..pos[*m] + *l].to_vec()));
        pos[*m] += *l;
    }
    for (m, p) in pos.iter().enumerate() {
        assert_eq!(*p, pl[m].len(), "harness: feeds must cover the payload");
    }
    out
}

fn first_nonempty(c: &Case, m: usize) -> Option<usize> {
    c.feeds.iter().filter(|f| f.0 == m && f.1 > 0).map(|f| f.1).next()
}

/// Cause class of a case (used in signatures; never raw lengths).
fn cause(c: &Case) -> &'static str {
    // fixed leaves over an mdat that has exactly one byte beyond box offset 16 (fails for every history)
    if c.e2e && c.leaf.is_some() && c.mdat_lens.iter().any(|l| l.saturating_sub(if c.large { 0 } else { 8 }) == 1) {
        return "region-1-byte";
    }
    let short_first = (0..c.mdat_lens.len()).any(|m| matches!(first_nonempty(c, m), Some(1..=8)) && c.feeds.iter().filter(|f| f.0 == m && f.1 > 0).count() > 1);
    if !c.large && short_first {
        return "first-nonempty-chunk<=8";
    }
    // empty chunks that can become zero-length leaves (variable mode)
    if c.leaf.is_none() {
        for m in 0..c.mdat_lens.len() {
            let mut seen_nonempty = c.large;
            for f in c.feeds.iter().filter(|f| f.0 == m) {
                if f.1 == 0 && seen_nonempty {
                    return "empty-chunk";
                }
                if f.1 > 0 {
                    seen_nonempty = true;
                }
            }
        }
        // standard header: a first chunk of exactly 8 bytes (header-sized) leaves nothing to record either
    }
    if (0..c.mdat_lens.len()).all(|m| c.feeds.iter().filter(|f| f.0 == m).count() == 1) {
        return "one-shot";
    }
    "split"
}

fn shape_class(c: &Case) -> String {
    let k = c.feeds.len();
    let kc = match k {
        0..=1 => "k1",
        2..=3 => "k2-3",
        4..=10 => "k4-10",
        _ => "k11+",
    };
    let mut flags = Vec::new();
    if c.mdat_lens.len() > 1 {
        flags.push("2mdat");
        let mut last = 0;
        let mut inter = false;
        for f in &c.feeds {
            if f.0 < last {
                inter = true;
            }
            last = f.0;
        }
        if inter {
            flags.push("interleaved");
        }
    }
    if c.feeds.iter().any(|f| f.1 == 0) {
        flags.push("empty");
    }
    if let Some(l) = c.leaf {
        // a cut exactly on a leaf boundary / one byte either side
        for m in 0..c.mdat_lens.len() {
            let skip = if c.large { 0 } else { 8 };
            let mut p = 0usize;
            for f in c.feeds.iter().filter(|f| f.0 == m) {
                p += f.1;
                if p > skip && p < c.mdat_lens[m] {
                    let r = (p - skip) % l;
                    if r == 0 {
                        flags.push("cut@leaf");
                    } else if r == 1 || r == l - 1 {
                        flags.push("cut@leaf±1");
                    }
                }
            }
        }
        let maxreg = c.mdat_lens.iter().map(|x| x.saturating_sub(if c.large { 0 } else { 8 })).max().unwrap_or(0);
        flags.push(if maxreg < l {
            "region<L"
        } else if maxreg % l == 0 {
            "region=nL"
        } else {
            "region>L"
        });
    }
    flags.sort();
    flags.dedup();
    let leaf = match c.leaf {
        None => "var".to_string(),
        Some(l) => format!("L{l}"),
    };
    format!("{}|{}|{}|{}|{}", if c.large { "large" } else { "std" }, leaf, cause(c), kc, flags.join("+"))
}

fn case_json(c: &Case) -> Value {
    json!({"moov_first": c.moov_first, "co64": c.co64, "large": c.large, "leaf": c.leaf, "alg": c.alg,
        "mdat_lens": c.mdat_lens, "feeds": c.feeds, "variant": c.variant, "e2e": c.e2e, "update_twice": c.update_twice, "origin": c.origin})
}

fn case_from_json(w: &Value) -> Case {
    Case {
        moov_first: w["moov_first"].as_bool().unwrap_or(true),
        co64: w["co64"].as_bool().unwrap_or(false),
        large: w["large"].as_bool().unwrap_or(false),
        leaf: w["leaf"].as_u64().map(|x| x as usize),
        alg: match w["alg"].as_str().unwrap_or("sha256") {
            "sha384" => "sha384",
            "sha512" => "sha512",
            _ => "sha256",
        },
        mdat_lens: w["mdat_lens"].as_array().unwrap().iter().map(|x| x.as_u64().unwrap() as usize).collect(),
        feeds: w["feeds"].as_array().unwrap().iter().map(|x| (x[0].as_u64().unwrap() as usize, x[1].as_u64().unwrap() as usize)).collect(),
        variant: w["variant"].as_u64().unwrap_or(0) as u8,
        e2e: w["e2e"].as_bool().unwrap_or(false),
        update_twice: w["update_twice"].as_bool().unwrap_or(false),
        origin: "replay",
    }
}

struct Res {
    class: String,
    outcome: String,
    /// (sig, what)
    violation: Option<(String, String)>,
    inconclusive: Option<String>,
    leaves_seen: u64,
    judged: bool,
}

fn sig(c: &Case, defect: &str) -> String {
    let cz = cause(c);
    // the empty-chunk class does not depend on the header form
    let hdr = if cz == "empty-chunk" || cz == "region-1-byte" { "any-hdr" } else if c.large { "large-hdr" } else { "std-hdr" };
    format!("{}|{}|{}|{}", hdr, if c.leaf.is_some() { "fixed" } else { "var" }, cz, defect)
}

type Leaves = Vec<Vec<(u64, Vec<u8>)>>;

/// Reference for fixed leaf size: (full leaves, remainder) per mdat.
fn reference_fixed(c: &Case, l: usize) -> (Leaves, Vec<Vec<u8>>) {
    let mut leaves = Vec::new();
    let mut rems = Vec::new();
    for (m, len) in c.mdat_lens.iter().enumerate() {
        let p = payload(m, *len);
        let r = region(&p, c.large);
        let mut v = Vec::new();
        let full = r.len() / l;
        for i in 0..full {
            v.push((l as u64, digest(c.alg, &r[i * l..(i + 1) * l])));
        }
        leaves.push(v);
        rems.push(r[full * l..].to_vec());
    }
    (leaves, rems)
}

fn accumulate(c: &Case, chunks: &[(usize, Vec<u8>)]) -> Result<c2pa::Result<(Leaves, Vec<Vec<u8>>)>, String> {
    let n = c.mdat_lens.len();
    report::catch_sdk(|| {
        let feed: Vec<(usize, bool, &[u8])> = chunks.iter().map(|(m, b)| (*m, c.large, b.as_slice())).collect();
        verif_hooks::merkle_accumulate(c.alg, c.leaf, &feed).map(|(lv, rem)| {
            let leaves: Leaves = (0..n).map(|m| lv.get(&m).cloned().unwrap_or_default()).collect();
            let rems: Vec<Vec<u8>> = (0..n).map(|m| rem.get(&m).cloned().unwrap_or_default()).collect();
            (leaves, rems)
        })
    })
}

fn run_acc(c: &Case) -> Res {
    let chunks = chunks_of(c);
    let class = format!("acc|{}", shape_class(c));
    let got = accumulate(c, &chunks);
    let mk = |outcome: &str, v: Option<(String, String)>, leaves: u64, judged: bool| Res { class: format!("{class}|{outcome}"), outcome: outcome.to_string(), violation: v, inconclusive: None, leaves_seen: leaves, judged };
    let (leaves, rems) = match got {
        Err(p) => return mk("panic", Some((sig(c, "panic"), format!("panic in add_merkle_leaf: {p}"))), 0, true),
        Ok(Err(e)) => return mk("err", Some((sig(c, "accumulate-error"), format!("add_merkle_leaf returned {e:?}"))), 0, true),
        Ok(Ok(x)) => x,
    };
    let nleaves: u64 = leaves.iter().map(|v| v.len() as u64).sum();
    match c.leaf {
        Some(l) => {
            let (rl, rr) = reference_fixed(c, l);
            if leaves == rl && rems == rr {
                mk("leaves-match", None, nleaves, true)
            } else {
                // which part differs, and does the one-shot feed agree with the reference?
                let one: Vec<(usize, Vec<u8>)> = c.mdat_lens.iter().enumerate().map(|(m, len)| (m, payload(m, *len))).collect();
                let one_ok = matches!(accumulate(c, &one), Ok(Ok((a, b))) if a == rl && b == rr);
                let what = format!(
                    "fixed leaf {l}: recorded leaves/remainder differ from sha(region chunks); one-shot feed {} the reference; leaf counts got {:?} expected {:?}; remainder lens got {:?} expected {:?}; first differing leaf {:?}",
                    if one_ok { "matches" } else { "ALSO differs from" },
                    leaves.iter().map(|v| v.len()).collect::<Vec<_>>(),
                    rl.iter().map(|v| v.len()).collect::<Vec<_>>(),
                    rems.iter().map(|v| v.len()).collect::<Vec<_>>(),
                    rr.iter().map(|v| v.len()).collect::<Vec<_>>(),
                    leaves.iter().zip(rl.iter()).flat_map(|(a, b)| a.iter().zip(b.iter()).position(|(x, y)| x != y)).next()
                );
                mk("leaves-differ", Some((sig(c, "leaves-differ"), what)), nleaves, true)
            }
        }
        None => {
            // variable leaves follow the chunking by design: the statement only constrains the read-back
            // (level b). Recorded here: do the leaves tile the region with matching digests?
            let mut ok = true;
            for (m, len) in c.mdat_lens.iter().enumerate() {
                let p = payload(m, *len);
                let r = region(&p, c.large);
                let mut o = 0usize;
                for (ll, h) in &leaves[m] {
                    let e = o + *ll as usize;
                    if e > r.len() || digest(c.alg, &r[o..e]) != *h {
                        ok = false;
                        break;
                    }
                    o = e;
                }
                if o != r.len() {
                    ok = false;
                }
            }
            mk(if ok { "var-tiles-region" } else { "var-does-not-tile-region" }, None, nleaves, false)
        }
    }
}

fn settings() -> String {
    json!({
        "verify": {"verify_trust": true},
        "trust": {"trust_anchors": signers::trust_anchors_pem()},
        "builder": {"thumbnail": {"enabled": false}}
    })
    .to_string()
}

fn definition(c: &Case) -> Value {
    let mut d = json!({
        "claim_generator_info": [{"name": "verif_c17", "version": "1.0"}],
        "title": "c17",
        "assertions": [{"label": "c2pa.actions", "data": {"actions": [{"action": "c2pa.created", "digitalSourceType": "http://c2pa.org/digitalsourcetype/empty"}]}}]
    });
    if c.alg != "sha256" {
        d["hash_alg"] = json!(c.alg);
    }
    d
}

fn build_asset(c: &Case) -> Vec<u8> {
    let layout = if c.moov_first { Mp4Layout::MoovFirst } else { Mp4Layout::MdatFirst };
    let mut a = assets::tiny_mp4(layout, c.mdat_lens[0], c.co64, c.large);
    for (m, len) in c.mdat_lens.iter().enumerate().skip(1) {
        let p = payload(m, *len);
        a.extend(if c.large { embed::bmff_box_large(b"mdat", &p) } else { embed::bmff_box(b"mdat", &p) });
    }
    // sanity: our notion of "payload" is what is in the file
    let boxes = embed::bmff_top_boxes(&a).expect("harness: tiny mp4 parses");
    let mdats: Vec<_> = boxes.iter().filter(|b| &b.typ == b"mdat").collect();
    assert_eq!(mdats.len(), c.mdat_lens.len());
    for (m, b) in mdats.iter().enumerate() {
        assert_eq!(&a[b.start + b.hdr..b.start + b.len], payload(m, c.mdat_lens[m]).as_slice());
        assert_eq!(b.hdr, if c.large { 16 } else { 8 });
    }
    a
}

enum Flow {
    /// accepted on the n-th read (1-based) out of `reads` attempts
    Accepted(String, usize),
    NotValid(String, Vec<String>),
    ReadErr(String),
    Stage(&'static str, String),
    Panic(String),
    Harness(String),
}

/// How often a patched multi-mdat asset is re-read before it counts as rejected (the reader's
/// verdict for such assets was observed to vary between reads of identical bytes).
const MULTI_MDAT_READS: usize = 24;

fn flow(c: &Case) -> Flow {
    let chunks = chunks_of(c);
    let asset0 = build_asset(c);
    let r = report::catch_sdk(|| -> Result<(Vec<u8>, usize, usize, Vec<u8>), (&'static str, String)> {
        let ctx = Context::new().with_settings(settings().as_str()).map_err(|e| ("settings", report::err_kind(&e)))?.with_signer(signers::TestSigner::new("ed25519"));
        let mut b = Builder::from_context(ctx).with_definition(definition(c)).map_err(|e| ("definition", report::err_kind(&e)))?;
        let ph = b.placeholder("video/mp4").map_err(|e| ("placeholder", report::err_kind(&e)))?;
        // upper bound for the number of leaves this history can create
        let nl: usize = match c.leaf {
            Some(l) => c.mdat_lens.iter().map(|x| x / l + 2).sum::<usize>() + 2,
            None => c.feeds.len() + 4,
        };
        let region_len = ph.len() + nl * (hash_len(c.alg) + 12) + 1024;
        let mut ins = if c.variant == 1 { ph.clone() } else { Vec::new() };
        ins.extend(embed::bmff_free(region_len - ins.len()));
        let (asset, at) = embed::bmff_insert_after_ftyp(&asset0, &ins).ok_or(("harness", "insert".to_string()))?;
        if let Some(l) = c.leaf {
            b.set_bmff_hash_fixed_leaf_size(l / 1024);
        }
        for (m, bytes) in &chunks {
            b.hash_bmff_mdat_bytes(*m, bytes, c.large).map_err(|e| ("hash_bmff_mdat_bytes", report::err_kind(&e)))?;
        }
        let mut cur = Cursor::new(asset.clone());
        b.update_hash_from_stream("video/mp4", &mut cur).map_err(|e| ("update_hash_from_stream", report::err_kind(&e)))?;
        if c.update_twice {
            let mut cur = Cursor::new(asset.clone());
            b.update_hash_from_stream("video/mp4", &mut cur).map_err(|e| ("update_hash_from_stream", report::err_kind(&e)))?;
        }
        let signed = b.sign_embeddable("video/mp4").map_err(|e| ("sign_embeddable", report::err_kind(&e)))?;
        Ok((asset, at, region_len, signed))
    });
    let (mut asset, at, region_len, signed) = match r {
        Err(p) => return Flow::Panic(p),
        Ok(Err(("harness", m))) | Ok(Err(("settings", m))) | Ok(Err(("definition", m))) => return Flow::Harness(m),
        Ok(Err((stage, m))) => return Flow::Stage(stage, m),
        Ok(Ok(x)) => x,
    };
    let before = asset.clone();
    if !embed::bmff_patch_region(&mut asset, at, region_len, &signed) {
        return Flow::Harness(format!("signed manifest {} bytes does not fit the reserved region {}", signed.len(), region_len));
    }
    if asset[..at] != before[..at] || asset[at + region_len..] != before[at + region_len..] {
        return Flow::Harness("patch touched bytes outside the region".into());
    }
    let reads = if c.mdat_lens.len() > 1 { MULTI_MDAT_READS } else { 1 };
    let mut last = Flow::Harness("no read".into());
    for n in 1..=reads {
        let ctx = match Context::new().with_settings(settings().as_str()) {
            Ok(c) => c,
            Err(e) => return Flow::Harness(format!("{e:?}")),
        };
        let o = report::read_bytes_catch(ctx, "mp4", &asset);
        last = match o.state.as_str() {
            "Valid" | "Trusted" => return Flow::Accepted(o.state.clone(), n),
            "Panic" => return Flow::Panic(o.error.unwrap_or_default()),
            "Err" => Flow::ReadErr(o.error.unwrap_or_default()),
            _ => Flow::NotValid(o.state.clone(), o.failure_codes()),
        };
    }
    last
}

fn run_e2e(c: &Case) -> Res {
    let class = format!("e2e|{}|v{}|{}{}", shape_class(c), c.variant, if c.moov_first { "moov-first" } else { "mdat-first" }, if c.update_twice { "|update-twice" } else { "" });
    let judged = !c.update_twice;
    let mk = |outcome: String, v: Option<(String, String)>, inc: Option<String>| Res { class: format!("{class}|{outcome}"), outcome, violation: if judged { v } else { None }, inconclusive: inc, leaves_seen: 0, judged };
    match flow(c) {
        Flow::Accepted(s, 1) => mk(format!("read-{s}"), None, None),
        Flow::Accepted(s, n) => mk(
            "read-order-dependent".into(),
            Some(("multi-mdat|readback-order-dependent".to_string(), format!("asset with {} mdat boxes: identical bytes were rejected on {} read(s) and then read back {s}", c.mdat_lens.len(), n - 1))),
            None,
        ),
        Flow::NotValid(s, codes) => mk("readback-not-valid".into(), Some((sig(c, "readback-not-valid"), format!("patched asset reads back {s}, failures {codes:?}"))), None),
        Flow::ReadErr(e) => mk("readback-error".into(), Some((sig(c, "readback-not-valid"), format!("patched asset cannot be read: {e}"))), None),
        Flow::Stage(st, e) => mk(format!("{st}-error"), Some((sig(c, &format!("{st}-error")), format!("{st} failed with {e}"))), None),
        Flow::Panic(p) => mk("panic".into(), Some((sig(c, "panic"), format!("panic: {p}"))), None),
        Flow::Harness(m) => mk("harness".into(), None, Some(m)),
    }
}

fn run_case(c: &Case) -> Res {
    if c.e2e {
        run_e2e(c)
    } else {
        run_acc(c)
    }
}

fn base(large: bool, leaf: Option<usize>, lens: Vec<usize>, feeds: Vec<(usize, usize)>, e2e: bool, origin: &'static str) -> Case {
    Case { moov_first: true, co64: false, large, leaf, alg: "sha256", mdat_lens: lens, feeds, variant: 0, e2e, update_twice: false, origin }
}

/// chunks = [s1 bytes, s2 bytes, rest] for all s1, s2 in 0..=32 (that fit)
fn grid(large: bool, leaf: Option<usize>, len: usize, e2e: bool, s2s: &[usize], out: &mut Vec<Case>) {
    out.push(base(large, leaf, vec![len], vec![(0, len)], e2e, "one-shot"));
    for s1 in 0..=32usize {
        for &s2 in s2s {
            if s1 + s2 > len {
                continue;
            }
            let mut c = base(large, leaf, vec![len], vec![(0, s1), (0, s2), (0, len - s1 - s2)], e2e, "grid");
            c.variant = ((s1 + s2) % 2) as u8;
            c.moov_first = s1 % 3 != 0;
            c.co64 = s2 % 2 == 1;
            out.push(c);
        }
    }
}

fn random_case(rng: &mut Rng, e2e: bool) -> Case {
    let large = rng.bool();
    let leaf = if e2e {
        *rng.pick(&[None, Some(1024), Some(1024), Some(2048), Some(65536)])
    } else {
        *rng.pick(&[None, Some(16), Some(100), Some(1024), Some(1024), Some(4096), Some(65536)])
    };
    let nm = if rng.chance(1, 3) { 2 } else { 1 };
    let mut lens = Vec::new();
    for _ in 0..nm {
        let l = leaf.unwrap_or(1024);
        let len = match rng.below(10) {
            0 => 9 + rng.usize(24),
            1..=3 => 33 + rng.usize(3000),
            4 => (if large { 0 } else { 8 }) + l * (1 + rng.usize(3)), // region = n*L exactly
            5 => (if large { 0 } else { 8 }) + l * (1 + rng.usize(3)) + 1,
            6 => ((if large { 0 } else { 8 }) + l * (1 + rng.usize(3))).saturating_sub(1).max(9),
            7 => 60_000 + rng.usize(140_000),
            _ => 33 + rng.usize(8000),
        };
        lens.push(len.min(200_000));
    }
    // cut points per mdat
    let mut per: Vec<Vec<usize>> = Vec::new();
    for len in &lens {
        let k = match rng.below(4) {
            0 => 1 + rng.usize(2),
            1 => 1 + rng.usize(6),
            _ => 1 + rng.usize(50),
        };
        let mut cuts: Vec<usize> = Vec::new();
        for _ in 0..k - 1 {
            let skip = if large { 0 } else { 8 };
            let p = match rng.below(8) {
                0 => rng.usize(17),
                1 => rng.usize(33),
                2 | 3 => {
                    if let Some(l) = leaf {
                        let j = rng.usize(len / l + 1);
                        (skip + j * l + rng.usize(3)).saturating_sub(1)
                    } else {
                        rng.usize(len + 1)
                    }
                }
                4 => *cuts.last().unwrap_or(&0), // duplicate => empty chunk
                5 => *len,
                _ => rng.usize(len + 1),
            };
            cuts.push(p.min(*len));
        }
        cuts.sort();
        let mut v = Vec::new();
        let mut last = 0;
        for p in cuts {
            v.push(p - last);
            last = p;
        }
        v.push(len - last);
        per.push(v);
    }
    let mut feeds = Vec::new();
    if nm == 2 && rng.chance(1, 3) {
        // interleave the two histories
        let (mut i, mut j) = (0, 0);
        while i < per[0].len() || j < per[1].len() {
            if j >= per[1].len() || (i < per[0].len() && rng.bool()) {
                feeds.push((0, per[0][i]));
                i += 1;
            } else {
                feeds.push((1, per[1][j]));
                j += 1;
            }
        }
    } else {
        for (m, v) in per.iter().enumerate() {
            for l in v {
                feeds.push((m, *l));
            }
        }
    }
    let alg = if e2e { *rng.pick(&["sha256", "sha256", "sha256", "sha384", "sha512"]) } else { *rng.pick(&["sha256", "sha256", "sha384", "sha512"]) };
    Case { moov_first: rng.bool(), co64: rng.bool(), large, leaf, alg, mdat_lens: lens, feeds, variant: rng.below(2) as u8, e2e, update_twice: false, origin: "random" }
}

fn main() {
    let mut run = Run::from_args("C17", "exploration");
    report::quiet_panics();
    run.rule = "case = (mdat header kind, leaf size, payload length(s), feed history). Grid: chunks [s1, s2, rest] for all s1,s2 in 0..=32 per (header, leaf, length); random: k-way histories (k<=50) with cuts biased to 0..32, leaf boundaries +-1, duplicates (empty chunks), 1-2 mdats (sometimes interleaved), 3 hash algorithms. Level (a) drives MerkleAccumulator via the hook (leaf sizes none/16/100/1K/4K/64K bytes); level (b) drives placeholder -> hash_bmff_mdat_bytes* -> update_hash_from_stream -> sign_embeddable, patches with our own BMFF writer and reads back. Non-trivial+distinct = distinct (level, header, leaf, cause class, k class, shape flags, outcome).".into();
    run.assumptions = vec![
        "calling convention as in the SDK's own workflow test: the caller feeds the mdat payload (bytes after the box header) and passes large_size=true iff the header is the 16-byte form".into(),
        "reference leaves: harness sha2 over mdat box bytes from offset 16 in steps of L; the buffered remainder must be exactly the tail (it is hashed as the last leaf at update_hash_from_stream)".into(),
        "variable-size leaves follow the caller's chunking by design; at the accumulator level they are recorded (tiles-region or not) but only the end-to-end read-back is judged".into(),
        "Valid and Trusted both count as accepted".into(),
    ];

    if let Some(p) = run.replay.clone() {
        let v: Value = serde_json::from_slice(&std::fs::read(&p).expect("replay file")).expect("json");
        let c = case_from_json(&v["witness"]);
        let r = run_case(&c);
        println!("replay: class={} violation={:?}", r.class, r.violation);
        std::process::exit(if r.violation.is_some() { 1 } else { 0 });
    }

    let quick = run.quick();
    let mut cases: Vec<Case> = Vec::new();
    let all33: Vec<usize> = (0..=32).collect();
    // ---- level (a): accumulator
    let small_lens: &[usize] = if quick { &[9, 16, 17, 40, 41, 1032, 1033, 2056, 2100] } else { &[9, 10, 16, 17, 24, 25, 40, 41, 100, 1031, 1032, 1033, 1040, 2055, 2056, 2057, 2100, 5000] };
    for &large in &[false, true] {
        for &leaf in &[None, Some(16usize), Some(1024), Some(65536)] {
            for &len in small_lens {
                grid(large, leaf, len, false, &all33, &mut cases);
            }
            let big: &[usize] = if quick { &[65544, 70000] } else { &[65543, 65544, 65545, 65552, 70000, 131080, 200000] };
            for &len in big {
                if leaf == Some(16) {
                    continue;
                }
                if quick {
                    grid(large, leaf, len, false, &[0, 1, 7, 8, 9, 32], &mut cases);
                } else {
                    grid(large, leaf, len, false, &all33, &mut cases);
                }
            }
        }
    }
    // ---- level (b): end to end
    for &large in &[false, true] {
        let shapes: &[(Option<usize>, usize)] = if quick { &[(None, 41), (Some(1024), 2100), (Some(65536), 70000)] } else { &[(None, 41), (None, 3000), (Some(1024), 41), (Some(1024), 2100), (Some(1024), 1032), (Some(65536), 70000), (Some(65536), 65544)] };
        for &(leaf, len) in shapes {
            grid(large, leaf, len, true, &all33, &mut cases);
        }
    }
    // ---- directed: the minimal witnesses of reported findings (run on every invocation)
    cases.push(base(false, Some(1024), vec![1100], vec![(0, 1), (0, 1099)], false, "directed"));
    cases.push(base(false, Some(1024), vec![1100], vec![(0, 8), (0, 1092)], false, "directed"));
    cases.push(base(false, Some(1024), vec![1100], vec![(0, 1), (0, 1099)], true, "directed"));
    cases.push(base(false, None, vec![41], vec![(0, 1), (0, 40)], true, "directed"));
    // controls next to them
    cases.push(base(false, Some(1024), vec![1100], vec![(0, 9), (0, 1091)], true, "directed"));
    cases.push(base(true, Some(1024), vec![1100], vec![(0, 1), (0, 1099)], true, "directed"));
    cases.push(base(false, None, vec![41], vec![(0, 0), (0, 41)], true, "directed"));
    // an empty chunk that becomes a zero-length leaf (variable leaves)
    cases.push(base(false, None, vec![41], vec![(0, 20), (0, 0), (0, 21)], true, "directed"));
    cases.push(base(true, None, vec![41], vec![(0, 0), (0, 41)], true, "directed"));

    // fixed leaves, one byte beyond box offset 16: rejected by the reader for every history
    cases.push(base(false, Some(1024), vec![9], vec![(0, 9)], true, "directed"));
    cases.push(base(true, Some(1024), vec![1], vec![(0, 1)], true, "directed"));
    cases.push(base(true, Some(1024), vec![2], vec![(0, 2)], true, "directed"));
    cases.push(base(false, None, vec![9], vec![(0, 9)], true, "directed"));
    // two mdat boxes, one-shot feeds: the reader's verdict on identical bytes varies between reads
    for i in 0..12 {
        let mut c = base(i % 2 == 1, if i % 4 < 2 { None } else { Some(1024) }, vec![1500, 2600], vec![(0, 1500), (1, 2600)], true, "directed");
        c.variant = (i % 2) as u8;
        cases.push(c);
    }
    // negative histories (unjudged): update_hash_from_stream called twice
    for &large in &[false, true] {
        for &leaf in &[None, Some(1024usize)] {
            for &len in &[1100usize, 1032, 2056] {
                let mut c = base(large, leaf, vec![len], vec![(0, 20), (0, len - 20)], true, "directed");
                c.update_twice = true;
                cases.push(c);
            }
        }
    }
    // directed (minimal) cases first, so that the replay file of a signature holds the smallest witness
    cases.sort_by_key(|c| !c.origin.starts_with("directed"));
    let grid_n = cases.len();
    let n_rand_acc = run.tier.pick(60_000, 1_000_000);
    let n_rand_e2e = run.tier.pick(6_000, 80_000);
    let mut rng = Rng::new(run.seed, "c17");
    for _ in 0..n_rand_acc {
        cases.push(random_case(&mut rng, false));
    }
    for _ in 0..n_rand_e2e {
        cases.push(random_case(&mut rng, true));
    }

    let results = par::par_map(cases.len(), |i| run_case(&cases[i]));
    for (i, r) in results.iter().enumerate() {
        run.eval();
        let c = &cases[i];
        run.count(if c.e2e { "e2e_flows" } else { "accumulator_histories" }, 1);
        run.count("chunks_fed", c.feeds.len() as u64);
        run.count("leaves_recorded", r.leaves_seen);
        run.count(&format!("outcome:{}:{}", if c.e2e { "e2e" } else { "acc" }, r.outcome), 1);
        if let Some(m) = &r.inconclusive {
            run.count("harness_inconclusive_cases", 1);
            run.sample("inconclusive", 2, json!({"why": m, "case": case_json(c)}));
            continue;
        }
        if r.judged {
            run.nontrivial(r.class.clone());
        } else if c.e2e {
            run.count(&format!("unjudged:update-twice:{}", r.outcome), 1);
        } else {
            run.count(&format!("unjudged:variable-leaves-at-accumulator-level:{}:{}", cause(c), r.outcome), 1);
        }
        run.sample(&format!("{}:{}", if c.e2e { "e2e" } else { "acc" }, r.outcome), 2, case_json(c));
        if let Some((s, what)) = &r.violation {
            run.violation(s, what, case_json(c));
        }
    }
    let inc = run.counter("harness_inconclusive_cases");
    if inc > 0 {
        run.inconclusive(format!("{inc} cases could not be judged (harness-side: reserved region too small or insertion failed)"));
    }
    run.set("grid_and_directed_cases", json!(grid_n));
    run.set("random_accumulator_cases", json!(n_rand_acc));
    run.set("random_e2e_cases", json!(n_rand_e2e));
    run.engine("release", true, json!({"threads": par::workers()}));
    run.finish(40);
}
