//! C08 — same-size manifest replacement only changes the reported manifest region.
//!
//! For every subject (asset x state) and store length n: A1 = save(A, S1); regions =
//! object_locations(A1) (hook); A2 = save(A1, S2) with |S2| = |S1|.  Oracles (interval arithmetic +
//! byte diff + the independent parser's own location of the store bytes):
//!   * every reported region lies inside A1;
//!   * the region(s) reported as `Cai` contain the bytes of the embedded store as located by the
//!     independent parser, and overlap no other reported region;
//!   * |A2| = |A1| and A1, A2 differ only inside the `Cai` region.
//! Formats whose handler reports no region at all (BMFF, sidecar) are judged only on the last point
//! against the independent parser's container range, and that is reported under its own class.
use serde_json::json;
use vmon::embedkit::{self as kit, Subject};
use vmon::{assets, fmt, par, Rng, Run};

#[derive(Clone, Debug)]
struct Case {
    subj: usize,
    len: usize,
    seed: u64,
    /// 0 random/random, 1 zeros/0xFF, 2 differ only in the last byte, 3 differ only in the first filler byte
    pair: u8,
    via_stream: bool,
}

#[derive(Default)]
struct Res {
    evals: u64,
    classes: Vec<String>,
    counters: Vec<(String, u64)>,
    /// (defect, detail-for-sig, what)
    defect: Option<(String, String, String)>,
}

fn case_json(c: &Case, s: &Subject) -> serde_json::Value {
    json!({"asset": s.name, "format": s.format, "state": s.state, "asset_len": s.bytes.len(), "len": c.len, "seed": c.seed, "pair": c.pair, "via_stream": c.via_stream})
}

fn stores(c: &Case) -> (Vec<u8>, Vec<u8>) {
    match c.pair {
        1 => (kit::make_store(c.len, c.seed, 1).0, kit::make_store(c.len, c.seed, 2).0),
        2 => {
            let a = kit::make_store(c.len, c.seed, 0).0;
            let mut b = a.clone();
            let n = b.len();
            b[n - 1] ^= 0x5A;
            (a, b)
        }
        3 => {
            let a = kit::make_store(c.len, c.seed, 0).0;
            let mut b = a.clone();
            let i = if b.len() > kit::DUMMY_MIN + 2 { kit::DUMMY_MIN } else { b.len().saturating_sub(2) };
            b[i] ^= 0xFF;
            (a, b)
        }
        _ => (kit::make_store(c.len, c.seed, 0).0, kit::make_store(c.len, c.seed ^ 0x5555, 0).0),
    }
}

/// kind of the independent parser's element containing file position `pos`
fn elem_at(p: &fmt::Parsed, pos: usize) -> String {
    p.elems.iter().find(|e| e.start <= pos && pos < e.start + e.len).map(|e| if e.is_c2pa { format!("c2pa-container:{}", e.kind) } else { e.kind.clone() }).unwrap_or_else(|| "unparsed".into())
}

fn run_case(c: &Case, s: &Subject) -> Res {
    let mut r = Res::default();
    let fam = fmt::family(s.format).unwrap_or("?");
    if fmt::parse(s.format, &s.bytes).is_err() {
        r.counters.push((format!("trivial:input-rejected-by-independent-parser:{}", s.name), 1));
        return r;
    }
    let (s1, s2) = stores(c);
    let kind = if s1.len() >= kit::DUMMY_MIN { "jumbf" } else { "raw" };
    if kind == "raw" && kit::needs_jumbf_store(fam) {
        r.counters.push((format!("trivial:non-jumbf-store-not-representable:{fam}"), 1));
        return r;
    }
    r.evals += 1;
    let a1 = match kit::save(s.format, &s.bytes, &s1, c.via_stream) {
        Ok(o) => o,
        Err(e) if kit::is_panic(&e) => {
            r.defect = Some(("panic-in-write".into(), String::new(), e));
            return r;
        }
        Err(e) => {
            r.counters.push((format!("trivial:write-refused:{fam}:{e}"), 1));
            return r;
        }
    };
    let p1 = match fmt::parse(s.format, &a1) {
        Ok(p) if p.containers.len() == 1 && p.containers[0].store == s1 => p,
        _ => {
            // embedding itself is broken: that is C07's business
            r.counters.push((format!("trivial:embedding-not-sound(C07):{fam}"), 1));
            return r;
        }
    };
    let cont = &p1.containers[0];
    if kit::load(s.format, &a1, c.via_stream).map(|b| b != s1).unwrap_or(true) {
        r.counters.push((format!("trivial:embedding-not-sound(C07):{fam}"), 1));
        return r;
    }
    let locs = match kit::locations(s.format, &a1) {
        Ok(l) => l,
        Err(e) if kit::is_panic(&e) => {
            r.defect = Some(("panic-in-object-locations".into(), String::new(), e));
            return r;
        }
        Err(e) => {
            r.defect = Some((format!("object-locations-error:{e}"), String::new(), format!("object_locations on an asset with a manifest failed: {e}")));
            return r;
        }
    };
    let cai: Vec<(usize, usize)> = locs.iter().filter(|l| l.2 == "Cai").map(|l| (l.0, l.1)).collect();
    // (a) inside the file
    for (o, l, k) in &locs {
        if o.checked_add(*l).map(|e| e > a1.len()).unwrap_or(true) {
            r.defect = Some(("region-outside-file".into(), k.clone(), format!("region {k} {o}+{l} exceeds the file length {}", a1.len())));
            return r;
        }
    }
    let mode;
    let allowed: Vec<(usize, usize)>;
    if cai.is_empty() {
        if !locs.is_empty() {
            r.defect = Some(("no-cai-region".into(), String::new(), format!("regions reported but none is Cai: {locs:?}")));
            return r;
        }
        mode = "no-regions-reported:container-range";
        allowed = cont.ranges.clone();
        r.counters.push((format!("unjudged:handler-reports-no-regions:{fam}"), 1));
    } else {
        mode = "cai";
        allowed = cai.clone();
        // (b) the Cai region contains the store as located by the independent parser
        for sr in &cont.store_ranges {
            if !cai.iter().any(|c| fmt::within(*sr, *c)) {
                // the region holds a *copy* of the store bytes located somewhere else in the file?
                let elsewhere = !cont.encoded && cai.len() == 1 && a1[cai[0].0..cai[0].0 + cai[0].1] == s1[..];
                r.defect = Some(("cai-misses-store".into(), if elsewhere { "region-points-at-another-occurrence-of-the-store-bytes".into() } else { String::new() }, format!("store bytes at {}+{} (independent parser) are not inside the Cai region(s) {:?}", sr.0, sr.1, cai)));
                return r;
            }
        }
        if !cont.encoded {
            let joined: Vec<u8> = cai.iter().flat_map(|c| a1[c.0..c.0 + c.1].to_vec()).collect();
            // the store must be recoverable from the region bytes (contiguous, or split by carrier headers)
            if cont.store_ranges.len() == 1 && !joined.windows(s1.len().max(1)).any(|w| w == &s1[..]) {
                r.defect = Some(("cai-misses-store".into(), "bytes".into(), "Cai region bytes do not contain the store".into()));
                return r;
            }
        }
        // (c) no overlap with other regions
        for (o, l, k) in &locs {
            if k == "Cai" {
                continue;
            }
            for c in &cai {
                if fmt::overlaps((*o, *l), *c) {
                    r.defect = Some(("cai-overlaps-region".into(), k.clone(), format!("Cai {}+{} overlaps {k} {o}+{l}", c.0, c.1)));
                    return r;
                }
            }
        }
        if cai.len() > 1 {
            for i in 0..cai.len() {
                for j in i + 1..cai.len() {
                    if fmt::overlaps(cai[i], cai[j]) {
                        r.defect = Some(("cai-overlaps-region".into(), "Cai".into(), format!("Cai regions overlap: {:?}", cai)));
                        return r;
                    }
                }
            }
        }
    }
    // (d) same-size replacement is local
    let a2 = match kit::save(s.format, &a1, &s2, !c.via_stream) {
        Ok(o) => o,
        Err(e) if kit::is_panic(&e) => {
            r.defect = Some(("panic-in-write".into(), "replace".into(), e));
            return r;
        }
        Err(e) => {
            r.defect = Some((format!("replace-error:{e}"), String::new(), format!("same-size replacement failed: {e}")));
            return r;
        }
    };
    if a2.len() != a1.len() {
        r.defect = Some(("same-size-replace-changes-length".into(), String::new(), format!("file length {} -> {} when replacing a {}-byte store by another {}-byte store", a1.len(), a2.len(), s1.len(), s2.len())));
        return r;
    }
    let runs = kit::diff_runs(&a1, &a2);
    for d in &runs {
        if !allowed.iter().any(|a| fmt::within(*d, *a)) {
            // first stray byte
            let stray = (d.0..d.0 + d.1).find(|p| !allowed.iter().any(|a| fmt::within((*p, 1), *a))).unwrap_or(d.0);
            let at = elem_at(&p1, stray);
            r.defect = Some((if mode == "cai" { "diff-outside-cai".into() } else { "diff-outside-container".into() }, at.clone(), format!("byte {stray} (in {at}) differs but lies outside {allowed:?}; {} differing runs in total", runs.len())));
            return r;
        }
    }
    if runs.is_empty() && s1 != s2 {
        r.defect = Some(("replace-had-no-effect".into(), String::new(), "outputs identical although the stores differ".into()));
        return r;
    }
    r.classes.push(format!("{fam}|{}|{}|{kind}|pair{}|{mode}|runs={}", s.state, kit::size_class(c.len), c.pair, runs.len().min(3)));
    r
}

fn judge(c: &Case, subjects: &[Subject]) -> (Res, Option<String>) {
    let s = &subjects[c.subj];
    let r = run_case(c, s);
    let sig = r.defect.as_ref().map(|(d, detail, _)| {
        let fam = fmt::family(s.format).unwrap_or("?");
        if detail.starts_with("region-points-at-another") {
            return format!("{fam}|{d}:{detail}");
        }
        // is the length part of the cause?  re-run at length 100
        let any_size = c.len != 100 && run_case(&Case { len: 100, ..c.clone() }, s).defect.map(|x| x.0 == *d).unwrap_or(false);
        let clean = subjects.iter().position(|x| x.name == s.name && x.state == "clean");
        let any_state = s.state == "clean" || clean.map(|ci| run_case(&Case { subj: ci, ..c.clone() }, &subjects[ci]).defect.map(|x| x.0 == *d).unwrap_or(false)).unwrap_or(false);
        format!("{fam}|{d}{}|{}|{}", if detail.is_empty() { String::new() } else { format!(":{detail}") }, if any_state { "any-state" } else { s.state }, if any_size || c.len == 100 { "any-size" } else { kit::size_class(c.len) })
    });
    (r, sig)
}

fn main() {
    let mut run = Run::from_args("C08", "exploration");
    vmon::report::quiet_panics();
    run.rule = "case = (asset in a state, store length n from the boundary pool, pair kind of two equal-length stores, API flavour). A case is non-trivial when embedding succeeded, the handler's regions were obtained and all oracles ran; distinct = (family, state, size class, store kind, pair kind, judged region kind, number of differing runs).".into();
    run.assumptions = vec![
        "the independent parser of vmon::fmt locates the store bytes; a case where embedding itself is unsound (C07) is not judged here".into(),
        "handlers that report no regions (BMFF, sidecar) are judged on 'diffs stay inside the independent parser's container range' only and counted as unjudged:handler-reports-no-regions for the region clauses".into(),
        "for encoded carriers (SVG base64) the Cai region must contain the encoded text located by the parser".into(),
    ];
    let quick = run.quick();
    let tiny = kit::extended_tiny_assets();
    let fixtures = assets::fixture_assets(run.tier.pick(450_000, 5_000_000));
    let mut subjects = kit::subjects(&tiny, "tiny", true);
    subjects.extend(kit::subjects(&fixtures, "fixture", true));
    for a in kit::hostile_bmff_assets() {
        subjects.push(Subject { name: a.name, format: a.format, state: "layout", origin: "tiny", bytes: a.bytes });
    }
    // directed: an ID3 tag that already holds a copy of the store bytes in a PRIV frame in front of the GEOB
    let directed_store = kit::make_store(100, 777, 0).0;
    for (name, format, flac) in [("tiny_privcopy.mp3", "mp3", false), ("tiny_privcopy.flac", "flac", true)] {
        let mut body = b"verif\0".to_vec();
        body.extend_from_slice(&directed_store);
        let mut frame = b"PRIV".to_vec();
        let n = body.len() as u32;
        frame.extend_from_slice(&[((n >> 21) & 0x7F) as u8, ((n >> 14) & 0x7F) as u8, ((n >> 7) & 0x7F) as u8, (n & 0x7F) as u8]);
        frame.extend_from_slice(&[0, 0]);
        frame.extend(body);
        let mut v = b"ID3\x04\x00\x00".to_vec();
        let n = frame.len() as u32;
        v.extend_from_slice(&[((n >> 21) & 0x7F) as u8, ((n >> 14) & 0x7F) as u8, ((n >> 7) & 0x7F) as u8, (n & 0x7F) as u8]);
        v.extend(frame);
        v.extend(if flac { kit::tiny_flac(false) } else { assets::tiny_mp3(2, false) });
        subjects.push(Subject { name: name.into(), format, state: "clean", origin: "tiny", bytes: v });
    }
    let all_sizes = kit::boundary_sizes(quick);
    let mut rng = Rng::new(run.seed, "c08");
    let mut cases = Vec::new();
    for (si, s) in subjects.iter().enumerate() {
        let sizes: Vec<usize> = if s.origin == "tiny" {
            all_sizes.clone()
        } else {
            let mut v: Vec<usize> = (0..run.tier.pick(12, 60)).map(|_| *rng.pick(&all_sizes)).collect();
            v.extend([100, 64000, 64001, 65535]);
            v
        };
        for (j, n) in sizes.iter().enumerate() {
            for pair in 0..4u8 {
                if s.origin != "tiny" && pair != (j % 4) as u8 {
                    continue;
                }
                cases.push(Case { subj: si, len: *n, seed: rng.next_u64() % 1_000_000, pair, via_stream: (j + pair as usize) % 2 == 0 });
            }
        }
    }
    for (si, s) in subjects.iter().enumerate() {
        if s.name.starts_with("tiny_privcopy") {
            cases.push(Case { subj: si, len: 100, seed: 777, pair: 0, via_stream: false });
        }
    }
    if let Some(p) = run.replay.clone() {
        let v: serde_json::Value = serde_json::from_slice(&std::fs::read(&p).expect("replay file")).expect("json");
        let w = &v["witness"];
        let si = subjects.iter().position(|s| s.name == w["asset"].as_str().unwrap_or("") && s.state == w["state"].as_str().unwrap_or("")).expect("subject of the witness");
        let c = Case { subj: si, len: w["len"].as_u64().unwrap() as usize, seed: w["seed"].as_u64().unwrap(), pair: w["pair"].as_u64().unwrap() as u8, via_stream: w["via_stream"].as_bool().unwrap() };
        let (r, sig) = judge(&c, &subjects);
        println!("replay: classes={:?} sig={:?} defect={:?}", r.classes, sig, r.defect);
        std::process::exit(if r.defect.is_some() { 1 } else { 0 });
    }
    let results = par::par_map(cases.len(), |i| judge(&cases[i], &subjects));
    for (i, (r, sig)) in results.iter().enumerate() {
        let s = &subjects[cases[i].subj];
        run.evals(r.evals);
        for c in &r.classes {
            run.nontrivial(c.clone());
            run.sample(&format!("{}:{}", fmt::family(s.format).unwrap_or("?"), c.rsplit('|').nth(1).unwrap_or("")), 1, case_json(&cases[i], s));
        }
        for (k, n) in &r.counters {
            run.count(k, *n);
        }
        if let (Some(sig), Some((_, _, what))) = (sig, &r.defect) {
            run.violation(sig, &format!("{} [{} {}] len={}: {}", s.name, s.format, s.state, cases[i].len, what), case_json(&cases[i], s));
        }
    }
    run.set("subjects", json!(subjects.len()));
    run.set("cases", json!(cases.len()));
    run.engine("release", true, json!({"threads": par::workers()}));
    run.finish(40);
}
