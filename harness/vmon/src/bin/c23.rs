//! C23 — cancellation is always reported as cancellation; progress steps are well formed.
//!
//! Fault enumeration over progress-callback invocations.  For every operation a *probe run*
//! records the complete event list [(call, phase, step, total)], N = its length.  Then for every
//! k in 1..=N and every cancellation mode
//!   * `once`   — the callback returns false at its k-th invocation only,
//!   * `sticky` — the callback returns false from the k-th invocation on,
//!   * `flag`   — while the k-th invocation is blocked, *another thread* calls `ctx.cancel()`,
//!                then the callback returns true,
//! the SDK call that was running at invocation k must itself return `Err(OperationCancelled)`.
//! Anything else (Ok, Ok with validation failures standing in for the cancellation, another
//! error, the error surfacing only from a later call) is a violation.  A seeded-delay variant
//! cancels from a free-running thread; there the verdict uses what the callback *observed*
//! (`is_cancelled()` true at some checkpoint => result must be the cancellation error).
//! Every recorded event log is checked offline: step >= 1, step <= total when total != 0, and
//! strictly increasing step inside a maximal run of equal phase within one SDK call.
use c2pa::{Builder, BuilderIntent, Context, HashRange, ProgressPhase, Reader};
use serde_json::{json, Value};
use std::io::Cursor;
use std::sync::atomic::{AtomicBool, AtomicUsize, Ordering};
use std::sync::{mpsc, Arc, Mutex, OnceLock, Weak};
use vmon::assets::{self, Asset, Mp4Layout};
use vmon::{par, report, signers, Rng, Run};

// ---------------------------------------------------------------------------------------------
// recording / cancelling progress probe
// ---------------------------------------------------------------------------------------------

#[derive(Clone, Copy, Debug, PartialEq)]
enum Mode {
    Probe,
    Once(usize),
    Sticky(usize),
    Flag(usize),
    /// free-running canceller thread: cancel() after `us` microseconds; the callback sleeps
    /// `cb_sleep_us` at every invocation (a real suspension point) so that the cancel lands
    /// inside the operation
    Delay { us: u64, cb_sleep_us: u64 },
}

impl Mode {
    fn name(&self) -> &'static str {
        match self {
            Mode::Probe => "probe",
            Mode::Once(_) => "once",
            Mode::Sticky(_) => "sticky",
            Mode::Flag(_) => "flag",
            Mode::Delay { .. } => "delay",
        }
    }
}

#[derive(Clone, Debug, PartialEq)]
struct Ev {
    call: usize,
    /// which public SDK call was running (set by Tr::call)
    kind: &'static str,
    phase: String,
    step: u32,
    total: u32,
    saw_cancel: bool,
}

struct Probe {
    mode: Mode,
    n: AtomicUsize,
    call: AtomicUsize,
    kind: Mutex<&'static str>,
    events: Mutex<Vec<Ev>>,
    /// (1-based invocation index, call index) at which the cancellation was delivered
    fired: Mutex<Option<(usize, usize)>>,
    ctx: OnceLock<Weak<Context>>,
    /// set by the canceller thread after cancel() returned (Delay mode)
    cancel_done: AtomicBool,
}

impl Probe {
    fn new(mode: Mode) -> Arc<Probe> {
        Arc::new(Probe {
            mode,
            n: AtomicUsize::new(0),
            call: AtomicUsize::new(0),
            kind: Mutex::new(""),
            events: Mutex::new(Vec::new()),
            fired: Mutex::new(None),
            ctx: OnceLock::new(),
            cancel_done: AtomicBool::new(false),
        })
    }

    fn on_event(&self, phase: ProgressPhase, step: u32, total: u32) -> bool {
        let i = self.n.fetch_add(1, Ordering::SeqCst) + 1;
        let call = self.call.load(Ordering::SeqCst);
        let ctx = self.ctx.get().and_then(|w| w.upgrade());
        if let Mode::Delay { cb_sleep_us, .. } = self.mode {
            if cb_sleep_us > 0 {
                std::thread::sleep(std::time::Duration::from_micros(cb_sleep_us));
            }
        }
        let mut ret = true;
        match self.mode {
            Mode::Once(k) if i == k => ret = false,
            Mode::Sticky(k) if i >= k => ret = false,
            Mode::Flag(k) if i == k => {
                // cancel from another thread while this checkpoint is suspended
                if let Some(c) = ctx.clone() {
                    let (tx, rx) = mpsc::channel::<()>();
                    let h = std::thread::spawn(move || {
                        c.cancel();
                        let _ = tx.send(());
                    });
                    let _ = rx.recv();
                    let _ = h.join();
                }
            }
            _ => {}
        }
        let saw_cancel = ctx.map(|c| c.is_cancelled()).unwrap_or(false);
        if !ret || saw_cancel {
            let mut f = self.fired.lock().unwrap();
            if f.is_none() {
                *f = Some((i, call));
            }
        }
        let kind = *self.kind.lock().unwrap();
        self.events.lock().unwrap().push(Ev { call, kind, phase: format!("{phase:?}"), step, total, saw_cancel });
        ret
    }
}

#[derive(Debug, Clone)]
struct Fail {
    call: usize,
    /// c2pa::Error variant name, or "SwallowedOk" (the call during which the cancellation was
    /// delivered returned Ok), or "Panic"
    kind: String,
    msg: String,
    /// summary of the Ok value for SwallowedOk
    detail: Option<Value>,
}

/// Tags which SDK call of a multi-call operation is running and stops the operation as soon as
/// the call that received the cancellation returns Ok (the verdict is about *that* call).
struct Tr<'a> {
    probe: &'a Probe,
}

impl Tr<'_> {
    fn call<T>(&self, idx: usize, kind: &'static str, f: impl FnOnce() -> c2pa::Result<T>) -> Result<T, Fail> {
        self.call_s(idx, kind, f, |_| json!({"kind": kind}))
    }
    fn call_s<T>(&self, idx: usize, kind: &'static str, f: impl FnOnce() -> c2pa::Result<T>, sum: impl FnOnce(&T) -> Value) -> Result<T, Fail> {
        self.probe.call.store(idx, Ordering::SeqCst);
        *self.probe.kind.lock().unwrap() = kind;
        let r = f();
        let fired_here = self.probe.fired.lock().unwrap().map(|(_, c)| c == idx).unwrap_or(false);
        match r {
            Ok(v) if fired_here => Err(Fail { call: idx, kind: "SwallowedOk".into(), msg: format!("{kind} returned Ok"), detail: Some(sum(&v)) }),
            Ok(v) => Ok(v),
            Err(e) => Err(Fail { call: idx, kind: report::err_kind(&e), msg: e.to_string().chars().take(160).collect(), detail: None }),
        }
    }
}

/// Stage of an operation, derived from the call kind and the documented phase order
/// (`AddingIngredient* -> Thumbnail -> Hashing -> Signing -> Writing -> Embedding`, then the
/// verify-after-sign pass): used as the cause class in witness signatures.
fn stage(events: &[Ev], i: usize) -> String {
    let e = &events[i];
    match e.kind {
        "add_ingredient" => "ingredient-load".into(),
        "read" => "read-validate".into(),
        "sign" => {
            let before: Vec<&Ev> = events[..i].iter().filter(|x| x.call == e.call).collect();
            if before.iter().any(|x| x.phase == "Embedding") {
                "verify-after-sign".into()
            } else if before.iter().any(|x| x.phase == "Writing") || matches!(e.phase.as_str(), "Writing" | "Thumbnail" | "Hashing" | "Signing" | "Embedding") {
                "sign-core".into()
            } else {
                "sign-auto-ingredient".into()
            }
        }
        k => k.to_string(),
    }
}

// ---------------------------------------------------------------------------------------------
// operations
// ---------------------------------------------------------------------------------------------

type OpFn = Box<dyn Fn(&Arc<Context>, &Tr) -> Result<Value, Fail> + Send + Sync>;

struct Op {
    name: String,
    /// cause-class parts for signatures: family (sign/read/...), hash kind (data/bmff/box/merkle/none)
    family: &'static str,
    hash: &'static str,
    fmt: String,
    settings: String,
    ctx_signer: bool,
    /// manifest bytes served by a canned HTTP resolver installed on the context (remote reads)
    resolver: Option<Vec<u8>>,
    run: OpFn,
    /// in the probe run the result must satisfy this (otherwise the op is trivial / broken and skipped)
    probe_ok: fn(&Value) -> bool,
}

fn base_settings(extra: Value) -> String {
    let mut v = json!({
        "verify": {"verify_trust": true},
        "trust": {"trust_anchors": signers::trust_anchors_pem()},
        "builder": {"thumbnail": {"enabled": false}}
    });
    merge(&mut v, &extra);
    v.to_string()
}

fn merge(a: &mut Value, b: &Value) {
    match (a, b) {
        (Value::Object(a), Value::Object(b)) => {
            for (k, v) in b {
                merge(a.entry(k.clone()).or_insert(Value::Null), v);
            }
        }
        (a, b) => *a = b.clone(),
    }
}

fn definition(title: &str) -> Value {
    json!({"title": title, "assertions": [{"label": "org.verif.test", "data": {"k": 1}}]})
}

fn reader_summary(r: &Reader) -> Value {
    let fails: Vec<String> = report::codes_of(r).into_iter().filter(|c| c.1 == "failure").map(|c| format!("{}:{}", c.0, c.2)).collect();
    json!({"kind": "reader", "state": format!("{:?}", r.validation_state()), "failures": fails, "manifests": r.manifests().len()})
}

fn no_failures(v: &Value) -> bool {
    v["failures"].as_array().map(|a| a.is_empty()).unwrap_or(true) && v["state"].as_str().map(|s| s != "Invalid").unwrap_or(true)
}

fn any_ok(_: &Value) -> bool {
    true
}

/// Signs `a` with a plain (unmonitored) context and returns the signed bytes (+ manifest bytes).
fn plain_sign(a: &Asset, settings: &str, intent: Option<BuilderIntent>, ingredients: &[(&Asset, &str)], no_embed: bool) -> Option<(Vec<u8>, Vec<u8>)> {
    let ctx = Context::new().with_settings(settings).ok()?;
    let mut b = Builder::from_context(ctx).with_definition(definition("prepared")).ok()?;
    if let Some(i) = intent {
        b.set_intent(i);
    }
    for (ing, rel) in ingredients {
        let mut s = Cursor::new(ing.bytes.clone());
        b.add_ingredient_from_stream(json!({"title": ing.name, "relationship": rel}).to_string(), ing.format, &mut s).ok()?;
    }
    if no_embed {
        b.set_no_embed(true);
    }
    let signer = signers::test_signer("ed25519");
    let mut src = Cursor::new(a.bytes.clone());
    let mut dst = Cursor::new(Vec::new());
    let m = b.sign(signer.as_ref(), a.format, &mut src, &mut dst).ok()?;
    Some((dst.into_inner(), m))
}

/// Signs with a remote URL and no embedded manifest; returns (asset with the XMP reference, manifest bytes).
fn plain_sign_remote(a: &Asset, settings: &str) -> Option<(Vec<u8>, Vec<u8>)> {
    let ctx = Context::new().with_settings(settings).ok()?;
    let mut b = Builder::from_context(ctx).with_definition(definition("prepared-remote")).ok()?;
    b.set_intent(created());
    b.set_no_embed(true);
    b.set_remote_url("http://verif.invalid/manifest.c2pa");
    let signer = signers::test_signer("ed25519");
    let mut src = Cursor::new(a.bytes.clone());
    let mut dst = Cursor::new(Vec::new());
    let m = b.sign(signer.as_ref(), a.format, &mut src, &mut dst).ok()?;
    Some((dst.into_inner(), m))
}

fn created() -> BuilderIntent {
    BuilderIntent::Create(c2pa::DigitalSourceType::DigitalCapture)
}

fn is_bmff(fmt: &str) -> bool {
    matches!(fmt, "mp4" | "m4a" | "mov" | "heif" | "heic" | "avif")
}

fn sign_op(name: String, a: &Asset, hash: &'static str, settings: String, intent: Option<BuilderIntent>, no_embed: bool, remote: Option<&'static str>, ingredients: Vec<(Asset, &'static str)>) -> Op {
    let a = a.clone();
    let fmt = a.format.to_string();
    Op {
        name,
        family: "sign",
        hash,
        fmt,
        settings,
        ctx_signer: false,
        resolver: None,
        probe_ok: any_ok,
        run: Box::new(move |ctx, tr| {
            let mut b = tr.call(0, "with_definition", || Builder::from_shared_context(ctx).with_definition(definition("c23")))?;
            if let Some(i) = intent.clone() {
                b.set_intent(i);
            }
            let mut call = 1;
            for (ing, rel) in &ingredients {
                let mut s = Cursor::new(ing.bytes.clone());
                tr.call_s(call, "add_ingredient", || b.add_ingredient_from_stream(json!({"title": ing.name, "relationship": rel}).to_string(), ing.format, &mut s), |i| ingredient_summary(i))?;
                call += 1;
            }
            if no_embed {
                b.set_no_embed(true);
            }
            if let Some(u) = remote {
                b.set_remote_url(u);
            }
            let signer = signers::test_signer("ed25519");
            let mut src = Cursor::new(a.bytes.clone());
            let mut dst = Cursor::new(Vec::new());
            let m = tr.call(call, "sign", || b.sign(signer.as_ref(), a.format, &mut src, &mut dst))?;
            Ok(json!({"kind": "signed", "manifest_len": m.len(), "out_len": dst.get_ref().len()}))
        }),
    }
}

fn read_op(name: String, fmt: &str, hash: &'static str, signed: Vec<u8>, settings: String) -> Op {
    let f = fmt.to_string();
    Op {
        name,
        family: "read",
        hash,
        fmt: fmt.to_string(),
        settings,
        ctx_signer: false,
        resolver: None,
        probe_ok: no_failures,
        run: Box::new(move |ctx, tr| {
            let r = tr.call_s(0, "read", || Reader::from_shared_context(ctx).with_stream(&f, Cursor::new(signed.clone())), reader_summary)?;
            Ok(reader_summary(&r))
        }),
    }
}

fn ingredient_summary(i: &c2pa::Ingredient) -> Value {
    let v = serde_json::to_value(i).unwrap_or(Value::Null);
    let mut fails = Vec::new();
    if let Some(a) = v.get("validation_status").and_then(|x| x.as_array()) {
        for e in a {
            fails.push(e.get("code").and_then(|c| c.as_str()).unwrap_or("").to_string());
        }
    }
    if let Some(a) = v.pointer("/validation_results/activeManifest/failure").and_then(|x| x.as_array()) {
        for e in a {
            fails.push(e.get("code").and_then(|c| c.as_str()).unwrap_or("").to_string());
        }
    }
    fails.sort();
    fails.dedup();
    json!({"kind": "ingredient", "failures": fails, "has_manifest": v.get("active_manifest").is_some()})
}

fn ingredient_op(name: String, fmt: &str, hash: &'static str, bytes: Vec<u8>, settings: String) -> Op {
    let f = fmt.to_string();
    Op {
        name,
        family: "add_ingredient",
        hash,
        fmt: fmt.to_string(),
        settings,
        ctx_signer: false,
        resolver: None,
        probe_ok: no_failures,
        run: Box::new(move |ctx, tr| {
            let mut b = tr.call(0, "with_definition", || Builder::from_shared_context(ctx).with_definition(definition("c23")))?;
            let mut s = Cursor::new(bytes.clone());
            let i = tr.call_s(1, "add_ingredient", || b.add_ingredient_from_stream(json!({"title": "ing", "relationship": "componentOf"}).to_string(), &f, &mut s), |i| ingredient_summary(i))?;
            Ok(ingredient_summary(i))
        }),
    }
}

/// placeholder -> splice -> update_hash_from_stream -> sign_embeddable (-> plain read-back as probe sanity)
fn embeddable_op(name: String, a: &Asset, hash: &'static str, settings: String, insert_at: usize, extra_exclusions: usize) -> Op {
    let a = a.clone();
    let read_settings = base_settings(json!({}));
    Op {
        name,
        family: "embeddable",
        hash,
        fmt: a.format.to_string(),
        settings,
        ctx_signer: true,
        resolver: None,
        probe_ok: no_failures,
        run: Box::new(move |ctx, tr| {
            let mut b = tr.call(0, "with_definition", || Builder::from_shared_context(ctx).with_definition(definition("c23")))?;
            b.set_intent(created());
            let ph = tr.call(1, "placeholder", || b.placeholder(a.format))?;
            let mut out = a.bytes[..insert_at].to_vec();
            out.extend_from_slice(&ph);
            out.extend_from_slice(&a.bytes[insert_at..]);
            if hash == "data" {
                let mut ex = vec![HashRange::new(insert_at as u64, ph.len() as u64)];
                // additional (real) exclusions at the tail of the asset: more hashed ranges => more checkpoints
                let tail = out.len();
                for j in 0..extra_exclusions {
                    ex.push(HashRange::new((tail - 2 - 4 * (j + 1)) as u64, 2));
                }
                tr.call(2, "set_data_hash_exclusions", || b.set_data_hash_exclusions(ex).map(|_| ()))?;
            }
            let mut s = Cursor::new(out.clone());
            tr.call(3, "update_hash_from_stream", || b.update_hash_from_stream(a.format, &mut s).map(|_| ()))?;
            let signed = tr.call(4, "sign_embeddable", || b.sign_embeddable(a.format))?;
            if ph.is_empty() || signed.len() > ph.len() {
                // box-hash mode has no placeholder; nothing to splice
                return Ok(json!({"kind": "embeddable", "placeholder": ph.len(), "signed": signed.len(), "failures": []}));
            }
            out[insert_at..insert_at + signed.len()].copy_from_slice(&signed);
            // sanity read-back on an unmonitored context (only evaluated for the probe run)
            let o = report::read_bytes(Context::new().with_settings(read_settings.as_str()).unwrap(), a.format, &out);
            Ok(json!({"kind": "embeddable", "placeholder": ph.len(), "signed": signed.len(), "state": o.state, "failures": o.failure_codes()}))
        }),
    }
}

/// HTTP resolver answering every request with the same body (no network).
struct CannedResolver(Vec<u8>);

impl c2pa::http::SyncHttpResolver for CannedResolver {
    fn http_resolve(&self, _request: c2pa::http::http::Request<Vec<u8>>) -> Result<c2pa::http::http::Response<Box<dyn std::io::Read>>, c2pa::http::HttpResolverError> {
        let body: Box<dyn std::io::Read> = Box::new(Cursor::new(self.0.clone()));
        Ok(c2pa::http::http::Response::builder().status(200).header("content-type", "application/c2pa").body(body)?)
    }
}

struct Fixtures {
    tiny: Vec<Asset>,
}

fn build_ops(quick: bool) -> (Vec<Op>, Vec<String>) {
    let mut ops: Vec<Op> = Vec::new();
    let mut skipped: Vec<String> = Vec::new();
    let fx = Fixtures { tiny: assets::tiny_assets() };
    let plain = base_settings(json!({}));
    let boxs = base_settings(json!({"core": {"prefer_compress_manifests": true}}));
    let merkle = base_settings(json!({"core": {"merkle_tree_chunk_size_in_kb": 1}}));
    let big_mp4 = Asset { name: "tiny_big.mp4".into(), format: "mp4", bytes: assets::tiny_mp4(Mp4Layout::MoovFirst, 5000, false, false) };
    let jpg = fx.tiny.iter().find(|a| a.name == "tiny.jpg").unwrap().clone();
    let png = fx.tiny.iter().find(|a| a.name == "tiny.png").unwrap().clone();
    let mp4 = fx.tiny.iter().find(|a| a.name == "tiny.mp4").unwrap().clone();

    // --- sign: every tiny asset, default hash binding (data hash / BMFF hash), Create and Edit intents
    for a in &fx.tiny {
        let h = if is_bmff(a.format) { "bmff" } else { "data" };
        ops.push(sign_op(format!("sign|{}|{}|create", a.name, h), a, h, plain.clone(), Some(created()), false, None, vec![]));
        ops.push(sign_op(format!("sign|{}|{}|edit", a.name, h), a, h, plain.clone(), Some(BuilderIntent::Edit), false, None, vec![]));
        if !is_bmff(a.format) {
            ops.push(sign_op(format!("sign|{}|box|create", a.name), a, "box", boxs.clone(), Some(created()), false, None, vec![]));
        }
        ops.push(sign_op(format!("sign|{}|{}|sidecar", a.name, h), a, h, plain.clone(), Some(created()), true, None, vec![]));
        if matches!(a.format, "jpg" | "png" | "mp4" | "tif" | "svg" | "gif" | "wav" | "mp3") {
            ops.push(sign_op(format!("sign|{}|{}|remote+embed", a.name, h), a, h, plain.clone(), Some(created()), false, Some("http://verif.invalid/m.c2pa"), vec![]));
            ops.push(sign_op(format!("sign|{}|{}|remote-only", a.name, h), a, h, plain.clone(), Some(created()), true, Some("http://verif.invalid/m.c2pa"), vec![]));
        }
    }
    ops.push(sign_op("sign|tiny_big.mp4|merkle|create".into(), &big_mp4, "merkle", merkle.clone(), Some(created()), false, None, vec![]));
    ops.push(sign_op("sign|tiny_big.mp4|merkle|edit".into(), &big_mp4, "merkle", merkle.clone(), Some(BuilderIntent::Edit), false, None, vec![]));

    // --- signed material prepared with unmonitored contexts
    let mut signed: Vec<(Asset, &'static str, Vec<u8>, Vec<u8>)> = Vec::new(); // (asset, hash, signed bytes, manifest)
    for a in &fx.tiny {
        let h = if is_bmff(a.format) { "bmff" } else { "data" };
        match plain_sign(a, &plain, Some(created()), &[], false) {
            Some((s, m)) => signed.push((a.clone(), h, s, m)),
            None => skipped.push(format!("prepare-sign {}", a.name)),
        }
        if !is_bmff(a.format) {
            match plain_sign(a, &boxs, Some(created()), &[], false) {
                Some((s, m)) => signed.push((a.clone(), "box", s, m)),
                None => skipped.push(format!("prepare-sign-box {}", a.name)),
            }
        }
    }
    match plain_sign(&big_mp4, &merkle, Some(created()), &[], false) {
        Some((s, m)) => signed.push((big_mp4.clone(), "merkle", s, m)),
        None => skipped.push("prepare-sign-merkle".into()),
    }

    // --- read embedded, add ingredient (signed + unsigned), sign with ingredients
    for (a, h, s, _m) in &signed {
        ops.push(read_op(format!("read|{}|{}|embedded", a.name, h), a.format, h, s.clone(), plain.clone()));
        ops.push(ingredient_op(format!("add_ingredient|{}|{}|signed", a.name, h), a.format, h, s.clone(), plain.clone()));
    }
    for a in &fx.tiny {
        ops.push(ingredient_op(format!("add_ingredient|{}|none|unsigned", a.name), a.format, "none", a.bytes.clone(), plain.clone()));
    }
    // sidecar reads
    for a in [&jpg, &png, &mp4] {
        let h = if is_bmff(a.format) { "bmff" } else { "data" };
        if let Some((_out, m)) = plain_sign(a, &plain, Some(created()), &[], true) {
            let src = a.bytes.clone();
            let f = a.format.to_string();
            ops.push(Op {
                name: format!("read|{}|{}|sidecar", a.name, h),
                family: "read",
                hash: h,
                fmt: a.format.to_string(),
                settings: plain.clone(),
                ctx_signer: false,
        resolver: None,
                probe_ok: no_failures,
                run: Box::new(move |ctx, tr| {
                    let r = tr.call_s(0, "read", || Reader::from_shared_context(ctx).with_manifest_data_and_stream(&m, &f, Cursor::new(src.clone())), reader_summary)?;
                    Ok(reader_summary(&r))
                }),
            });
        } else {
            skipped.push(format!("prepare-sidecar {}", a.name));
        }
    }
    // fragmented BMFF (repository fixture, already signed)
    if let (Some(init), Some(frag)) = (assets::fixture("dashinit.mp4"), assets::fixture("dash1.m4s")) {
        let s = base_settings(json!({"verify": {"verify_trust": false}}));
        ops.push(Op {
            name: "read|dashinit.mp4+dash1.m4s|bmff|fragment".into(),
            family: "read",
            hash: "bmff-fragment",
            fmt: "mp4".into(),
            settings: s,
            ctx_signer: false,
        resolver: None,
            probe_ok: any_ok,
            run: Box::new(move |ctx, tr| {
                let r = tr.call_s(0, "read", || Reader::from_shared_context(ctx).with_fragment("mp4", Cursor::new(init.clone()), Cursor::new(frag.clone())), reader_summary)?;
                Ok(reader_summary(&r))
            }),
        });
    } else {
        skipped.push("fixture dashinit.mp4/dash1.m4s missing".into());
    }
    // ingredient chains: grandparent -> parent -> asset, read and re-use as ingredient; sign with ingredients
    let find = |name: &str, h: &str| signed.iter().find(|x| x.0.name == name && x.1 == h).map(|x| Asset { name: format!("signed-{}", x.0.name), format: x.0.format, bytes: x.2.clone() });
    if let (Some(sj), Some(sp), Some(sm)) = (find("tiny.jpg", "data"), find("tiny.png", "box"), find("tiny.mp4", "bmff")) {
        for target in [&jpg, &png, &mp4] {
            let h = if is_bmff(target.format) { "bmff" } else { "data" };
            ops.push(sign_op(
                format!("sign|{}|{}|ingredients3", target.name, h),
                target,
                h,
                plain.clone(),
                Some(created()),
                false,
                None,
                vec![(sj.clone(), "componentOf"), (sp.clone(), "componentOf"), (png.clone(), "componentOf"), (sm.clone(), "inputTo")],
            ));
            // edit of an already-signed asset: the parent carries a manifest
            let signed_target = find(&target.name, h).unwrap();
            let st = Asset { name: target.name.clone(), format: target.format, bytes: signed_target.bytes.clone() };
            ops.push(sign_op(format!("sign|signed-{}|{}|edit-signed-parent", target.name, h), &st, h, plain.clone(), Some(BuilderIntent::Edit), false, None, vec![]));
            ops.push(sign_op(format!("sign|signed-{}|{}|edit-signed-parent+ingredient", target.name, h), &st, h, plain.clone(), Some(BuilderIntent::Edit), false, None, vec![(sp.clone(), "componentOf")]));
            // chain for reading
            if let Some((lvl1, _)) = plain_sign(&st, &plain, Some(BuilderIntent::Edit), &[(&sj, "componentOf")], false) {
                let l1 = Asset { name: format!("lvl1-{}", target.name), format: target.format, bytes: lvl1 };
                if let Some((lvl2, _)) = plain_sign(&l1, &plain, Some(BuilderIntent::Edit), &[(&sm, "componentOf")], false) {
                    ops.push(read_op(format!("read|{}|{}|chain3", target.name, h), target.format, h, lvl2.clone(), plain.clone()));
                    ops.push(ingredient_op(format!("add_ingredient|{}|{}|chain3", target.name, h), target.format, h, lvl2, plain.clone()));
                } else {
                    skipped.push(format!("prepare-chain2 {}", target.name));
                }
            } else {
                skipped.push(format!("prepare-chain1 {}", target.name));
            }
        }
    } else {
        skipped.push("prepare ingredient material".into());
    }
    // thumbnails on a real image
    if let Some(b) = assets::fixture("IMG_0003.jpg") {
        let a = Asset { name: "IMG_0003.jpg".into(), format: "jpg", bytes: b };
        let s = base_settings(json!({"builder": {"thumbnail": {"enabled": true}}}));
        ops.push(sign_op("sign|IMG_0003.jpg|data|thumbnail".into(), &a, "data", s.clone(), Some(BuilderIntent::Edit), false, None, vec![]));
        if !quick {
            if let Some((sg, _)) = plain_sign(&a, &s, Some(BuilderIntent::Edit), &[], false) {
                ops.push(read_op("read|IMG_0003.jpg|data|thumbnail".into(), "jpg", "data", sg, plain.clone()));
            }
        }
    }
    // verify_after_sign off (fewer checkpoints, different tail)
    ops.push(sign_op("sign|tiny.jpg|data|no-verify-after-sign".into(), &jpg, "data", base_settings(json!({"verify": {"verify_after_sign": false}})), Some(created()), false, None, vec![]));

    // --- placeholder / update_hash_from_stream / sign_embeddable
    ops.push(embeddable_op("embeddable|tiny.jpg|data".into(), &jpg, "data", plain.clone(), 2, 0));
    ops.push(embeddable_op("embeddable|tiny.jpg|data|5-exclusions".into(), &jpg, "data", plain.clone(), 2, 4));
    ops.push(embeddable_op("embeddable|tiny.jpg|box".into(), &jpg, "box", base_settings(json!({"builder": {"prefer_box_hash": true}})), 2, 0));
    ops.push(embeddable_op("embeddable|tiny.png|box".into(), &png, "box", base_settings(json!({"builder": {"prefer_box_hash": true}})), 8, 0));
    let ftyp_len = u32::from_be_bytes([mp4.bytes[0], mp4.bytes[1], mp4.bytes[2], mp4.bytes[3]]) as usize;
    ops.push(embeddable_op("embeddable|tiny.mp4|bmff".into(), &mp4, "bmff", plain.clone(), ftyp_len, 0));
    ops.push(embeddable_op("embeddable|tiny_big.mp4|merkle".into(), &big_mp4, "merkle", merkle.clone(), ftyp_len, 0));

    // --- legacy data-hashed embeddable (data_hashed_placeholder / sign_data_hashed_embeddable)
    {
        let a = jpg.clone();
        ops.push(Op {
            name: "legacy-embeddable|tiny.jpg|data".into(),
            family: "embeddable",
            hash: "data",
            fmt: "jpg".into(),
            settings: plain.clone(),
            ctx_signer: false,
            resolver: None,
            probe_ok: any_ok,
            run: Box::new(move |ctx, tr| {
                let mut b = tr.call(0, "with_definition", || Builder::from_shared_context(ctx).with_definition(definition("c23")))?;
                b.set_intent(created());
                let signer = signers::test_signer("ed25519");
                let ph = tr.call(1, "data_hashed_placeholder", || b.data_hashed_placeholder(signer.reserve_size(), "image/jpeg"))?;
                let mut out = a.bytes[..2].to_vec();
                out.extend_from_slice(&ph);
                out.extend_from_slice(&a.bytes[2..]);
                let mut dh = c2pa::assertions::DataHash::new("source_hash", "sha256");
                dh.exclusions = Some(vec![HashRange::new(2, ph.len() as u64)]);
                let h = c2pa::hash_stream_by_alg("sha256", &mut Cursor::new(out.clone()), dh.exclusions.clone(), true).map_err(|e| Fail { call: 9, kind: "Harness".into(), msg: e.to_string(), detail: None })?;
                dh.set_hash(h);
                let m = tr.call(2, "sign_data_hashed_embeddable", || b.sign_data_hashed_embeddable(signer.as_ref(), &dh, "image/jpeg"))?;
                Ok(json!({"kind": "signed", "manifest_len": m.len()}))
            }),
        });
    }
    // --- remote manifest fetched through a canned resolver
    for a in [&jpg, &png] {
        if let Some((out, m)) = plain_sign_remote(a, &plain) {
            let f = a.format.to_string();
            ops.push(Op {
                name: format!("read|{}|data|remote-fetch", a.name),
                family: "read",
                hash: "data",
                fmt: a.format.to_string(),
                settings: base_settings(json!({"verify": {"remote_manifest_fetch": true}})),
                ctx_signer: false,
                resolver: Some(m),
                probe_ok: no_failures,
                run: Box::new(move |ctx, tr| {
                    let r = tr.call_s(0, "read", || Reader::from_shared_context(ctx).with_stream(&f, Cursor::new(out.clone())), reader_summary)?;
                    Ok(reader_summary(&r))
                }),
            });
        } else {
            skipped.push(format!("prepare-remote {}", a.name));
        }
    }
    // --- small repository fixtures: other containers (webp, avif, heif, flac, jxl, avi, ...)
    for a in assets::fixture_assets(if quick { 300_000 } else { 2_000_000 }) {
        let h = if is_bmff(a.format) { "bmff" } else { "data" };
        ops.push(sign_op(format!("sign|{}|{}|fixture-edit", a.name, h), &a, h, plain.clone(), Some(BuilderIntent::Edit), false, None, vec![]));
        if let Some((sg, _)) = plain_sign(&a, &plain, Some(BuilderIntent::Edit), &[], false) {
            ops.push(read_op(format!("read|{}|{}|fixture", a.name, h), a.format, h, sg, plain.clone()));
        }
    }

    // --- file based APIs (ClaimAssetData::Path branches): with_file, sign_file, with_fragmented_files
    for (a, h, sg, _m) in signed.iter().filter(|x| matches!(x.0.name.as_str(), "tiny.jpg" | "tiny.mp4" | "tiny.png" | "tiny_big.mp4")) {
        let ext = a.format;
        let bytes = sg.clone();
        ops.push(Op {
            name: format!("read|{}|{}|file", a.name, h),
            family: "read",
            hash: h,
            fmt: a.format.to_string(),
            settings: plain.clone(),
            ctx_signer: false,
            resolver: None,
            probe_ok: no_failures,
            run: Box::new(move |ctx, tr| {
                let dir = tempfile::tempdir().map_err(|e| Fail { call: 9, kind: "Harness".into(), msg: e.to_string(), detail: None })?;
                let path = dir.path().join(format!("in.{ext}"));
                std::fs::write(&path, &bytes).map_err(|e| Fail { call: 9, kind: "Harness".into(), msg: e.to_string(), detail: None })?;
                let r = tr.call_s(0, "read", || Reader::from_shared_context(ctx).with_file(&path), reader_summary)?;
                Ok(reader_summary(&r))
            }),
        });
    }
    for a in [&jpg, &mp4] {
        let h = if is_bmff(a.format) { "bmff" } else { "data" };
        let a = a.clone();
        ops.push(Op {
            name: format!("sign|{}|{}|file", a.name, h),
            family: "sign",
            hash: h,
            fmt: a.format.to_string(),
            settings: plain.clone(),
            ctx_signer: false,
            resolver: None,
            probe_ok: any_ok,
            run: Box::new(move |ctx, tr| {
                let herr = |e: std::io::Error| Fail { call: 9, kind: "Harness".into(), msg: e.to_string(), detail: None };
                let dir = tempfile::tempdir().map_err(herr)?;
                let src = dir.path().join(format!("in.{}", a.format));
                let dst = dir.path().join(format!("out.{}", a.format));
                std::fs::write(&src, &a.bytes).map_err(herr)?;
                let mut b = tr.call(0, "with_definition", || Builder::from_shared_context(ctx).with_definition(definition("c23")))?;
                b.set_intent(BuilderIntent::Edit);
                let signer = signers::test_signer("ed25519");
                let m = tr.call(1, "sign", || b.sign_file(signer.as_ref(), &src, &dst))?;
                Ok(json!({"kind": "signed", "manifest_len": m.len()}))
            }),
        });
    }
    if let (Some(init), Some(frag)) = (assets::fixture("dashinit.mp4"), assets::fixture("dash1.m4s")) {
        ops.push(Op {
            name: "read|dashinit.mp4+dash1.m4s|bmff|fragment-files".into(),
            family: "read",
            hash: "bmff-fragment",
            fmt: "mp4".into(),
            settings: base_settings(json!({"verify": {"verify_trust": false}})),
            ctx_signer: false,
            resolver: None,
            probe_ok: any_ok,
            run: Box::new(move |ctx, tr| {
                let herr = |e: std::io::Error| Fail { call: 9, kind: "Harness".into(), msg: e.to_string(), detail: None };
                let dir = tempfile::tempdir().map_err(herr)?;
                let ip = dir.path().join("dashinit.mp4");
                let fp = dir.path().join("dash1.m4s");
                std::fs::write(&ip, &init).map_err(herr)?;
                std::fs::write(&fp, &frag).map_err(herr)?;
                let r = tr.call_s(0, "read", || Reader::from_shared_context(ctx).with_fragmented_files(&ip, &vec![fp.clone()]), reader_summary)?;
                Ok(reader_summary(&r))
            }),
        });
    }

    // --- archive: to_archive / with_archive / sign
    if let Some(sj) = find("tiny.jpg", "data") {
        for gen_c2pa in [None, Some(true)] {
            let s = match gen_c2pa {
                Some(g) => base_settings(json!({"builder": {"generate_c2pa_archive": g}})),
                None => plain.clone(),
            };
            let jpg2 = jpg.clone();
            let sj2 = sj.clone();
            ops.push(Op {
                name: format!("archive|tiny.jpg|data|c2pa-archive={gen_c2pa:?}"),
                family: "archive",
                hash: "data",
                fmt: "jpg".into(),
                settings: s,
                ctx_signer: false,
        resolver: None,
                probe_ok: any_ok,
                run: Box::new(move |ctx, tr| {
                    let mut b = tr.call(0, "with_definition", || Builder::from_shared_context(ctx).with_definition(definition("c23-archive")))?;
                    b.set_intent(created());
                    let mut st = Cursor::new(sj2.bytes.clone());
                    tr.call_s(1, "add_ingredient", || b.add_ingredient_from_stream(json!({"title": "ing", "relationship": "componentOf"}).to_string(), "jpg", &mut st), |i| ingredient_summary(i))?;
                    let mut ar = Cursor::new(Vec::new());
                    tr.call(2, "to_archive", || b.to_archive(&mut ar))?;
                    ar.set_position(0);
                    let mut b2 = tr.call(3, "with_archive", || Builder::from_shared_context(ctx).with_archive(ar))?;
                    let signer = signers::test_signer("ed25519");
                    let mut src = Cursor::new(jpg2.bytes.clone());
                    let mut dst = Cursor::new(Vec::new());
                    let m = tr.call(4, "sign", || b2.sign(signer.as_ref(), "jpg", &mut src, &mut dst))?;
                    Ok(json!({"kind": "signed", "manifest_len": m.len()}))
                }),
            });
        }
    }
    (ops, skipped)
}

// ---------------------------------------------------------------------------------------------
// running and judging
// ---------------------------------------------------------------------------------------------

struct RunOut {
    result: Result<Value, Fail>,
    events: Vec<Ev>,
    fired: Option<(usize, usize)>,
    panic: Option<String>,
    cancel_issued: bool,
}

fn run_op(op: &Op, mode: Mode) -> RunOut {
    let probe = Probe::new(mode);
    let p = probe.clone();
    let mut c = match Context::new().with_settings(op.settings.as_str()) {
        Ok(c) => c,
        Err(e) => {
            return RunOut { result: Err(Fail { call: 99, kind: "HarnessSettings".into(), msg: e.to_string(), detail: None }), events: vec![], fired: None, panic: None, cancel_issued: false }
        }
    };
    c = c.with_progress_callback(move |ph, s, t| p.on_event(ph, s, t));
    if op.ctx_signer {
        c = c.with_signer(signers::test_signer("ed25519"));
    }
    if let Some(m) = &op.resolver {
        c = c.with_resolver(CannedResolver(m.clone()));
    }
    let ctx = Arc::new(c);
    let _ = probe.ctx.set(Arc::downgrade(&ctx));
    let canceller = if let Mode::Delay { us, .. } = mode {
        let c2 = ctx.clone();
        let p2 = probe.clone();
        Some(std::thread::spawn(move || {
            let t0 = std::time::Instant::now();
            while (t0.elapsed().as_micros() as u64) < us {
                std::hint::spin_loop();
                if us > 200 {
                    std::thread::sleep(std::time::Duration::from_micros(20));
                }
            }
            c2.cancel();
            p2.cancel_done.store(true, Ordering::SeqCst);
        }))
    } else {
        None
    };
    let tr = Tr { probe: &probe };
    let r = report::catch_sdk(|| (op.run)(&ctx, &tr));
    let cancel_issued_before_end = probe.cancel_done.load(Ordering::SeqCst);
    if let Some(h) = canceller {
        let _ = h.join();
    }
    let events = probe.events.lock().unwrap().clone();
    let fired = *probe.fired.lock().unwrap();
    match r {
        Ok(result) => RunOut { result, events, fired, panic: None, cancel_issued: cancel_issued_before_end },
        Err(p) => RunOut { result: Err(Fail { call: probe.call.load(Ordering::SeqCst), kind: "Panic".into(), msg: p.clone(), detail: None }), events, fired, panic: Some(p), cancel_issued: cancel_issued_before_end },
    }
}

/// Offline checker of one event log: returns (phase, invariant, detail) for each broken invariant.
fn check_events(events: &[Ev]) -> Vec<(String, String, String)> {
    let mut out = Vec::new();
    for (i, e) in events.iter().enumerate() {
        if e.step == 0 {
            out.push((e.phase.clone(), "step-zero".to_string(), format!("event #{} {}:{}/{}", i + 1, e.phase, e.step, e.total)));
        }
        if e.total != 0 && e.step > e.total {
            out.push((e.phase.clone(), format!("step-exceeds-total|{}", if i > 0 && events[i - 1].call == e.call && events[i - 1].phase == e.phase && events[i - 1].total != e.total { "total-changed-in-run" } else { "plain" }), format!("event #{} {}:{}/{}", i + 1, e.phase, e.step, e.total)));
        }
        if i > 0 {
            let p = &events[i - 1];
            if p.call == e.call && p.phase == e.phase && e.step <= p.step {
                let shape = if e.step == p.step && e.total == 1 && p.total == 1 { "repeated-1-of-1" } else if e.step == p.step { "repeated-step" } else if e.step == 1 { "restart-at-1" } else { "decrease" };
                out.push((e.phase.clone(), format!("step-not-increasing|{shape}"), format!("events #{}..#{} {}:{}/{} then {}/{}", i, i + 1, e.phase, p.step, p.total, e.step, e.total)));
            }
        }
    }
    out
}

struct CaseRes {
    op: usize,
    mode: Mode,
    /// non-trivial class (None = trivial / unjudged)
    class: Option<String>,
    unjudged: Option<String>,
    /// (sig, what, witness)
    violations: Vec<(String, String, Value)>,
    events: usize,
    sample: Value,
    counters: Vec<(&'static str, u64)>,
}

fn ev_json(e: &Ev) -> Value {
    json!([e.call, e.kind, e.phase, e.step, e.total])
}

/// (outcome class, signature tail, human detail) for a run in which the cancellation was delivered
/// during call `fired_call`.
fn outcome_class(res: &Result<Value, Fail>, fired_call: usize) -> (String, String, String) {
    match res {
        Err(f) if f.kind == "OperationCancelled" && f.call == fired_call => ("cancelled".into(), String::new(), String::new()),
        Err(f) if f.kind == "OperationCancelled" => ("cancelled-late".into(), "cancelled-late".into(), format!("cancellation delivered in call {} but the error surfaced from call {}", fired_call, f.call)),
        Err(f) if f.kind == "Panic" => ("panic".into(), "panic".into(), f.msg.clone()),
        Err(f) if f.kind == "SwallowedOk" => {
            let d = f.detail.clone().unwrap_or(Value::Null);
            let mut codes: Vec<String> = d["failures"].as_array().map(|a| a.iter().filter_map(|x| x.as_str()).map(|x| x.rsplit(':').next().unwrap_or(x).to_string()).collect()).unwrap_or_default();
            codes.sort();
            codes.dedup();
            if !codes.is_empty() {
                ("ok-validation-failure".into(), format!("cancel-as-validation-failure|{}", codes.join("+")), format!("{} with validation failures {:?} standing in for the cancellation", f.msg, codes))
            } else if d["kind"] == "ingredient" && d["has_manifest"] == false {
                ("ok-no-manifest".into(), "ok-ingredient-without-manifest".into(), format!("{}: ingredient added without its manifest, no error", f.msg))
            } else {
                ("ok".into(), "ok".into(), format!("{}: {}", f.msg, d))
            }
        }
        Err(f) => (format!("other-error:{}", f.kind), format!("other-error:{}", f.kind), format!("{}: {}", f.kind, f.msg)),
        Ok(v) => ("ok-op".into(), "ok".into(), format!("operation returned Ok: {v}")),
    }
}

fn result_json(r: &Result<Value, Fail>) -> Value {
    match r {
        Ok(v) => json!({"ok": v}),
        Err(f) => json!({"err": f.kind, "call": f.call, "msg": f.msg, "detail": f.detail}),
    }
}

fn judge(opi: usize, op: &Op, mode: Mode, probe_events: &[Ev], out: &RunOut) -> CaseRes {
    let mut violations = Vec::new();
    let mut counters: Vec<(&'static str, u64)> = vec![("callbacks_seen", out.events.len() as u64)];
    // progress invariants on every log
    for (phase, inv, detail) in check_events(&out.events) {
        violations.push((format!("progress|{}|{}", phase, inv), format!("{}: {}", op.name, detail), json!({"op": op.name, "mode": mode.name(), "events": out.events.iter().map(ev_json).collect::<Vec<_>>() })));
    }
    let mut class = None;
    let mut unjudged = None;
    let (k, extra) = match mode {
        Mode::Probe => unreachable!(),
        Mode::Once(k) | Mode::Sticky(k) | Mode::Flag(k) => (Some(k), json!({"k": k, "of": probe_events.len()})),
        Mode::Delay { us, cb_sleep_us } => (None, json!({"delay_us": us, "cb_sleep_us": cb_sleep_us})),
    };
    let mut sample = json!({"op": op.name, "mode": mode.name(), "params": extra, "events": out.events.len(), "result": result_json(&out.result)});
    match out.fired {
        Some((i, call)) if i >= 1 && i <= out.events.len() => {
            let ev = &out.events[i - 1];
            let st = stage(&out.events, i - 1);
            sample["delivered_at"] = json!({"callback": i, "phase": ev.phase, "sdk_call": ev.kind, "stage": st});
            if let Some(k) = k {
                // events up to k must replay the probe (determinism of the workload; counted, not judged)
                let same = probe_events.len() >= i && out.events[..i].iter().zip(&probe_events[..i]).all(|(a, b)| a.call == b.call && a.phase == b.phase && a.step == b.step && a.total == b.total);
                if !same || i != k {
                    counters.push(("prefix_diverged_from_probe", 1));
                }
            } else {
                counters.push(("delay_checkpoint_saw_cancel", 1));
            }
            let (oc, sigtail, detail) = outcome_class(&out.result, call);
            class = Some(format!("{}|{}|{}|{}|{}|{}", op.family, op.hash, ev.kind, ev.phase, mode.name(), oc));
            if oc != "cancelled" {
                let after: Vec<Value> = out.events.iter().skip(i).take(6).map(ev_json).collect();
                let sig = if sigtail.starts_with("cancel-as-validation-failure") { sigtail.clone() } else { format!("{st}|{sigtail}") };
                violations.push((
                    sig,
                    format!("{} [{}]: cancellation delivered at callback #{} ({} in {}()) -> {}", op.name, mode.name(), i, ev.phase, ev.kind, detail),
                    json!({"op": op.name, "mode": mode.name(), "params": sample["params"], "delivered_at": sample["delivered_at"], "result": result_json(&out.result), "events_after_cancel": after, "events_total": out.events.len()}),
                ));
            }
        }
        Some(_) => {
            unjudged = Some("harness: inconsistent fired index".to_string());
        }
        None => match mode {
            Mode::Delay { us, .. } => {
                // no checkpoint ran after the cancel: Ok or OperationCancelled (flag check right after
                // the last callback) are both fine; reported, not judged
                let kd = match &out.result {
                    Ok(_) => "ok".to_string(),
                    Err(f) if f.kind == "OperationCancelled" => "cancelled-at-flag-check".to_string(),
                    Err(f) => format!("other-error:{}", f.kind),
                };
                if kd.starts_with("other-error") && out.cancel_issued {
                    if let Err(f) = &out.result {
                        violations.push((
                            format!("no-checkpoint|{kd}"),
                            format!("{} [delay {}us]: cancel() issued, no checkpoint saw it, result {}: {}", op.name, us, f.kind, f.msg),
                            json!({"op": op.name, "mode": "delay", "delay_us": us}),
                        ));
                    }
                }
                unjudged = Some(format!("no-checkpoint-after-cancel:{kd}"));
                counters.push(("delay_no_checkpoint_after_cancel", 1));
            }
            _ => {
                unjudged = Some("cancellation-not-delivered (fewer events than the probe run)".to_string());
                counters.push(("not_delivered", 1));
            }
        },
    }
    if let Some(p) = &out.panic {
        if out.fired.is_none() {
            violations.push(("panic|no-cancel".to_string(), format!("{}: panic {}", op.name, p), json!({"op": op.name, "mode": mode.name()})));
        }
    }
    CaseRes { op: opi, mode, class, unjudged, violations, events: out.events.len(), sample, counters }
}

fn main() {
    let mut run = Run::from_args("C23", "fault_enumeration");
    report::quiet_panics();
    run.rule = "for each operation (sign x formats x hash kinds x embed modes, embeddable flow, read embedded/sidecar/fragment/chains, add ingredient, archive) a probe run records all N progress events; then EVERY k in 1..=N is cancelled in three modes (callback false once / false from k on / cancel() from another thread while checkpoint k is suspended); plus seeded free-running cross-thread cancels. Non-trivial = the cancellation was delivered at a recorded checkpoint; distinct = (family, hash kind, phase at k, mode, outcome).".into();
    run.assumptions = vec![
        "the SDK call during which the cancellation is delivered must itself return Err(OperationCancelled); an error surfacing only from a later call of a multi-call flow counts as swallowed".into(),
        "progress invariants are evaluated per SDK call (a new call may restart a phase at step 1)".into(),
        "free-running cancels are judged only when a checkpoint observed is_cancelled()==true; otherwise counted as no-checkpoint-after-cancel".into(),
        "probe runs must succeed (and, for reads, report no validation failure); operations whose probe fails are listed as skipped, not judged".into(),
    ];
    run.exhaustive = true;
    let dump = std::env::args().any(|a| a == "--dump");

    let (ops, mut skipped) = build_ops(run.quick() && run.replay.is_none());
    if let Some(p) = run.replay.clone() {
        // replay one witness: {"op": name, "mode": once|sticky|flag|delay|probe, "params": {"k":..}|{"delay_us":..,"cb_sleep_us":..}}
        let v: Value = serde_json::from_slice(&std::fs::read(&p).expect("replay file")).expect("json");
        let w = &v["witness"];
        let name = w["op"].as_str().unwrap_or("");
        let Some(i) = ops.iter().position(|o| o.name == name) else {
            println!("replay: operation {name} not available");
            std::process::exit(2);
        };
        let probe = run_op(&ops[i], Mode::Probe);
        let k = w["params"]["k"].as_u64().unwrap_or(1) as usize;
        let mode = match w["mode"].as_str().unwrap_or("") {
            "once" => Mode::Once(k),
            "sticky" => Mode::Sticky(k),
            "flag" => Mode::Flag(k),
            "delay" => Mode::Delay { us: w["params"]["delay_us"].as_u64().unwrap_or(0), cb_sleep_us: w["params"]["cb_sleep_us"].as_u64().unwrap_or(0) },
            _ => Mode::Probe,
        };
        let mut bad = check_events(&probe.events).len();
        for e in &probe.events {
            println!("replay probe event: {}", ev_json(e));
        }
        if mode != Mode::Probe {
            let out = run_op(&ops[i], mode);
            let r = judge(i, &ops[i], mode, &probe.events, &out);
            println!("replay: class={:?} unjudged={:?}", r.class, r.unjudged);
            for (sig, what, _) in &r.violations {
                println!("replay violation: sig={sig} :: {what}");
            }
            bad += r.violations.len();
            if let Some(want) = v["sig"].as_str() {
                // verdict of a replay = "the recorded signature reproduces"
                bad = r.violations.iter().filter(|x| vmon::evidence::sig_token(&x.0) == want).count();
                if want.starts_with("progress|") {
                    bad += check_events(&probe.events).iter().filter(|x| format!("progress|{}|{}", x.0, x.1) == want).count();
                }
            }
        }
        std::process::exit(if bad > 0 { 1 } else { 0 });
    }
    // probe runs
    let probes = par::par_map(ops.len(), |i| run_op(&ops[i], Mode::Probe));
    let mut usable: Vec<usize> = Vec::new();
    for (i, p) in probes.iter().enumerate() {
        run.eval();
        let ok = match &p.result {
            Ok(v) => (ops[i].probe_ok)(v),
            Err(_) => false,
        };
        if dump {
            println!("{:55} N={:3} result={}", ops[i].name, p.events.len(), match &p.result { Ok(v) => v.to_string(), Err(f) => format!("ERR {} {}", f.kind, f.msg) });
            let mut line = String::new();
            for e in &p.events {
                line.push_str(&format!(" [{}]{}:{}/{}", e.call, e.phase, e.step, e.total));
            }
            println!("   {line}");
        }
        if !ok || p.events.is_empty() {
            skipped.push(format!("{}: probe {}", ops[i].name, match &p.result { Ok(v) => format!("not clean {v}"), Err(f) => format!("failed {} {}", f.kind, f.msg) }));
            continue;
        }
        usable.push(i);
        run.count("probe_events", p.events.len() as u64);
        let mut phases: Vec<String> = p.events.iter().map(|e| e.phase.clone()).collect();
        phases.dedup();
        run.sample("probe", 3, json!({"op": ops[i].name, "N": p.events.len(), "events": p.events.iter().map(ev_json).collect::<Vec<_>>() }));
        run.nontrivial(format!("{}|{}|probe|{}", ops[i].family, ops[i].hash, phases.join(">")));
        for (phase, inv, detail) in check_events(&p.events) {
            run.violation(&format!("progress|{}|{}", phase, inv), &format!("{}: {}", ops[i].name, detail), json!({"op": ops[i].name, "mode": "probe", "events": p.events.iter().map(ev_json).collect::<Vec<_>>() }));
        }
    }
    if dump {
        for s in &skipped {
            println!("SKIPPED {s}");
        }
        std::process::exit(0);
    }

    // enumerate every k in every mode
    let mut cases: Vec<(usize, Mode)> = Vec::new();
    for &i in &usable {
        let n = probes[i].events.len();
        for k in 1..=n {
            cases.push((i, Mode::Once(k)));
            cases.push((i, Mode::Sticky(k)));
            cases.push((i, Mode::Flag(k)));
        }
    }
    let enumerated = cases.len();
    // free-running cross-thread cancels
    let mut rng = Rng::new(run.seed, "c23-delay");
    let per_op = run.tier.pick(6, 300);
    for &i in &usable {
        let n = probes[i].events.len() as u64;
        for _ in 0..per_op {
            let cb_sleep_us = *rng.pick(&[0u64, 20, 50, 100]);
            // aim inside the operation: n checkpoints each sleeping cb_sleep_us (+ real work)
            let span = n * (cb_sleep_us + 30) + 200;
            let us = rng.below(span);
            cases.push((i, Mode::Delay { us, cb_sleep_us }));
        }
    }
    let results = par::par_map(cases.len(), |j| {
        let (i, mode) = cases[j];
        let out = run_op(&ops[i], mode);
        judge(i, &ops[i], mode, &probes[i].events, &out)
    });
    let mut unj: std::collections::BTreeMap<String, u64> = Default::default();
    for r in results {
        run.eval();
        let _ = r.op;
        for (k, n) in &r.counters {
            run.count(k, *n);
        }
        run.count(&format!("runs_{}", r.mode.name()), 1);
        if let Some(c) = &r.class {
            run.nontrivial(c.clone());
            run.sample(&format!("{}:{}", r.mode.name(), c.rsplit('|').next().unwrap_or("")), 2, r.sample.clone());
        }
        if let Some(u) = &r.unjudged {
            *unj.entry(u.clone()).or_insert(0) += 1;
            run.sample(&format!("unjudged:{u}"), 1, r.sample.clone());
        }
        let _ = r.events;
        for (sig, what, w) in r.violations {
            run.violation(&sig, &what, w);
        }
    }
    run.set("operations", json!(ops.iter().map(|o| o.name.clone()).collect::<Vec<_>>()));
    run.set("operations_usable", json!(usable.len()));
    run.set("operations_skipped", json!(skipped));
    run.set("enumerated_cancel_points", json!(enumerated));
    run.set("unjudged", json!(unj));
    for s in &skipped {
        println!("NOTE: property=C23 skipped: {s}");
    }
    if usable.len() * 2 < ops.len() {
        run.inconclusive(format!("only {} of {} operations had a clean probe run", usable.len(), ops.len()));
    }
    run.engine("release", true, json!({"threads": par::workers()}));
    run.finish(60);
}
