//! C15 — embeddable signing returns bytes of exactly the placeholder size (or fails), and the asset
//! patched in place reads back Valid.
//!
//! Oracle (from the statement only): `sign_embeddable(fmt).len() == placeholder(fmt).len()` whenever
//! signing succeeds; then the harness — which wrote the placeholder into a tiny asset with its own
//! container writer — overwrites exactly those bytes and the Reader must accept the asset.
//! Routes: new (`placeholder` / `set_data_hash_exclusions` / `update_hash_from_stream` /
//! `sign_embeddable`) and legacy (`data_hashed_placeholder` / `sign_data_hashed_embeddable`).
use c2pa::{
    assertions::DataHash,
    dynamic_assertion::{DynamicAssertion, DynamicAssertionContent, PartialClaim},
    Builder, Context, HashRange, Signer, SigningAlg,
};
use serde_json::{json, Value};
use sha2::{Digest, Sha256, Sha384, Sha512};
use std::io::Cursor;
use vmon::{assets, assets::Mp4Layout, embed, par, report, signers, Rng, Run};

const FMTS: &[&str] = &["jpg", "png", "gif", "tif", "jxl", "mp4"];

#[derive(Clone, Copy, Debug, PartialEq)]
enum Zone {
    /// one byte somewhere before the manifest (offsets < 24 / < 256)
    Before,
    /// 1-2 bytes right after the manifest (offsets < 65 536)
    After,
    /// inside a 70 KB tail (offsets >= 65 536)
    Far,
    /// zero-length range at an offset >= 2^32 (8-byte CBOR integers)
    Beyond,
}

#[derive(Clone, Debug)]
struct Case {
    fmt: &'static str,
    legacy: bool,
    alg: &'static str,
    reserve_delta: i64,
    dynamic: Option<usize>,
    def_variant: u8,
    hash_alg: &'static str,
    tail: usize,
    /// (zone, slot, len)
    extras: Vec<(Zone, usize, usize)>,
    origin: &'static str,
}

fn zone_name(z: Zone) -> &'static str {
    match z {
        Zone::Before => "before",
        Zone::After => "after",
        Zone::Far => "far",
        Zone::Beyond => "beyond",
    }
}

fn zone_of(s: &str) -> Zone {
    match s {
        "before" => Zone::Before,
        "far" => Zone::Far,
        "beyond" => Zone::Beyond,
        _ => Zone::After,
    }
}

fn case_json(c: &Case) -> Value {
    json!({"fmt": c.fmt, "legacy": c.legacy, "alg": c.alg, "reserve_delta": c.reserve_delta, "dynamic": c.dynamic, "def_variant": c.def_variant,
        "hash_alg": c.hash_alg, "tail": c.tail, "extras": c.extras.iter().map(|e| json!([zone_name(e.0), e.1, e.2])).collect::<Vec<_>>(), "origin": c.origin})
}

fn leak(s: &str, table: &[&'static str]) -> &'static str {
    table.iter().find(|x| **x == s).copied().unwrap_or(table[0])
}

fn case_from_json(w: &Value) -> Case {
    Case {
        fmt: leak(w["fmt"].as_str().unwrap_or("jpg"), FMTS),
        legacy: w["legacy"].as_bool().unwrap_or(false),
        alg: leak(w["alg"].as_str().unwrap_or("ed25519"), &["ed25519", "es256", "es384", "es512", "ps256", "ps384", "ps512"]),
        reserve_delta: w["reserve_delta"].as_i64().unwrap_or(0),
        dynamic: w["dynamic"].as_u64().map(|x| x as usize),
        def_variant: w["def_variant"].as_u64().unwrap_or(0) as u8,
        hash_alg: leak(w["hash_alg"].as_str().unwrap_or("sha256"), &["sha256", "sha384", "sha512"]),
        tail: w["tail"].as_u64().unwrap_or(0) as usize,
        extras: w["extras"].as_array().map(|a| a.iter().map(|e| (zone_of(e[0].as_str().unwrap_or("after")), e[1].as_u64().unwrap_or(0) as usize, e[2].as_u64().unwrap_or(1) as usize)).collect()).unwrap_or_default(),
        origin: "replay",
    }
}

fn settings() -> String {
    json!({
        "verify": {"verify_trust": true},
        "trust": {"trust_anchors": signers::trust_anchors_pem()},
        "builder": {"thumbnail": {"enabled": false}}
    })
    .to_string()
}

fn definition(c: &Case) -> Value {
    let mut assertions = vec![json!({"label": "c2pa.actions", "data": {"actions": [{"action": "c2pa.created", "digitalSourceType": "http://c2pa.org/digitalsourcetype/empty"}]}})];
    let mut title = "c15".to_string();
    match c.def_variant % 10 {
        1 => assertions.push(json!({"label": "org.verif.a", "data": {"k": 1, "s": "x".repeat(30)}})),
        2 => {
            title = "t".repeat(300);
            assertions.push(json!({"label": "org.verif.a", "data": {"k": [1, 2, 3], "s": "y".repeat(270)}}));
            assertions.push(json!({"label": "org.verif.b", "data": {"nested": {"a": true, "b": null}}}));
        }
        _ => {}
    }
    let mut d = json!({"claim_generator_info": [{"name": "verif_c15", "version": "1.0"}], "title": title, "assertions": assertions});
    if c.hash_alg != "sha256" {
        d["hash_alg"] = json!(c.hash_alg);
    }
    d
}

// ---- a signer that can carry a dynamic assertion ---------------------------------------------
struct DynA {
    size: usize,
}
impl DynamicAssertion for DynA {
    fn label(&self) -> String {
        "org.verif.dynamic".to_string()
    }
    fn reserve_size(&self) -> c2pa::Result<usize> {
        Ok(self.size)
    }
    fn content(&self, _label: &str, size: Option<usize>, _claim: &PartialClaim) -> c2pa::Result<DynamicAssertionContent> {
        // a CBOR byte string whose encoding is exactly `size` bytes long
        let n = size.unwrap_or(self.size);
        let mut v = Vec::with_capacity(n);
        if n >= 259 {
            v.push(0x59);
            v.extend_from_slice(&((n - 3) as u16).to_be_bytes());
            v.resize(n, 0x5A);
        } else if n >= 26 {
            v.push(0x58);
            v.push((n - 2) as u8);
            v.resize(n, 0x5A);
        } else {
            v.push(0x40 + (n.max(1) - 1) as u8);
            v.resize(n.max(1), 0x5A);
        }
        Ok(DynamicAssertionContent::Cbor(v))
    }
}

struct DynSigner {
    inner: signers::TestSigner,
    dynamic: Option<usize>,
}
impl Signer for DynSigner {
    fn sign(&self, data: &[u8]) -> c2pa::Result<Vec<u8>> {
        self.inner.sign(data)
    }
    fn alg(&self) -> SigningAlg {
        self.inner.alg()
    }
    fn certs(&self) -> c2pa::Result<Vec<Vec<u8>>> {
        self.inner.certs()
    }
    fn reserve_size(&self) -> usize {
        self.inner.reserve_size()
    }
    fn dynamic_assertions(&self) -> Vec<Box<dyn DynamicAssertion>> {
        match self.dynamic {
            Some(n) => vec![Box::new(DynA { size: n })],
            None => vec![],
        }
    }
}

fn make_signer(c: &Case) -> DynSigner {
    let mut s = signers::TestSigner::new(c.alg);
    let def = s.reserve_size() as i64;
    if c.reserve_delta != 0 {
        s = s.with_reserve((def + c.reserve_delta).max(1) as usize);
    }
    DynSigner { inner: s, dynamic: c.dynamic }
}

// ---- asset with the placeholder written by the harness ---------------------------------------
fn tail_bytes(n: usize) -> Vec<u8> {
    (0..n).map(|i| (i * 7 % 251) as u8).collect()
}

/// Returns (asset bytes with `ph` embedded, offset of `ph`).
fn embed_placeholder(c: &Case, ph: &[u8]) -> Option<(Vec<u8>, usize)> {
    let t = tail_bytes(c.tail);
    match c.fmt {
        "jpg" => {
            let a = assets::tiny_jpeg(None, true, &t);
            let at = embed::jpeg_insert_offset(&a)?;
            Some((embed::splice(&a, at, ph), at))
        }
        "png" => {
            let a = assets::tiny_png(true, &t);
            let at = embed::png_insert_offset(&a)?;
            Some((embed::splice(&a, at, ph), at))
        }
        "gif" => {
            let a = assets::tiny_gif(true, &t);
            let at = embed::gif_insert_offset(&a)?;
            Some((embed::splice(&a, at, ph), at))
        }
        "tif" => Some(embed::tiff_with_c2pa(37, ph, &t)),
        "jxl" => Some(embed::jxl_with_box(ph, c.tail)),
        "mp4" => {
            let a = assets::tiny_mp4(Mp4Layout::MoovFirst, 64 + c.tail, false, false);
            embed::bmff_insert_after_ftyp(&a, ph)
        }
        _ => None,
    }
}

fn resolve_extras(c: &Case, asset_len: usize, at: usize, ph_len: usize) -> Vec<(u64, u64)> {
    let mut out: Vec<(u64, u64)> = Vec::new();
    let min_before = match c.fmt {
        "png" | "tif" => 8,
        "gif" => 6,
        "jxl" => 12,
        _ => 2,
    };
    for (z, slot, len) in &c.extras {
        let r = match z {
            Zone::Before => {
                let s = min_before + slot;
                if s + 1 <= at { Some((s as u64, 1u64)) } else { None }
            }
            Zone::After => {
                let s = at + ph_len + 1 + 3 * slot;
                let l = (*len).clamp(1, 2);
                if s + l <= asset_len { Some((s as u64, l as u64)) } else { None }
            }
            Zone::Far => {
                let s = (at + ph_len).max(65_536) + 7 + 400 * slot;
                let l = (*len).clamp(1, 300);
                if s + l <= asset_len { Some((s as u64, l as u64)) } else { None }
            }
            Zone::Beyond => Some(((1u64 << 32) + 1000 * *slot as u64, 0)),
        };
        if let Some(r) = r {
            if !out.contains(&r) {
                out.push(r);
            }
        }
    }
    out
}

fn cbor_uint_extra(v: u64) -> usize {
    match v {
        0..=23 => 0,
        24..=255 => 1,
        256..=65_535 => 2,
        65_536..=4_294_967_295 => 4,
        _ => 8,
    }
}

/// Encoded size of an exclusion list [{start, length}, ...] relative to ten `(0,2)` dummies (classification only).
fn excl_budget_class(ex: &[(u64, u64)]) -> &'static str {
    let sz: usize = ex.iter().map(|(s, l)| 16 + cbor_uint_extra(*s) + cbor_uint_extra(*l)).sum();
    if sz > 160 {
        "excl-cbor>10-dummies"
    } else {
        "excl-cbor<=10-dummies"
    }
}

fn digest(alg: &str, b: &[u8]) -> Vec<u8> {
    match alg {
        "sha384" => Sha384::digest(b).to_vec(),
        "sha512" => Sha512::digest(b).to_vec(),
        _ => Sha256::digest(b).to_vec(),
    }
}

fn hash_excluding(alg: &str, data: &[u8], ex: &[(u64, u64)]) -> Vec<u8> {
    let mut keep = vec![true; data.len()];
    for (s, l) in ex {
        for p in *s..(*s + *l).min(data.len() as u64) {
            keep[p as usize] = false;
        }
    }
    let v: Vec<u8> = data.iter().zip(keep.iter()).filter(|(_, k)| **k).map(|(b, _)| *b).collect();
    digest(alg, &v)
}

#[derive(Debug)]
enum Out {
    /// rejected before the size contract is exercised (placeholder / exclusions / hashing)
    EarlyErr(&'static str, String),
    SignErr(String),
    Signed { ph_len: usize, signed_len: usize, state: Option<String>, failures: Vec<String>, n_excl: usize, budget: &'static str },
    Panic(String),
    Harness(String),
}

fn flow(c: &Case) -> Out {
    let fmt = c.fmt;
    let r = report::catch_sdk(|| -> Result<(Vec<u8>, usize, usize, Vec<u8>, usize, &'static str), Out> {
        let early = |st: &'static str| move |e: c2pa::Error| Out::EarlyErr(st, report::err_kind(&e));
        if !c.legacy {
            let ctx = Context::new().with_settings(settings().as_str()).map_err(|e| Out::Harness(format!("{e:?}")))?.with_signer(make_signer(c));
            let mut b = Builder::from_context(ctx).with_definition(definition(c)).map_err(|e| Out::Harness(format!("{e:?}")))?;
            let mut ph = b.placeholder(fmt).map_err(early("placeholder"))?;
            if c.def_variant >= 10 {
                // history: placeholder, the manifest grows, placeholder again — the caller embeds the second one
                b.add_assertion("org.verif.late", &json!({"late": "z".repeat(400)})).map_err(|e| Out::Harness(format!("{e:?}")))?;
                ph = b.placeholder(fmt).map_err(early("placeholder-again"))?;
            }
            if ph.is_empty() {
                return Err(Out::EarlyErr("placeholder", "empty".into()));
            }
            let (asset, at) = embed_placeholder(c, &ph).ok_or(Out::Harness("embed".into()))?;
            let mut ex: Vec<(u64, u64)> = Vec::new();
            let mut budget = "no-exclusion-list";
            if fmt != "mp4" {
                ex.push((at as u64, ph.len() as u64));
                ex.extend(resolve_extras(c, asset.len(), at, ph.len()));
                ex.sort();
                budget = excl_budget_class(&ex);
                b.set_data_hash_exclusions(ex.iter().map(|(s, l)| HashRange::new(*s, *l)).collect()).map_err(early("set_data_hash_exclusions"))?;
            }
            let mut cur = Cursor::new(asset.clone());
            b.update_hash_from_stream(fmt, &mut cur).map_err(early("update_hash_from_stream"))?;
            let signed = b.sign_embeddable(fmt).map_err(|e| Out::SignErr(report::err_kind(&e)))?;
            Ok((asset, at, ph.len(), signed, ex.len(), budget))
        } else {
            if c.extras.iter().any(|e| e.0 == Zone::Beyond) {
                // the new route rejects a range past the end of the asset while hashing; on the legacy
                // route the caller supplies the hash, so such a list is simply an invalid input
                return Err(Out::EarlyErr("legacy-input", "exclusion-beyond-asset".into()));
            }
            let signer = make_signer(c);
            let ctx = Context::new().with_settings(settings().as_str()).map_err(|e| Out::Harness(format!("{e:?}")))?;
            let mut b = Builder::from_context(ctx).with_definition(definition(c)).map_err(|e| Out::Harness(format!("{e:?}")))?;
            let ph = b.data_hashed_placeholder(signer.reserve_size(), fmt).map_err(early("data_hashed_placeholder"))?;
            let (asset, at) = embed_placeholder(c, &ph).ok_or(Out::Harness("embed".into()))?;
            let mut ex: Vec<(u64, u64)> = vec![(at as u64, ph.len() as u64)];
            ex.extend(resolve_extras(c, asset.len(), at, ph.len()));
            ex.sort();
            let budget = excl_budget_class(&ex);
            let mut dh = DataHash::new("jumbf manifest", c.hash_alg);
            for (s, l) in &ex {
                dh.add_exclusion(HashRange::new(*s, *l));
            }
            dh.set_hash(hash_excluding(c.hash_alg, &asset, &ex));
            let signed = b.sign_data_hashed_embeddable(&signer, &dh, fmt).map_err(|e| Out::SignErr(report::err_kind(&e)))?;
            Ok((asset, at, ph.len(), signed, ex.len(), budget))
        }
    });
    let (mut asset, at, ph_len, signed, n_excl, budget) = match r {
        Err(p) => return Out::Panic(p),
        Ok(Err(o)) => return o,
        Ok(Ok(x)) => x,
    };
    if signed.len() != ph_len {
        return Out::Signed { ph_len, signed_len: signed.len(), state: None, failures: vec![], n_excl, budget };
    }
    let before = asset.clone();
    asset[at..at + ph_len].copy_from_slice(&signed);
    if asset[..at] != before[..at] || asset[at + ph_len..] != before[at + ph_len..] || asset.len() != before.len() {
        return Out::Harness("patch changed bytes outside the region".into());
    }
    let ctx = match Context::new().with_settings(settings().as_str()) {
        Ok(c) => c,
        Err(e) => return Out::Harness(format!("{e:?}")),
    };
    let o = report::read_bytes_catch(ctx, fmt, &asset);
    if o.state == "Panic" {
        return Out::Panic(o.error.unwrap_or_default());
    }
    let mut failures = o.failure_codes();
    if let Some(e) = &o.error {
        failures.push(format!("error:{e}"));
    }
    Out::Signed { ph_len, signed_len: signed.len(), state: Some(o.state.clone()), failures, n_excl, budget }
}

struct Res {
    class: String,
    outcome: String,
    trivial: bool,
    violation: Option<(String, String)>,
    inconclusive: Option<String>,
    detail: Value,
}

fn route(c: &Case) -> &'static str {
    if c.legacy {
        "sign_data_hashed_embeddable"
    } else {
        "sign_embeddable"
    }
}

fn extras_class(c: &Case) -> String {
    let n = c.extras.len();
    let nc = match n {
        0 => "x0",
        1..=3 => "x1-3",
        4..=7 => "x4-7",
        8..=9 => "x8-9",
        _ => "x10+",
    };
    let mut z: Vec<&str> = c.extras.iter().map(|e| zone_name(e.0)).collect();
    z.sort();
    z.dedup();
    format!("{nc}:{}", z.join("+"))
}

fn run_case(c: &Case) -> Res {
    let base = format!(
        "{}|{}|{}|res{}|{}|def{}|{}|{}",
        c.fmt,
        if c.legacy { "legacy" } else { "new" },
        c.alg,
        match c.reserve_delta {
            0 => "=",
            1..=16 => "+small",
            17.. => "+big",
            _ => "-",
        },
        if c.dynamic.is_some() { "dyn" } else { "nodyn" },
        c.def_variant,
        c.hash_alg,
        extras_class(c)
    );
    let mk = |outcome: String, trivial: bool, v: Option<(String, String)>, inc: Option<String>, detail: Value| Res { class: format!("{base}|{outcome}"), outcome, trivial, violation: v, inconclusive: inc, detail };
    match flow(c) {
        Out::EarlyErr(st, k) => mk(format!("early-err:{st}:{k}"), true, None, None, json!(null)),
        Out::SignErr(k) => mk(format!("sign-err:{k}"), false, None, None, json!(null)),
        Out::Panic(p) => mk("panic".into(), false, Some((format!("{}|panic", route(c)), format!("panic: {p}"))), None, json!(null)),
        Out::Harness(m) => mk("harness".into(), true, None, Some(m), json!(null)),
        Out::Signed { ph_len, signed_len, state, failures, n_excl, budget } => {
            let detail = json!({"placeholder_len": ph_len, "signed_len": signed_len, "n_exclusions": n_excl, "budget_class": budget, "state": state, "failures": failures});
            if signed_len != ph_len {
                let dir = if signed_len > ph_len { "longer" } else { "shorter" };
                let cause = if c.dynamic.is_some() && budget != "excl-cbor>10-dummies" { format!("{budget}+dynamic") } else { budget.to_string() };
                return mk(
                    format!("{budget}|{dir}"),
                    false,
                    Some((format!("{}|{}|{}", route(c), cause, dir), format!("{} returned {} bytes for a placeholder of {} bytes ({} exclusions, {})", route(c), signed_len, ph_len, n_excl, budget))),
                    None,
                    detail,
                );
            }
            match state.as_deref() {
                Some("Valid") | Some("Trusted") => mk(format!("{budget}|same-size|{}", state.unwrap_or_default()), false, None, None, detail),
                other => mk(
                    format!("{budget}|same-size|readback-{}", other.unwrap_or("?")),
                    false,
                    Some((format!("{}|{}|readback-not-valid", c.fmt, route(c)), format!("same-size bytes patched in place read back {:?}, failures {:?}", other, failures))),
                    None,
                    detail,
                ),
            }
        }
    }
}

fn base_case(fmt: &'static str, legacy: bool) -> Case {
    Case { fmt, legacy, alg: "ed25519", reserve_delta: 0, dynamic: None, def_variant: 0, hash_alg: "sha256", tail: 0, extras: vec![], origin: "grid" }
}

fn random_case(rng: &mut Rng) -> Case {
    let fmt = *rng.pick(FMTS);
    let legacy = fmt != "mp4" && rng.chance(1, 3);
    let tail = if rng.chance(1, 3) { 70_000 } else { 0 };
    let n = match rng.below(6) {
        0 => 0,
        1 => rng.usize(3),
        2 => 8 + rng.usize(4),
        _ => rng.usize(12),
    };
    let mut extras = Vec::new();
    for i in 0..n {
        let z = match rng.below(24) {
            0..=5 => Zone::Before,
            6..=14 => Zone::After,
            15..=22 => {
                if tail > 0 {
                    Zone::Far
                } else {
                    Zone::After
                }
            }
            _ => Zone::Beyond,
        };
        extras.push((z, i, 1 + rng.usize(300)));
    }
    Case {
        fmt,
        legacy,
        alg: *rng.pick(&["ed25519", "ed25519", "ed25519", "es256", "es384", "ps256"]),
        reserve_delta: *rng.pick(&[0i64, 0, 0, 1, 7, 10_000, 60_000, -1, -400]),
        dynamic: if rng.chance(1, 5) { Some(*rng.pick(&[20usize, 100, 300, 1000])) } else { None },
        def_variant: rng.below(3) as u8,
        hash_alg: *rng.pick(&["sha256", "sha256", "sha256", "sha384", "sha512"]),
        tail,
        extras,
        origin: "random",
    }
}

fn main() {
    let mut run = Run::from_args("C15", "exploration");
    report::quiet_panics();
    run.rule = "case = (format jpg/png/gif/tif/jxl/mp4, route new/legacy, signer alg + reserve delta, dynamic assertion, definition variant, hash alg, list of extra exclusions by zone: before / after the manifest, in a 70 KB tail (offsets >= 65536), zero-length beyond 2^32). Grid: every format x route x 0..=11 extra exclusions per zone; random: all dimensions mixed. The harness writes the composed placeholder with its own container writers, patches the signed bytes over it and reads back. Non-trivial = the flow reached signing; distinct = (format, route, alg, reserve class, dyn, definition, hash alg, extras class, outcome).".into();
    run.assumptions = vec![
        "the caller embeds the composed placeholder verbatim and excludes exactly [offset, offset+len) plus the extra ranges; extra exclusions are legal (the validator reports them as informational)".into(),
        "a signing error is an allowed outcome; flows rejected before signing (placeholder / exclusions / hashing errors) are trivial and not counted".into(),
        "Valid and Trusted both count as accepted".into(),
        "legacy route: the harness computes the data hash itself (sha2 over the bytes outside the exclusions)".into(),
    ];

    if let Some(p) = run.replay.clone() {
        let v: Value = serde_json::from_slice(&std::fs::read(&p).expect("replay file")).expect("json");
        let c = case_from_json(&v["witness"]);
        let r = run_case(&c);
        println!("replay: class={} detail={} violation={:?}", r.class, r.detail, r.violation);
        std::process::exit(if r.violation.is_some() { 1 } else { 0 });
    }

    let mut cases: Vec<Case> = Vec::new();
    // grid: formats x routes x number of extra exclusions per zone
    for &fmt in FMTS {
        for legacy in [false, true] {
            if legacy && fmt == "mp4" {
                continue;
            }
            for (zone, tail) in [(Zone::After, 0usize), (Zone::Before, 0), (Zone::Far, 70_000), (Zone::Beyond, 0)] {
                for n in 0..=11usize {
                    let mut c = base_case(fmt, legacy);
                    c.tail = tail;
                    c.extras = (0..n).map(|i| (zone, i, 2)).collect();
                    cases.push(c);
                }
            }
            for &alg in &["es256", "es384", "es512", "ps256", "ps384", "ps512"] {
                let mut c = base_case(fmt, legacy);
                c.alg = alg;
                cases.push(c);
            }
            for &d in &[1i64, 7, 255, 10_000, 66_000, -1, -200, -5000] {
                let mut c = base_case(fmt, legacy);
                c.reserve_delta = d;
                cases.push(c);
            }
            for &dy in &[20usize, 100, 300, 5000] {
                for v in 0..3u8 {
                    let mut c = base_case(fmt, legacy);
                    c.dynamic = Some(dy);
                    c.def_variant = v;
                    cases.push(c);
                }
            }
            for &h in &["sha384", "sha512"] {
                let mut c = base_case(fmt, legacy);
                c.hash_alg = h;
                cases.push(c);
            }
            if !legacy {
                for v in 10..13u8 {
                    let mut c = base_case(fmt, legacy);
                    c.def_variant = v;
                    c.origin = "placeholder-twice";
                    cases.push(c);
                }
            }
        }
    }
    // directed: minimal witnesses of the reported finding (run on every invocation) + the neighbours that hold
    for (n, origin) in [(7usize, "directed-holds"), (8, "directed")] {
        let mut c = base_case("jpg", false);
        c.extras = (0..n).map(|i| (Zone::After, i, 1)).collect();
        c.origin = origin;
        cases.push(c);
    }
    // directed (minimal) cases first, so that the replay file of a signature holds the smallest witness
    cases.sort_by_key(|c| !c.origin.starts_with("directed"));
    let grid_n = cases.len();
    let n_random = run.tier.pick(3_000, 60_000);
    let mut rng = Rng::new(run.seed, "c15");
    for _ in 0..n_random {
        cases.push(random_case(&mut rng));
    }

    let results = par::par_map(cases.len(), |i| run_case(&cases[i]));
    let mut harness_inc = 0u64;
    for (i, r) in results.iter().enumerate() {
        run.eval();
        let c = &cases[i];
        run.count(&format!("flows:{}:{}", c.fmt, if c.legacy { "legacy" } else { "new" }), 1);
        run.count(&format!("outcome:{}", r.outcome.split(':').take(2).collect::<Vec<_>>().join(":")), 1);
        if let Some(m) = &r.inconclusive {
            harness_inc += 1;
            run.sample("inconclusive", 2, json!({"why": m, "case": case_json(c)}));
            continue;
        }
        if r.trivial {
            run.count("trivial_rejected_before_signing", 1);
            run.sample(&format!("trivial:{}", r.outcome), 1, case_json(c));
            continue;
        }
        run.nontrivial(r.class.clone());
        run.sample(&r.outcome, 2, json!({"case": case_json(c), "observed": r.detail}));
        if let Some((s, what)) = &r.violation {
            run.violation(s, what, case_json(c));
        }
    }
    if harness_inc > 0 {
        run.inconclusive(format!("{harness_inc} flows could not be set up by the harness"));
    }
    run.set("grid_and_directed_cases", json!(grid_n));
    run.set("random_cases", json!(n_random));
    run.engine("release", true, json!({"threads": par::workers()}));
    run.finish(40);
}
