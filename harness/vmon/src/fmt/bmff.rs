//! ISO base media file format (ISO/IEC 14496-12) box walker with dereference helpers for the
//! absolute-offset tables (stco, co64, iloc construction_method 0, tfhd.base_data_offset, stbl/saio,
//! mfra/tfra).  Well-formed = the top-level boxes tile the file exactly (a size of 0 = "to the end of
//! the file" is allowed for the last box) and the boxes we descend into tile their parents.
//! The C2PA manifest store lives in a top-level `uuid` box with user type
//! D8FEC3D6-1B0E-483C-9297-5828877EC481: FullBox(version, flags), NUL-terminated purpose
//! ("manifest" | "original" | "update" | "merkle"), and for the store purposes an 8-byte offset to
//! the first auxiliary (merkle) box followed by the JUMBF bytes.
use super::{be16, be32, be64, sha, Container, Elem, Parsed};

pub const C2PA_UUID: [u8; 16] = [0xd8, 0xfe, 0xc3, 0xd6, 0x1b, 0x0e, 0x48, 0x3c, 0x92, 0x97, 0x58, 0x28, 0x87, 0x7e, 0xc4, 0x81];
pub const XMP_UUID: [u8; 16] = [0xbe, 0x7a, 0xcf, 0xcb, 0x97, 0xa9, 0x42, 0xe8, 0x9c, 0x71, 0x99, 0x94, 0x91, 0xe3, 0xaf, 0xac];

#[derive(Clone, Debug)]
pub struct BoxHdr {
    pub start: usize,
    pub len: usize,
    pub hdr: usize,
    pub typ: [u8; 4],
}

impl BoxHdr {
    pub fn end(&self) -> usize {
        self.start + self.len
    }
    pub fn payload(&self) -> usize {
        self.start + self.hdr
    }
    pub fn typ_str(&self) -> String {
        String::from_utf8_lossy(&self.typ).to_string()
    }
}

/// Boxes tiling data[start..end] exactly.
pub fn boxes_in(data: &[u8], start: usize, end: usize) -> Result<Vec<BoxHdr>, String> {
    let mut out = Vec::new();
    let mut o = start;
    while o < end {
        if end - o < 8 {
            return Err(format!("{} stray bytes at {o} (too short for a box header)", end - o));
        }
        let s32 = be32(data, o).unwrap() as u64;
        let mut typ = [0u8; 4];
        typ.copy_from_slice(&data[o + 4..o + 8]);
        let (hdr, len) = match s32 {
            1 => {
                let l = be64(data, o + 8).ok_or("largesize truncated")?;
                (16usize, usize::try_from(l).map_err(|_| "largesize overflow")?)
            }
            0 => (8usize, end - o),
            n => (8usize, n as usize),
        };
        if len < hdr {
            return Err(format!("box {} at {o} has size {len} smaller than its header", String::from_utf8_lossy(&typ)));
        }
        if o.checked_add(len).map(|e| e > end).unwrap_or(true) {
            return Err(format!("box {} at {o} (size {len}) runs past its container (end {end})", String::from_utf8_lossy(&typ)));
        }
        out.push(BoxHdr { start: o, len, hdr, typ });
        o += len;
    }
    Ok(out)
}

pub fn top_boxes(data: &[u8]) -> Result<Vec<BoxHdr>, String> {
    boxes_in(data, 0, data.len())
}

#[derive(Clone, Debug)]
pub struct C2paBox {
    pub purpose: String,
    pub store_pos: usize,
    pub store_len: usize,
}

pub fn c2pa_uuid_box(data: &[u8], b: &BoxHdr) -> Option<Result<C2paBox, String>> {
    if &b.typ != b"uuid" {
        return None;
    }
    let p = b.payload();
    if data.get(p..p + 16)? != C2PA_UUID {
        return None;
    }
    let body = &data[p + 16..b.end()];
    if body.len() < 5 {
        return Some(Err("C2PA uuid box too short".into()));
    }
    let Some(n) = body[4..].iter().position(|c| *c == 0) else {
        return Some(Err("C2PA uuid box purpose not terminated".into()));
    };
    let purpose = String::from_utf8_lossy(&body[4..4 + n]).to_string();
    let mut o = 4 + n + 1;
    if purpose != "merkle" {
        if body.len() < o + 8 {
            return Some(Err("C2PA uuid box lacks the merkle offset".into()));
        }
        o += 8;
    }
    Some(Ok(C2paBox { purpose, store_pos: p + 16 + o, store_len: body.len() - o }))
}

pub fn parse(data: &[u8]) -> Result<Parsed, String> {
    let boxes = top_boxes(data)?;
    if boxes.is_empty() {
        return Err("no boxes".into());
    }
    if !boxes.iter().take(2).any(|b| &b.typ == b"ftyp") {
        return Err("no ftyp box at the start".into());
    }
    let mut p = Parsed::default();
    for b in &boxes {
        let mut e = Elem::new(b.typ_str(), b.start, b.len, b.payload(), b.len - b.hdr);
        if let Some(r) = c2pa_uuid_box(data, b) {
            let c = r?;
            e.is_c2pa = true;
            e.kind = format!("uuid:c2pa:{}", c.purpose);
            if c.purpose != "merkle" {
                p.containers.push(Container { ranges: vec![(b.start, b.len)], store: data[c.store_pos..c.store_pos + c.store_len].to_vec(), store_ranges: vec![(c.store_pos, c.store_len)], encoded: false, label: c.purpose });
            }
        }
        p.elems.push(e);
    }
    // the structure we rely on for offsets must itself be well-formed
    offset_fields(data)?;
    Ok(p)
}

/// One absolute file offset stored in the container.
#[derive(Clone, Debug)]
pub struct OffsetField {
    /// e.g. "stco[trak0][3]", "iloc[item 2][ext 0]", "tfhd[moof1/traf0]", "saio[trak0][0]", "tfra[0][5]"
    pub name: String,
    pub class: &'static str,
    /// where the field is stored
    pub pos: usize,
    pub width: usize,
    pub value: u64,
    /// number of bytes addressed (None = unknown: a small window is compared)
    pub len: Option<u64>,
    /// for iloc: the value is base_offset + extent_offset and both fields are masked
    pub extra_mask: Vec<(usize, usize)>,
}

fn rd(data: &[u8], pos: usize, width: usize) -> Result<u64, String> {
    let s = data.get(pos..pos + width).ok_or_else(|| format!("field at {pos}+{width} outside file"))?;
    let mut v = 0u64;
    for b in s {
        v = (v << 8) | *b as u64;
    }
    Ok(v)
}

fn child<'a>(v: &'a [BoxHdr], t: &[u8; 4]) -> Option<&'a BoxHdr> {
    v.iter().find(|b| &b.typ == t)
}

fn meta_children(data: &[u8], m: &BoxHdr) -> Result<Vec<BoxHdr>, String> {
    // ISO `meta` is a FullBox; QuickTime `meta` is not — decide by looking for a plausible box header
    let p = m.payload();
    let full = !(data.get(p + 4..p + 8).map(|t| t == b"hdlr").unwrap_or(false));
    boxes_in(data, p + if full { 4 } else { 0 }, m.end())
}

fn iloc_fields(data: &[u8], b: &BoxHdr, out: &mut Vec<OffsetField>) -> Result<(), String> {
    let p = b.payload();
    let end = b.end();
    let version = *data.get(p).ok_or("iloc truncated")?;
    if version > 2 {
        return Err(format!("iloc version {version}"));
    }
    let s1 = *data.get(p + 4).ok_or("iloc truncated")?;
    let s2 = *data.get(p + 5).ok_or("iloc truncated")?;
    let (osz, lsz, bsz) = ((s1 >> 4) as usize, (s1 & 15) as usize, (s2 >> 4) as usize);
    let isz = if version >= 1 { (s2 & 15) as usize } else { 0 };
    for s in [osz, lsz, bsz, isz] {
        if ![0, 4, 8].contains(&s) {
            return Err(format!("iloc field size {s}"));
        }
    }
    let mut o = p + 6;
    let n = if version < 2 {
        let n = be16(data, o).ok_or("iloc truncated")? as usize;
        o += 2;
        n
    } else {
        let n = be32(data, o).ok_or("iloc truncated")? as usize;
        o += 4;
        n
    };
    for _ in 0..n {
        let id = if version < 2 {
            let v = be16(data, o).ok_or("iloc item truncated")? as u32;
            o += 2;
            v
        } else {
            let v = be32(data, o).ok_or("iloc item truncated")?;
            o += 4;
            v
        };
        let method = if version >= 1 {
            let v = be16(data, o).ok_or("iloc item truncated")? & 15;
            o += 2;
            v
        } else {
            0
        };
        let dref = be16(data, o).ok_or("iloc item truncated")?;
        o += 2;
        let base_pos = o;
        let base = rd(data, o, bsz)?;
        o += bsz;
        let ec = be16(data, o).ok_or("iloc item truncated")? as usize;
        o += 2;
        for x in 0..ec {
            o += isz;
            let off_pos = o;
            let eo = rd(data, o, osz)?;
            o += osz;
            let el = rd(data, o, lsz)?;
            o += lsz;
            if o > end {
                return Err("iloc entries run past the box".into());
            }
            if method == 0 && dref == 0 {
                out.push(OffsetField {
                    name: format!("iloc[item {id}][ext {x}]"),
                    class: "iloc",
                    pos: if osz > 0 { off_pos } else { base_pos },
                    width: if osz > 0 { osz } else { bsz },
                    value: base + eo,
                    len: if el > 0 { Some(el) } else { None },
                    extra_mask: if bsz > 0 && osz > 0 { vec![(base_pos, bsz)] } else { vec![] },
                });
            }
        }
    }
    Ok(())
}

struct Stbl {
    chunk_offsets: Vec<(usize, usize, u64)>, // (pos, width, value)
    stsc: Vec<(u32, u32)>,
    sample_size: u32,
    sizes: Vec<u32>,
    n_samples: u32,
}

fn stbl_fields(data: &[u8], stbl: &BoxHdr, trak: usize, out: &mut Vec<OffsetField>) -> Result<(), String> {
    let kids = boxes_in(data, stbl.payload(), stbl.end())?;
    let mut s = Stbl { chunk_offsets: vec![], stsc: vec![], sample_size: 0, sizes: vec![], n_samples: 0 };
    let mut have_sizes = false;
    for k in &kids {
        let p = k.payload();
        match &k.typ {
            b"stco" | b"co64" => {
                let w = if &k.typ == b"stco" { 4 } else { 8 };
                let n = be32(data, p + 4).ok_or("stco truncated")? as usize;
                if p + 8 + n * w > k.end() {
                    return Err(format!("{} entry count {n} exceeds the box", k.typ_str()));
                }
                for i in 0..n {
                    let pos = p + 8 + i * w;
                    s.chunk_offsets.push((pos, w, rd(data, pos, w)?));
                }
            }
            b"stsc" => {
                let n = be32(data, p + 4).ok_or("stsc truncated")? as usize;
                if p + 8 + n * 12 > k.end() {
                    return Err("stsc entry count exceeds the box".into());
                }
                for i in 0..n {
                    s.stsc.push((be32(data, p + 8 + i * 12).unwrap(), be32(data, p + 12 + i * 12).unwrap()));
                }
            }
            b"stsz" => {
                s.sample_size = be32(data, p + 4).ok_or("stsz truncated")?;
                s.n_samples = be32(data, p + 8).ok_or("stsz truncated")?;
                if s.sample_size == 0 {
                    if p + 12 + s.n_samples as usize * 4 > k.end() {
                        return Err("stsz sample count exceeds the box".into());
                    }
                    for i in 0..s.n_samples as usize {
                        s.sizes.push(be32(data, p + 12 + i * 4).unwrap());
                    }
                }
                have_sizes = true;
            }
            b"saio" => {
                let version = data[p];
                let flags = be32(data, p).unwrap() & 0xFF_FFFF;
                let mut o = p + 4;
                if flags & 1 != 0 {
                    o += 8;
                }
                let n = be32(data, o).ok_or("saio truncated")? as usize;
                o += 4;
                let w = if version == 0 { 4 } else { 8 };
                if o + n * w > k.end() {
                    return Err("saio entry count exceeds the box".into());
                }
                for i in 0..n {
                    out.push(OffsetField { name: format!("saio[trak{trak}][{i}]"), class: "saio", pos: o + i * w, width: w, value: rd(data, o + i * w, w)?, len: None, extra_mask: vec![] });
                }
            }
            _ => {}
        }
    }
    // chunk lengths from stsc + stsz
    let mut sample = 0u64;
    for (ci, (pos, w, val)) in s.chunk_offsets.iter().enumerate() {
        let cno = ci as u32 + 1;
        let spc = s.stsc.iter().filter(|r| r.0 <= cno).last().map(|r| r.1);
        let len = match (spc, have_sizes) {
            (Some(spc), true) => {
                let mut l = 0u64;
                for k in 0..spc as u64 {
                    let si = sample + k;
                    if si >= s.n_samples as u64 {
                        break;
                    }
                    l += if s.sample_size != 0 { s.sample_size as u64 } else { s.sizes[si as usize] as u64 };
                }
                sample += spc as u64;
                Some(l)
            }
            _ => None,
        };
        out.push(OffsetField { name: format!("{}[trak{trak}][{ci}]", if *w == 4 { "stco" } else { "co64" }), class: if *w == 4 { "stco" } else { "co64" }, pos: *pos, width: *w, value: *val, len, extra_mask: vec![] });
    }
    Ok(())
}

/// Every absolute file offset stored in the container (the ones listed in the module doc).
pub fn offset_fields(data: &[u8]) -> Result<Vec<OffsetField>, String> {
    let tops = top_boxes(data)?;
    let mut out = Vec::new();
    let mut trak_no = 0usize;
    let mut moof_no = 0usize;
    for t in &tops {
        match &t.typ {
            b"moov" => {
                let kids = boxes_in(data, t.payload(), t.end())?;
                for k in &kids {
                    if &k.typ == b"trak" {
                        let tk = boxes_in(data, k.payload(), k.end())?;
                        if let Some(mdia) = child(&tk, b"mdia") {
                            let mk = boxes_in(data, mdia.payload(), mdia.end())?;
                            if let Some(minf) = child(&mk, b"minf") {
                                let nk = boxes_in(data, minf.payload(), minf.end())?;
                                if let Some(stbl) = child(&nk, b"stbl") {
                                    stbl_fields(data, stbl, trak_no, &mut out)?;
                                }
                            }
                        }
                        trak_no += 1;
                    }
                }
            }
            b"meta" => {
                let kids = meta_children(data, t)?;
                if let Some(iloc) = child(&kids, b"iloc") {
                    iloc_fields(data, iloc, &mut out)?;
                }
            }
            b"moof" => {
                let kids = boxes_in(data, t.payload(), t.end())?;
                let mut traf_no = 0;
                for k in &kids {
                    if &k.typ == b"traf" {
                        let tk = boxes_in(data, k.payload(), k.end())?;
                        if let Some(tfhd) = child(&tk, b"tfhd") {
                            let p = tfhd.payload();
                            let flags = be32(data, p).ok_or("tfhd truncated")? & 0xFF_FFFF;
                            if flags & 1 != 0 {
                                out.push(OffsetField { name: format!("tfhd[moof{moof_no}/traf{traf_no}]"), class: "tfhd", pos: p + 8, width: 8, value: rd(data, p + 8, 8)?, len: None, extra_mask: vec![] });
                            }
                        }
                        traf_no += 1;
                    }
                }
                moof_no += 1;
            }
            b"mfra" => {
                let kids = boxes_in(data, t.payload(), t.end())?;
                let mut n_tfra = 0;
                for k in &kids {
                    if &k.typ == b"tfra" {
                        let p = k.payload();
                        let version = data[p];
                        let lens = be32(data, p + 8).ok_or("tfra truncated")?;
                        let n = be32(data, p + 12).ok_or("tfra truncated")? as usize;
                        let w = if version == 1 { 8 } else { 4 };
                        let tail = (((lens >> 4) & 3) + 1 + ((lens >> 2) & 3) + 1 + (lens & 3) + 1) as usize;
                        let mut o = p + 16;
                        for i in 0..n {
                            if o + 2 * w + tail > k.end() {
                                return Err("tfra entries exceed the box".into());
                            }
                            out.push(OffsetField { name: format!("tfra[{n_tfra}][{i}]"), class: "tfra", pos: o + w, width: w, value: rd(data, o + w, w)?, len: Some(8), extra_mask: vec![] });
                            o += 2 * w + tail;
                        }
                        n_tfra += 1;
                    }
                }
            }
            _ => {}
        }
    }
    Ok(out)
}

/// Bytes addressed by an offset field: the declared length, or a 16-byte window, clipped to the
/// top-level box the offset points into (so that the window never runs into a neighbouring box).
pub fn deref<'a>(data: &'a [u8], tops: &[BoxHdr], f: &OffsetField) -> Result<&'a [u8], String> {
    let v = usize::try_from(f.value).map_err(|_| "offset overflow")?;
    let Some(b) = tops.iter().find(|b| b.start <= v && v < b.end()) else {
        return Err(format!("offset {v} outside every top-level box (file length {})", data.len()));
    };
    let want = f.len.unwrap_or(16) as usize;
    let end = v.saturating_add(want).min(b.end());
    Ok(&data[v..end])
}

/// Media content: every top-level box except the C2PA uuid boxes as (type, digest of the box with the
/// offset fields zeroed), followed by one entry per stored absolute offset with the digest of the
/// bytes it addresses (and the name of the top-level box it points into).
pub fn media_sig(data: &[u8]) -> Result<Vec<(String, String)>, String> {
    let tops = top_boxes(data)?;
    let fields = offset_fields(data)?;
    let mut masked = data.to_vec();
    for f in &fields {
        for b in &mut masked[f.pos..f.pos + f.width] {
            *b = 0;
        }
        for (p, w) in &f.extra_mask {
            for b in &mut masked[*p..*p + *w] {
                *b = 0;
            }
        }
    }
    let mut out = Vec::new();
    for b in &tops {
        if c2pa_uuid_box(data, b).is_some() {
            continue;
        }
        // the size field of the last box may be 0 ("to end of file"): hash type + payload only
        out.push((format!("box:{}", b.typ_str()), sha(&masked[b.payload()..b.end()])));
    }
    for f in &fields {
        let d = match deref(data, &tops, f) {
            Ok(bytes) => {
                let v = f.value as usize;
                let into = tops.iter().find(|b| b.start <= v && v < b.end()).map(|b| b.typ_str()).unwrap_or_default();
                let c2pa = tops.iter().find(|b| b.start <= v && v < b.end()).map(|b| c2pa_uuid_box(data, b).is_some()).unwrap_or(false);
                format!("{} bytes in {}{} {}", bytes.len(), into, if c2pa { "(c2pa)" } else { "" }, sha(bytes))
            }
            Err(e) => format!("dangling: {}", e.split(" (file").next().unwrap_or("").replace(|c: char| c.is_ascii_digit(), "#")),
        };
        out.push((format!("deref:{}", f.name), d));
    }
    Ok(out)
}
