#!/bin/bash
. "$(cd "$(dirname "$0")" && pwd)/env.sh"
# usage: tools/silence_run.sh <seed> [tier]  -> runs every registered check at VERIF_SEED=<seed>; summary lines on stdout
seed=$1; tier=${2:-quick}
cd "$(dirname "$0")/.."
ids=$(python3 -c "import json;print(' '.join(c['id'] for c in json.load(open('tools/checks.json'))['checks']))")
VERIF_SEED=$seed tools/run_all.sh $tier $ids
