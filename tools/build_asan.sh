#!/bin/bash
. "$(cd "$(dirname "$0")" && pwd)/env.sh"
# Builds the AddressSanitizer flavour of the C31 monitor (nightly toolchain, offline).
# Idempotent: a no-op when the binary is fresh; rebuilds c2pa / c2pa-c-ffi when /repo changed
# (path dependencies).  Output: $VERIF_ROOT/.build/asan/x86_64-unknown-linux-gnu/release/c31
# Usage: tools/build_asan.sh [extra cargo args]
set -u
ROOT="$(cd "$(dirname "$0")/.." && pwd)"
cd "$ROOT/harness" || exit 2
export CARGO_NET_OFFLINE=true
export CARGO_TARGET_DIR="$ROOT/.build/asan"
# --cfg vmon_asan lets the monitor link the LSan entry point for per-history leak checks.
export RUSTFLAGS="-Zsanitizer=address -Cforce-frame-pointers=yes --cfg vmon_asan --check-cfg cfg(vmon_asan)"
mkdir -p "$ROOT/.build/logs"
exec cargo +nightly build --release --offline --target x86_64-unknown-linux-gnu --bin c31 "$@"
