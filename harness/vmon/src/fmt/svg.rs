//! Minimal XML 1.0 tokenizer (no DTD internal-subset interpretation, no entity expansion) used to
//! judge SVG output: well-formed = every tag closed and properly nested, attributes quoted and unique,
//! exactly one root element, nothing but white space / comments / PIs outside it.
//! The C2PA manifest store is the strict-base64 text content of a `c2pa:manifest` element.
use super::{base64_decode_strict, sha, Container, Elem, Parsed};

#[derive(Clone, Debug, PartialEq, Eq)]
pub enum Tok {
    Pi(String),
    Comment(String),
    Doctype(String),
    Start { name: String, attrs: Vec<(String, String)>, empty: bool },
    End(String),
    Text(String),
    CData(String),
}

#[derive(Clone, Debug)]
pub struct Token {
    pub tok: Tok,
    pub start: usize,
    pub len: usize,
}

fn find(data: &[u8], from: usize, pat: &[u8]) -> Option<usize> {
    if pat.is_empty() || from > data.len() {
        return None;
    }
    data[from..].windows(pat.len()).position(|w| w == pat).map(|p| p + from)
}

fn is_name_char(c: u8) -> bool {
    c.is_ascii_alphanumeric() || matches!(c, b':' | b'_' | b'-' | b'.') || c >= 0x80
}

pub fn tokenize(data: &[u8]) -> Result<Vec<Token>, String> {
    let mut out = Vec::new();
    let mut o = 0usize;
    if data.starts_with(&[0xEF, 0xBB, 0xBF]) {
        o = 3;
    }
    let s = |a: usize, b: usize| String::from_utf8_lossy(&data[a..b]).to_string();
    while o < data.len() {
        if data[o] != b'<' {
            let e = find(data, o, b"<").unwrap_or(data.len());
            out.push(Token { tok: Tok::Text(s(o, e)), start: o, len: e - o });
            o = e;
            continue;
        }
        if data[o..].starts_with(b"<!--") {
            let e = find(data, o + 4, b"-->").ok_or("unterminated comment")?;
            out.push(Token { tok: Tok::Comment(s(o + 4, e)), start: o, len: e + 3 - o });
            o = e + 3;
        } else if data[o..].starts_with(b"<![CDATA[") {
            let e = find(data, o + 9, b"]]>").ok_or("unterminated CDATA")?;
            out.push(Token { tok: Tok::CData(s(o + 9, e)), start: o, len: e + 3 - o });
            o = e + 3;
        } else if data[o..].starts_with(b"<?") {
            let e = find(data, o + 2, b"?>").ok_or("unterminated processing instruction")?;
            out.push(Token { tok: Tok::Pi(s(o + 2, e)), start: o, len: e + 2 - o });
            o = e + 2;
        } else if data[o..].starts_with(b"<!") {
            // DOCTYPE, possibly with an internal subset in [...]
            let mut e = o + 2;
            let mut depth = 0i32;
            loop {
                let c = *data.get(e).ok_or("unterminated <! declaration")?;
                if c == b'[' {
                    depth += 1;
                } else if c == b']' {
                    depth -= 1;
                } else if c == b'>' && depth <= 0 {
                    break;
                }
                e += 1;
            }
            out.push(Token { tok: Tok::Doctype(s(o + 2, e)), start: o, len: e + 1 - o });
            o = e + 1;
        } else if data[o..].starts_with(b"</") {
            let mut e = o + 2;
            while e < data.len() && is_name_char(data[e]) {
                e += 1;
            }
            let name = s(o + 2, e);
            if name.is_empty() {
                return Err(format!("empty end-tag name at {o}"));
            }
            while e < data.len() && data[e].is_ascii_whitespace() {
                e += 1;
            }
            if data.get(e) != Some(&b'>') {
                return Err(format!("malformed end tag at {o}"));
            }
            out.push(Token { tok: Tok::End(name), start: o, len: e + 1 - o });
            o = e + 1;
        } else {
            let mut e = o + 1;
            while e < data.len() && is_name_char(data[e]) {
                e += 1;
            }
            let name = s(o + 1, e);
            if name.is_empty() {
                return Err(format!("'<' not followed by a name at {o}"));
            }
            let mut attrs: Vec<(String, String)> = Vec::new();
            let empty;
            loop {
                let ws_start = e;
                while e < data.len() && data[e].is_ascii_whitespace() {
                    e += 1;
                }
                match data.get(e) {
                    None => return Err(format!("unterminated start tag at {o}")),
                    Some(b'>') => {
                        empty = false;
                        e += 1;
                        break;
                    }
                    Some(b'/') => {
                        if data.get(e + 1) != Some(&b'>') {
                            return Err(format!("malformed empty-element tag at {o}"));
                        }
                        empty = true;
                        e += 2;
                        break;
                    }
                    Some(_) => {
                        if ws_start == e {
                            return Err(format!("missing white space before attribute at {e}"));
                        }
                        let ns = e;
                        while e < data.len() && is_name_char(data[e]) {
                            e += 1;
                        }
                        let an = s(ns, e);
                        if an.is_empty() {
                            return Err(format!("bad attribute name at {ns}"));
                        }
                        while e < data.len() && data[e].is_ascii_whitespace() {
                            e += 1;
                        }
                        if data.get(e) != Some(&b'=') {
                            return Err(format!("attribute {an} without '=' at {e}"));
                        }
                        e += 1;
                        while e < data.len() && data[e].is_ascii_whitespace() {
                            e += 1;
                        }
                        let q = *data.get(e).ok_or("unterminated attribute")?;
                        if q != b'"' && q != b'\'' {
                            return Err(format!("attribute {an} value not quoted at {e}"));
                        }
                        let vs = e + 1;
                        let ve = data[vs..].iter().position(|c| *c == q).ok_or("unterminated attribute value")? + vs;
                        if data[vs..ve].contains(&b'<') {
                            return Err(format!("'<' inside attribute value of {an}"));
                        }
                        if attrs.iter().any(|a| a.0 == an) {
                            return Err(format!("duplicate attribute {an}"));
                        }
                        attrs.push((an, s(vs, ve)));
                        e = ve + 1;
                    }
                }
            }
            out.push(Token { tok: Tok::Start { name, attrs, empty }, start: o, len: e - o });
            o = e;
        }
    }
    Ok(out)
}

/// Checks nesting / single root; returns for every token the element-path depth before it.
fn check_nesting(toks: &[Token]) -> Result<(), String> {
    let mut stack: Vec<&str> = Vec::new();
    let mut roots = 0;
    for t in toks {
        match &t.tok {
            Tok::Start { name, empty, .. } => {
                if stack.is_empty() {
                    roots += 1;
                    if roots > 1 {
                        return Err("more than one root element".into());
                    }
                }
                if !*empty {
                    stack.push(name);
                }
            }
            Tok::End(name) => match stack.pop() {
                Some(n) if n == name => {}
                Some(n) => return Err(format!("end tag </{name}> closes <{n}> at {}", t.start)),
                None => return Err(format!("end tag </{name}> without start at {}", t.start)),
            },
            Tok::Text(s) => {
                if stack.is_empty() && !s.trim().is_empty() {
                    return Err(format!("character data outside the root element at {}", t.start));
                }
                if s.contains("]]>") {
                    return Err("']]>' in character data".into());
                }
            }
            Tok::CData(_) => {
                if stack.is_empty() {
                    return Err("CDATA outside the root element".into());
                }
            }
            _ => {}
        }
    }
    if let Some(n) = stack.pop() {
        return Err(format!("element <{n}> never closed"));
    }
    if roots == 0 {
        return Err("no root element".into());
    }
    Ok(())
}

/// Index ranges [i, j] of tokens forming `c2pa:manifest` elements.
fn manifest_elems(toks: &[Token]) -> Vec<(usize, usize)> {
    let mut out = Vec::new();
    let mut i = 0;
    while i < toks.len() {
        if let Tok::Start { name, empty, .. } = &toks[i].tok {
            if name == "c2pa:manifest" {
                if *empty {
                    out.push((i, i));
                } else {
                    let mut j = i + 1;
                    let mut depth = 1;
                    while j < toks.len() {
                        match &toks[j].tok {
                            Tok::Start { empty: false, .. } => depth += 1,
                            Tok::End(_) => {
                                depth -= 1;
                                if depth == 0 {
                                    break;
                                }
                            }
                            _ => {}
                        }
                        j += 1;
                    }
                    out.push((i, j.min(toks.len() - 1)));
                    i = j;
                }
            }
        }
        i += 1;
    }
    out
}

pub fn parse(data: &[u8]) -> Result<Parsed, String> {
    let toks = tokenize(data)?;
    check_nesting(&toks)?;
    let root = toks.iter().find_map(|t| if let Tok::Start { name, .. } = &t.tok { Some(name.clone()) } else { None });
    if root.as_deref().map(|r| r != "svg" && !r.ends_with(":svg")).unwrap_or(true) {
        return Err(format!("root element is {root:?}, not svg"));
    }
    let mut p = Parsed::default();
    let man = manifest_elems(&toks);
    for (i, t) in toks.iter().enumerate() {
        let kind = match &t.tok {
            Tok::Pi(_) => "pi".to_string(),
            Tok::Comment(_) => "comment".to_string(),
            Tok::Doctype(_) => "doctype".to_string(),
            Tok::Start { name, .. } => format!("<{name}>"),
            Tok::End(name) => format!("</{name}>"),
            Tok::Text(_) => "text".to_string(),
            Tok::CData(_) => "cdata".to_string(),
        };
        let mut e = Elem::new(kind, t.start, t.len, t.start, t.len);
        e.is_c2pa = man.iter().any(|(a, b)| *a <= i && i <= *b);
        p.elems.push(e);
    }
    for (a, b) in man {
        let start = toks[a].start;
        let end = toks[b].start + toks[b].len;
        // content must be character data only
        let mut text_ranges = Vec::new();
        let mut enc: Vec<u8> = Vec::new();
        for t in &toks[a + 1..b.max(a + 1)] {
            match &t.tok {
                Tok::Text(_) => {
                    text_ranges.push((t.start, t.len));
                    enc.extend_from_slice(&data[t.start..t.start + t.len]);
                }
                Tok::Comment(_) => {}
                other => return Err(format!("c2pa:manifest contains markup {other:?}")),
            }
        }
        let store = base64_decode_strict(&enc, true).map_err(|e| format!("c2pa:manifest content is not canonical base64: {e}"))?;
        p.containers.push(Container { ranges: vec![(start, end - start)], store, store_ranges: text_ranges, encoded: true, label: "c2pa:manifest".into() });
    }
    Ok(p)
}

/// Media content: the token sequence (names, attributes, text, comments, PIs) without the
/// `c2pa:manifest` element, without a `metadata` element left empty by that, without the
/// `xmlns:c2pa` declaration on the root, and with white-space-only text dropped.
pub fn media_sig(data: &[u8]) -> Result<Vec<(String, String)>, String> {
    let toks = tokenize(data)?;
    check_nesting(&toks)?;
    let man = manifest_elems(&toks);
    let mut v: Vec<Tok> = Vec::new();
    for (i, t) in toks.iter().enumerate() {
        if man.iter().any(|(a, b)| *a <= i && i <= *b) {
            continue;
        }
        match &t.tok {
            Tok::Text(s) if s.trim().is_empty() => {}
            Tok::Start { name, attrs, empty } => {
                let attrs: Vec<(String, String)> = attrs.iter().filter(|a| a.0 != "xmlns:c2pa").cloned().collect();
                v.push(Tok::Start { name: name.clone(), attrs, empty: *empty });
            }
            other => v.push(other.clone()),
        }
    }
    // drop <metadata></metadata> / <metadata/> that hold nothing
    let mut out: Vec<Tok> = Vec::new();
    let mut i = 0;
    while i < v.len() {
        if let Tok::Start { name, empty, attrs } = &v[i] {
            if name == "metadata" && attrs.is_empty() {
                if *empty {
                    i += 1;
                    continue;
                }
                if matches!(v.get(i + 1), Some(Tok::End(n)) if n == "metadata") {
                    i += 2;
                    continue;
                }
            }
        }
        out.push(v[i].clone());
        i += 1;
    }
    // <x></x> and <x/> are the same infoset
    let mut norm: Vec<(String, String)> = Vec::new();
    let mut i = 0;
    while i < out.len() {
        match &out[i] {
            Tok::Start { name, attrs, empty } => {
                let mut a = attrs.clone();
                a.sort();
                let closes = !*empty && matches!(out.get(i + 1), Some(Tok::End(n)) if n == name);
                norm.push((format!("<{name}>"), sha(format!("{a:?}").as_bytes())));
                if *empty || closes {
                    norm.push((format!("</{name}>"), String::new()));
                    if closes {
                        i += 1;
                    }
                }
            }
            Tok::End(n) => norm.push((format!("</{n}>"), String::new())),
            Tok::Text(s) => norm.push(("text".into(), sha(s.trim().as_bytes()))),
            Tok::CData(s) => norm.push(("cdata".into(), sha(s.as_bytes()))),
            Tok::Comment(s) => norm.push(("comment".into(), sha(s.as_bytes()))),
            Tok::Pi(s) => norm.push(("pi".into(), sha(s.trim().as_bytes()))),
            Tok::Doctype(s) => norm.push(("doctype".into(), sha(s.as_bytes()))),
        }
        i += 1;
    }
    Ok(norm)
}
