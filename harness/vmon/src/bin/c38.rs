//! C38 — validation is deterministic and repeatable; signing does not depend on history.
//!
//! Oracle (from the statement): within a random history of operations executed in one process
//!   * re-reading a produced asset (mid-history and again at the end) gives exactly the first read's
//!     (normalised report, validation codes);
//!   * a fresh process (this binary re-executed as `read-many <dir>`) gives the same for every asset;
//!   * signing the same (definition, asset, signer) at different history positions gives read-back
//!     reports that are equal (digests of hashed URIs masked when the definition has ingredients —
//!     their instance ids are random per build);
//!   * a failing read of the same garbage bytes fails with the same error kind every time.
//! History operations: sign format X, read Y, sign with a previously produced asset as parent
//! ingredient, archive round trip + sign, failing read of garbage, legacy thread-local
//! `Settings::from_toml` (hostile values) on another thread and on this thread, reads under a context
//! with different trust settings.  All judged operations use explicit contexts, so none of the
//! interleaved operations may influence them.
use c2pa::{Builder, BuilderIntent, Reader};
use serde_json::{json, Value};
use std::collections::BTreeMap;
use std::io::Cursor;
use vmon::defgen::{self, GenDef, GenOpts, IngredientPool, Intent};
use vmon::{assets, par, report, signers, Rng, Run};

type Codes = Vec<(String, String, String, String)>;

fn std_ctx(trust: bool) -> c2pa::Context {
    defgen::context(trust, false, false, &json!({"verify": {"verify_trust": true, "remote_manifest_fetch": false}}))
}

/// No trust anchors, but the fixture signing certificates on the end-entity allow list: the same
/// anchors as the "no-anchor" profile with a different allow list.
fn allowlist_ctx() -> c2pa::Context {
    let mut pem = String::new();
    for (alg, _) in vmon::signers::ALGS {
        pem.push_str(&String::from_utf8_lossy(&vmon::signers::cert_pem(alg)));
        pem.push('\n');
    }
    defgen::context(false, false, false, &json!({"verify": {"verify_trust": true, "remote_manifest_fetch": false}, "trust": {"allowed_list": pem}}))
}

fn observe_allowlisted(format: &str, bytes: &[u8]) -> Obs {
    let (f, b) = (format.to_string(), bytes.to_vec());
    match report::catch_sdk(move || report::outcome_of(Reader::from_context(allowlist_ctx()).with_stream(&f, Cursor::new(b)))) {
        Ok(o) => Obs { state: if o.state == "Err" { format!("Err:{}", o.error.unwrap_or_default()) } else { o.state }, report: o.report, codes: o.codes },
        Err(p) => Obs { state: format!("Panic:{p}"), report: Value::Null, codes: vec![] },
    }
}

fn mask_hashes(v: &mut Value) {
    match v {
        Value::Object(m) => {
            if m.contains_key("url") && m.contains_key("hash") {
                m.insert("hash".into(), json!("H"));
            }
            for (_, x) in m.iter_mut() {
                mask_hashes(x);
            }
        }
        Value::Array(a) => a.iter_mut().for_each(mask_hashes),
        _ => {}
    }
}

#[derive(Clone, Debug, PartialEq)]
struct Obs {
    state: String,
    report: Value,
    codes: Codes,
}

fn observe(format: &str, bytes: &[u8], trust: bool) -> Obs {
    let (f, b) = (format.to_string(), bytes.to_vec());
    match report::catch_sdk(move || report::outcome_of(Reader::from_context(std_ctx(trust)).with_stream(&f, Cursor::new(b)))) {
        Ok(o) => Obs { state: if o.state == "Err" { format!("Err:{}", o.error.unwrap_or_default()) } else { o.state }, report: o.report, codes: o.codes },
        Err(p) => Obs { state: format!("Panic:{p}"), report: Value::Null, codes: vec![] },
    }
}

fn obs_json(o: &Obs) -> Value {
    json!({"state": o.state, "report": o.report, "codes": o.codes})
}

fn obs_from_json(v: &Value) -> Obs {
    Obs {
        state: v["state"].as_str().unwrap_or("").to_string(),
        report: v["report"].clone(),
        codes: v["codes"].as_array().map(|a| a.iter().map(|t| (t[0].as_str().unwrap_or("").to_string(), t[1].as_str().unwrap_or("").to_string(), t[2].as_str().unwrap_or("").to_string(), t[3].as_str().unwrap_or("").to_string())).collect()).unwrap_or_default(),
    }
}

/// child mode: `read-many <dir>`: reads <dir>/list.json = [{file, format, trust}], writes <dir>/out.json
fn child_read_many(dir: &str) -> ! {
    report::quiet_panics();
    let list: Vec<Value> = serde_json::from_slice(&std::fs::read(format!("{dir}/list.json")).expect("list")).expect("json");
    let mut out = Vec::new();
    for e in list {
        let bytes = std::fs::read(format!("{dir}/{}", e["file"].as_str().unwrap_or(""))).unwrap_or_default();
        let o = observe(e["format"].as_str().unwrap_or(""), &bytes, e["trust"].as_bool().unwrap_or(true));
        out.push(obs_json(&o));
    }
    std::fs::write(format!("{dir}/out.json"), serde_json::to_vec(&out).unwrap_or_default()).expect("write");
    std::process::exit(0);
}

#[derive(Clone)]
struct Triple {
    def: GenDef,
    asset: usize,
    alg: &'static str,
}

struct Produced {
    format: &'static str,
    bytes: Vec<u8>,
    first: Obs,
    first_untrusted: Option<Obs>,
    origin: String,
    born_at: usize,
}

#[derive(Default)]
struct HistRes {
    ops: Vec<String>,
    classes: Vec<String>,
    violation: Option<(String, String)>,
    counts: BTreeMap<String, u64>,
    inconclusive: Option<String>,
}

fn first_diff(a: &Obs, b: &Obs) -> String {
    if a.state != b.state {
        return format!("state {} vs {}", a.state, b.state);
    }
    if a.report != b.report {
        return format!("report {:?}", report::diff_paths(&a.report, &b.report, 4));
    }
    format!("codes only-first {:?} only-second {:?}", a.codes.iter().filter(|x| !b.codes.contains(x)).collect::<Vec<_>>(), b.codes.iter().filter(|x| !a.codes.contains(x)).collect::<Vec<_>>())
}

fn diff_class(a: &Obs, b: &Obs) -> String {
    if a.state != b.state {
        "state".into()
    } else if a.report != b.report {
        let d = report::diff_paths(&a.report, &b.report, 1);
        let p = d.first().cloned().unwrap_or_default();
        let head = p.split(": ").next().unwrap_or("");
        head.split('/').filter(|s| !s.is_empty()).map(|s| s.split('[').next().unwrap_or(s)).map(|s| if s.contains("M-") || s.contains("urn") { "*" } else { s }).take(4).collect::<Vec<_>>().join("/")
    } else {
        "codes".into()
    }
}

fn sign_triple(t: &Triple, assets_v: &[assets::Asset], pool: &IngredientPool, via_archive: bool) -> Result<Vec<u8>, String> {
    let a = &assets_v[t.asset];
    let ctx = defgen::context(true, false, false, &json!({"verify": {"remote_manifest_fetch": false}}));
    let mut b = report::catch_sdk(|| t.def.build(ctx, pool)).map_err(|p| format!("panic:{p}"))??;
    if via_archive {
        let mut ar = Cursor::new(Vec::new());
        report::catch_sdk(|| b.to_archive(&mut ar)).map_err(|p| format!("panic:{p}"))?.map_err(|e| format!("to_archive:{}", report::err_kind(&e)))?;
        let ctx = defgen::context(true, false, false, &json!({"verify": {"remote_manifest_fetch": false}}));
        b = report::catch_sdk(|| Builder::from_context(ctx).with_archive(Cursor::new(ar.into_inner()))).map_err(|p| format!("panic:{p}"))?.map_err(|e| format!("with_archive:{}", report::err_kind(&e)))?;
    }
    let signer = signers::test_signer(t.alg);
    let mut s = Cursor::new(a.bytes.clone());
    let mut d = Cursor::new(Vec::new());
    report::catch_sdk(|| b.sign(signer.as_ref(), a.format, &mut s, &mut d)).map_err(|p| format!("panic:{p}"))?.map_err(|e| format!("sign:{}", report::err_kind(&e)))?;
    Ok(d.into_inner())
}

fn masked(o: &Obs) -> Obs {
    // re-normalise after masking: manifest fingerprints depend on the digests
    // only the active manifest is compared (ingredient manifests are copied verbatim from the pool and
    // collapsing several fingerprints to one key would make the comparison order-dependent)
    let am = o.report.get("active_manifest").and_then(|a| a.as_str()).unwrap_or("").to_string();
    let mut r = json!({"active": o.report.get("manifests").and_then(|m| m.get(&am)).cloned().unwrap_or(Value::Null), "validation_state": o.report.get("validation_state").cloned().unwrap_or(Value::Null)});
    mask_hashes(&mut r);
    // fingerprints (M-xxxx) still differ when digests differed: blank them as well
    let s = r.to_string();
    let mut out = String::with_capacity(s.len());
    let mut i = 0;
    let b = s.as_bytes();
    while i < b.len() {
        if b[i] == b'M' && i + 14 <= b.len() && b[i + 1] == b'-' && b[i + 2..i + 14].iter().all(|c| c.is_ascii_hexdigit()) {
            out.push_str("M-X");
            i += 14;
        } else {
            let ch_len = s[i..].chars().next().map(|c| c.len_utf8()).unwrap_or(1);
            out.push_str(&s[i..i + ch_len]);
            i += ch_len;
        }
    }
    let mut codes = o.codes.clone();
    codes.sort();
    Obs { state: o.state.clone(), report: serde_json::from_str(&out).unwrap_or(Value::Null), codes }
}

fn run_history(h: usize, seed: u64, assets_v: &[assets::Asset], pool: &IngredientPool, exe: &std::path::Path) -> HistRes {
    let mut rng = Rng::new(seed, &format!("c38-h{h}"));
    let mut res = HistRes::default();
    let n_ops = 20 + rng.usize(81);
    // three triples per history so that the same one recurs
    let mut triples = Vec::new();
    for _ in 0..3 {
        let mut o = GenOpts::default();
        o.max_assertions = 4;
        o.big_payloads = false;
        o.max_ingredients = 2;
        let choices = pool.choices(None);
        let def = defgen::gen_def(&mut rng, &o, &choices);
        triples.push(Triple { def, asset: rng.usize(assets_v.len()), alg: signers::ALGS[rng.usize(7)].0 });
    }
    let garbage: Vec<Vec<u8>> = (0..2).map(|_| { let n = 64 + rng.usize(400); rng.bytes(n) }).collect();
    let mut garbage_first: BTreeMap<usize, String> = BTreeMap::new();
    let mut produced: Vec<Produced> = Vec::new();
    // (triple, via_archive) -> (index of first produced, masked obs)
    let mut first_by_triple: BTreeMap<(usize, bool), (usize, Obs, String)> = BTreeMap::new();
    let mut last_op = "start".to_string();
    for step in 0..n_ops {
        let op = rng.below(100);
        let name;
        if op < 25 || produced.is_empty() {
            let ti = rng.usize(triples.len());
            let via = rng.chance(1, 4);
            name = format!("sign{}:{}", if via { "+archive" } else { "" }, assets_v[triples[ti].asset].format);
            match sign_triple(&triples[ti], assets_v, pool, via) {
                Ok(bytes) => {
                    let fmt = assets_v[triples[ti].asset].format;
                    let first = observe(fmt, &bytes, true);
                    *res.counts.entry("signs".into()).or_insert(0) += 1;
                    let m = masked(&first);
                    match first_by_triple.get(&(ti, via)) {
                        Some((_, m0, op0)) => {
                            *res.counts.entry("repeat_sign_compared".into()).or_insert(0) += 1;
                            if *m0 != m && res.violation.is_none() {
                                res.violation = Some((format!("sign-history|{}|{}", last_op.split(':').next().unwrap_or(""), diff_class(m0, &m)), format!("same (definition, asset, signer) signed after `{op0}` and after `{last_op}` reads back differently: {}", first_diff(m0, &m))));
                            }
                        }
                        None => {
                            first_by_triple.insert((ti, via), (produced.len(), m, last_op.clone()));
                        }
                    }
                    res.classes.push(format!("sign|{}|{}|after:{}", name, first.state, last_op.split(':').next().unwrap_or("")));
                    produced.push(Produced { format: fmt, bytes, first, first_untrusted: None, origin: name.clone(), born_at: step });
                }
                Err(e) => {
                    *res.counts.entry(format!("sign_failed:{}", e.split(':').take(2).collect::<Vec<_>>().join(":"))).or_insert(0) += 1;
                }
            }
        } else if op < 50 {
            let i = rng.usize(produced.len());
            name = format!("read:{}", produced[i].format);
            let o = observe(produced[i].format, &produced[i].bytes, true);
            *res.counts.entry("rereads_mid_history".into()).or_insert(0) += 1;
            if o != produced[i].first && res.violation.is_none() {
                res.violation = Some((format!("reread|{}|{}", last_op.split(':').next().unwrap_or(""), diff_class(&produced[i].first, &o)), format!("asset from `{}` (step {}) re-read at step {step} after `{last_op}`: {}", produced[i].origin, produced[i].born_at, first_diff(&produced[i].first, &o))));
            }
            res.classes.push(format!("reread|{}|{}|after:{}", produced[i].format, o.state, last_op.split(':').next().unwrap_or("")));
        } else if op < 60 {
            // sign with a produced asset as parent (Edit intent on the produced asset itself)
            let i = rng.usize(produced.len());
            name = format!("ingredient-sign:{}", produced[i].format);
            let fmt = produced[i].format;
            let src = produced[i].bytes.clone();
            if src.len() < 400_000 {
                if let Ok(bytes) = defgen::sign_simple(fmt, &src, "child", "ed25519", BuilderIntent::Edit, &[]) {
                    let first = observe(fmt, &bytes, true);
                    res.classes.push(format!("ingredient-sign|{fmt}|{}", first.state));
                    produced.push(Produced { format: fmt, bytes, first, first_untrusted: None, origin: name.clone(), born_at: step });
                }
            }
        } else if op < 70 {
            let g = rng.usize(garbage.len());
            name = "garbage-read".to_string();
            let o = observe(if g == 0 { "jpg" } else { "mp4" }, &garbage[g], true);
            match garbage_first.get(&g) {
                Some(s0) => {
                    if *s0 != o.state && res.violation.is_none() {
                        res.violation = Some((format!("garbage-read|{}|state", last_op.split(':').next().unwrap_or("")), format!("the same garbage bytes failed with {s0} first and {} after `{last_op}`", o.state)));
                    }
                }
                None => {
                    garbage_first.insert(g, o.state.clone());
                }
            }
            res.classes.push(format!("garbage|{}", o.state));
        } else if op < 78 {
            name = "legacy-settings-other-thread".to_string();
            let _ = std::thread::spawn(|| {
                #[allow(deprecated)]
                let r = c2pa::settings::Settings::from_toml("[verify]\nverify_trust = false\nverify_after_sign = false\nverify_after_reading = false\n[core]\nprefer_compress_manifests = true\n[builder.thumbnail]\nenabled = true\n");
                r.is_ok()
            })
            .join();
            res.classes.push("legacy-other-thread".into());
        } else if op < 85 {
            name = "legacy-settings-this-thread".to_string();
            #[allow(deprecated)]
            let r = c2pa::settings::Settings::from_toml(if rng.bool() { "[verify]\nverify_trust = false\nverify_after_reading = false\n[core]\nprefer_compress_manifests = true\n" } else { "[verify]\nverify_trust = true\nverify_after_reading = true\n[core]\nprefer_compress_manifests = false\n" });
            res.classes.push(format!("legacy-this-thread|{}", r.is_ok()));
        } else {
            let i = rng.usize(produced.len());
            name = format!("other-trust-read:{}", produced[i].format);
            let o = observe(produced[i].format, &produced[i].bytes, false);
            let prev = produced[i].first_untrusted.clone();
            match prev {
                Some(f) => {
                    if f != o && res.violation.is_none() {
                        res.violation = Some((format!("reread-untrusted|{}|{}", last_op.split(':').next().unwrap_or(""), diff_class(&f, &o)), format!("no-anchor read differs after `{last_op}`: {}", first_diff(&f, &o))));
                    }
                }
                None => produced[i].first_untrusted = Some(o.clone()),
            }
            res.classes.push(format!("other-trust|{}|{}", produced[i].format, o.state));
            // same anchors, different allow list, on this (history-laden) thread and on a fresh thread
            let here = observe_allowlisted(produced[i].format, &produced[i].bytes);
            let (f2, b2) = (produced[i].format, produced[i].bytes.clone());
            let fresh = std::thread::spawn(move || observe_allowlisted(f2, &b2)).join().ok();
            *res.counts.entry("allowlist_reads".into()).or_insert(0) += 1;
            if let Some(fresh) = fresh {
                if here != fresh && res.violation.is_none() {
                    res.violation = Some((format!("allowlist-read|thread-history|{}", diff_class(&fresh, &here)), format!("allow-listed read after `{last_op}` differs from the same read on a fresh thread: {}", first_diff(&fresh, &here))));
                }
                res.classes.push(format!("allowlist|{}|{}", produced[i].format, here.state));
            }
        }
        res.ops.push(name.clone());
        last_op = name;
    }
    // ---- end of history: re-read everything
    for p in &produced {
        let o = observe(p.format, &p.bytes, true);
        *res.counts.entry("rereads_at_end".into()).or_insert(0) += 1;
        if o != p.first && res.violation.is_none() {
            res.violation = Some((format!("reread-at-end|{}|{}", p.origin.split(':').next().unwrap_or(""), diff_class(&p.first, &o)), format!("asset from `{}` (step {}) re-read at the end: {}", p.origin, p.born_at, first_diff(&p.first, &o))));
        }
    }
    // ---- fresh process
    if !produced.is_empty() {
        match tempfile::tempdir() {
            Ok(dir) => {
                let mut list = Vec::new();
                for (i, p) in produced.iter().enumerate() {
                    let f = format!("a{i}.bin");
                    let _ = std::fs::write(dir.path().join(&f), &p.bytes);
                    list.push(json!({"file": f, "format": p.format, "trust": true}));
                }
                let _ = std::fs::write(dir.path().join("list.json"), serde_json::to_vec(&list).unwrap_or_default());
                let st = std::process::Command::new(exe).arg("read-many").arg(dir.path()).stdout(std::process::Stdio::null()).status();
                match st {
                    Ok(s) if s.success() => match std::fs::read(dir.path().join("out.json")).ok().and_then(|b| serde_json::from_slice::<Vec<Value>>(&b).ok()) {
                        Some(outs) if outs.len() == produced.len() => {
                            for (p, o) in produced.iter().zip(outs.iter()) {
                                let o = obs_from_json(o);
                                *res.counts.entry("fresh_process_reads".into()).or_insert(0) += 1;
                                if o != p.first && res.violation.is_none() {
                                    res.violation = Some((format!("fresh-process|{}|{}", p.origin.split(':').next().unwrap_or(""), diff_class(&p.first, &o)), format!("asset from `{}`: in-history read vs fresh-process read: {}", p.origin, first_diff(&p.first, &o))));
                                }
                            }
                        }
                        _ => res.inconclusive = Some("fresh-process child produced no usable output".into()),
                    },
                    other => res.inconclusive = Some(format!("fresh-process child failed: {:?}", other)),
                }
            }
            Err(e) => res.inconclusive = Some(format!("tempdir: {e}")),
        }
    }
    res
}

fn main() {
    let args: Vec<String> = std::env::args().collect();
    if args.len() >= 3 && args[1] == "read-many" {
        child_read_many(&args[2]);
    }
    let mut run = Run::from_args("C38", "exploration");
    report::quiet_panics();
    run.rule = "histories of 20-100 seeded random operations over {sign (3 recurring (definition, asset, signer) triples per history, optionally through an archive round trip), re-read of a produced asset, sign with a produced asset as parent ingredient, failing read of garbage, legacy thread-local Settings::from_toml with hostile values on another thread / on this thread, read under a context without trust anchors}; every produced asset is re-read at the end and in a fresh process. Distinct = (operation, format, state, preceding operation).".into();
    run.assumptions = vec![
        "all judged operations use explicit Contexts; thread-local (legacy) settings must not influence them".into(),
        "repeat-sign comparison masks hashed-URI digests and manifest fingerprints (random ingredient instance ids / claim instance ids)".into(),
        "histories run in parallel worker threads of one process (global caches are shared between them)".into(),
    ];
    let exe = std::env::current_exe().expect("exe");
    let assets_v = assets::tiny_assets();
    let pool = defgen::ingredient_pool();
    let n = run.tier.pick(100usize, 1500usize);
    let seed = run.seed;
    let _ = Intent::None;
    let results = par::par_map_watch(n, 900, |i| println!("INCONCLUSIVE: property=C38 watchdog: history {i} exceeded 900 s"), |h| run_history(h, seed, &assets_v, &pool, &exe));
    let mut incon: u64 = 0;
    for (h, r) in results.iter().enumerate() {
        run.eval();
        run.count("operations", r.ops.len() as u64);
        for (k, v) in &r.counts {
            run.count(k, *v);
        }
        for c in &r.classes {
            run.nontrivial(c.clone());
        }
        if let Some(i) = &r.inconclusive {
            incon += 1;
            if incon <= 3 {
                run.inconclusive(format!("history {h}: {i}"));
            }
        }
        run.sample(if r.violation.is_some() { "violating" } else { "held" }, 2, json!({"history": h, "ops": r.ops}));
        if let Some((sig, what)) = &r.violation {
            run.violation(sig, what, json!({"history": h, "seed": seed, "ops": r.ops}));
        }
    }
    run.count("histories_with_inconclusive_child", incon);
    run.engine("release", true, json!({"threads": par::workers(), "fresh_process": "self re-exec read-many"}));
    run.finish(25);
}
