#!/bin/bash
. "$(cd "$(dirname "$0")" && pwd)/env.sh"
# usage: tools/run_all.sh <tier> <ID>...   -> one summary line per check, logs in .build/logs/run-<ID>.log
tier=$1; shift
cd "$(dirname "$0")/.."
mkdir -p .build/logs
for id in "$@"; do
  t0=$(date +%s)
  ./check $id --tier $tier > .build/logs/run-$id.log 2>&1
  rc=$?
  t1=$(date +%s)
  echo "$id exit=$rc wall=$((t1-t0))s $(grep -c '^VIOLATION' .build/logs/run-$id.log) violations; $(grep -c '^KNOWN-FINDING' .build/logs/run-$id.log) known; $(grep '^SUMMARY' .build/logs/run-$id.log | sed 's/SUMMARY property=[A-Z0-9]* //')"
done
