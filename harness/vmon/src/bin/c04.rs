//! C04 — the overall validation state is derived soundly from the validation codes.
//!
//! Drives (public API only): `ValidationResults` built four ways — serde from JSON, the builder
//! methods (`add_active_manifest` / `add_*_val` / `add_ingredient_delta`), `add_status` (placement by
//! `kind` + `ingredient_uri`), and embedded in `Reader::from_json` — then `validation_state()`;
//! plus the legacy fallback `Reader::from_json` with only a `validation_status` list.
//!
//! Oracle: a reference function written from the property statement:
//!   Valid   <=> active manifest has success codes claimSignature.validated and
//!               claimSignature.insideValidity, and every failure (active + every delta) is tolerated
//!   Trusted <=> Valid and success code signingCredential.trusted and no failure anywhere
//!   else Invalid.
//! Tolerated codes (doc comment of the decision function; /repo/docs is silent): exactly
//! `signingCredential.untrusted` and the CAWG X.509 identity-assertion failure codes (prefix
//! `cawg.x509.`).  Where the statement/docs leave a reading open (an unknown code that merely carries the
//! prefix; success codes filed under "informational"; failure codes filed under success/informational)
//! the reference is evaluated under every reading and the case is judged only if all readings agree.
use c2pa::status_tracker::LogKind;
use c2pa::validation_results::{IngredientDeltaValidationResult, StatusCodes, ValidationResults, ValidationState};
use c2pa::validation_status::ValidationStatus;
use c2pa::Reader;
use serde_json::{json, Value};
use std::collections::BTreeMap;
use vmon::{par, report, Rng, Run};

type Code = &'static str;

const VALIDATED: Code = "claimSignature.validated";
const INSIDE: Code = "claimSignature.insideValidity";
const TRUSTED: Code = "signingCredential.trusted";
const UNTRUSTED: Code = "signingCredential.untrusted";

/// Status codes of the C2PA / CAWG specifications as the SDK names them (data, not logic).
const SUCCESS_CODES: &[Code] = &[
    VALIDATED, INSIDE, TRUSTED, "signingCredential.ocsp.notRevoked", "timeStamp.validated", "timeStamp.trusted",
    "assertion.hashedURI.match", "assertion.dataHash.match", "assertion.bmffHash.match", "assertion.boxesHash.match",
    "assertion.collectionHash.match", "assertion.accessible", "ingredient.manifest.validated",
    "ingredient.claimSignature.validated", "cawg.x509.credential.trusted", "cawg.x509.signature.validated",
    "cawg.ica.credential_valid", "cawg.ica.time_stamp.validated",
];
const INFO_CODES: &[Code] = &[
    "assertion.dataHash.additionalExclusionsPresent", "ingredient.unknownProvenance", "signingCredential.ocsp.skipped",
    "signingCredential.ocsp.inaccessible", "signingCredential.ocsp.unknown", "timeStamp.mismatch", "timeStamp.malformed",
    "timeStamp.outsideValidity", "timeStamp.untrusted", "manifest.unknownProvenance", "manifest.unreferenced",
    "algorithm.deprecated", "timeOfSigning.insideValidity", "cawg.ica.untrusted_issuer",
];
/// The CAWG X.509 identity assertion failure codes (explicitly tolerated together with UNTRUSTED).
const CAWG_X509_FAILURES: &[Code] = &[
    "cawg.x509.credential.untrusted", "cawg.x509.credential.invalid", "cawg.x509.signature.mismatch",
    "cawg.x509.algorithm.unsupported", "cawg.x509.signature.outside_validity",
];
const FAILURE_CODES: &[Code] = &[
    "claim.malformed", "claim.missing", "claim.multiple", "claim.hardBindings.missing", "assertion.multipleHardBindings",
    "claim.required.missing", "claim.cbor.invalid", "ingredient.hashedURI.mismatch", "claimSignature.missing",
    "claimSignature.mismatch", "manifest.inaccessible", "manifest.multipleParents", "manifest.update.invalid",
    "manifest.update.wrongParents", "signingCredential.invalid", "signingCredential.ocsp.revoked",
    "signingCredential.expired", "assertion.hashedURI.mismatch", "assertion.missing", "assertion.undeclared",
    "assertion.inaccessible", "assertion.notRedacted", "assertion.selfRedacted", "assertion.required.missing",
    "assertion.json.invalid", "assertion.cbor.invalid", "assertion.action.ingredientMismatch", "assertion.action.redacted",
    "assertion.dataHash.mismatch", "assertion.bmffHash.mismatch", "assertion.boxesHash.mismatch",
    "assertion.boxesHash.unknownBox", "assertion.cloud-data.hardBinding", "assertion.cloud-data.actions",
    "algorithm.unsupported", "general.error", "claimSignature.outsideValidity", "manifest.timestamp.invalid",
    "manifest.timestamp.wrongParents", "manifest.compressed.invalid", "assertion.outsideManifest",
    "assertion.action.malformed", "assertion.action.redactionMismatch", "assertion.dataHash.malformed",
    "assertion.dataHash.redacted", "assertion.bmffHash.malformed", "assertion.boxesHash.malformed",
    "assertion.cloud-data.malformed", "assertion.collectionHash.mismatch", "assertion.collectionHash.incorrectFileCount",
    "assertion.collectionHash.invalidURI", "assertion.collectionHash.malformed", "assertion.ingredient.malformed",
    "assertion.metadata.disallowed", "ingredient.manifest.missing", "ingredient.manifest.mismatch",
    "ingredient.claimSignature.missing", "ingredient.claimSignature.mismatch", "hashedURI.missing", "hashedURI.mismatch",
    "assertion.timestamp.malformed", "com.adobe.prerelease",
    // CAWG failures that are not X.509 identity-assertion codes
    "cawg.identity.sig_type.unknown", "cawg.identity.cbor.invalid", "cawg.identity.assertion.mismatch",
    "cawg.identity.assertion.duplicate", "cawg.identity.pad.invalid", "cawg.identity.hard_binding_missing",
    "cawg.ica.invalid_cose_sign1", "cawg.ica.invalid_alg", "cawg.ica.invalid_content_type", "cawg.ica.invalid_issuer",
    "cawg.ica.signature_mismatch", "cawg.ica.did_unavailable", "cawg.ica.invalid_did_document",
    "cawg.ica.invalid_verifiable_credential", "cawg.ica.signer_payload.mismatch", "cawg.ica.time_stamp.invalid",
    "cawg.ica.valid_from.invalid", "cawg.ica.valid_from.missing", "cawg.ica.valid_until.invalid",
];
/// Codes no specification defines, incl. look-alikes of the tolerated ones.
const UNKNOWN_CODES: &[Code] = &[
    "com.example.unknown", "", " ", "signingCredential.untrusted ", " signingCredential.untrusted", "SigningCredential.Untrusted",
    "signingcredential.untrusted", "signingCredential.untrusted.extra", "signingCredential", "signingCredential.untruste",
    "cawg.x509", "cawg.x509x.credential.untrusted", "cawg.x50", "cawg.", "cawg", "CAWG.X509.credential.untrusted",
    "xcawg.x509.credential.untrusted", "cawg.x5099.a", "cawg_x509.credential.untrusted", "cawg.X509.credential.untrusted",
    "claimSignature.validated.not", "untrusted",
];
/// Unknown codes that merely carry the tolerated prefix: the docs do not say whether they are tolerated.
const AMBIG_PREFIX_CODES: &[Code] = &["cawg.x509.", "cawg.x509.made_up", "cawg.x509.credential.untrusted.extra", "cawg.x509..", "cawg.x509.credential.trusted "];

#[derive(Clone, Copy, PartialEq, Eq, Debug)]
enum Tol {
    Yes,
    No,
    Ambiguous,
}

fn tolerated(code: &str) -> Tol {
    if code == UNTRUSTED || CAWG_X509_FAILURES.contains(&code) {
        Tol::Yes
    } else if code.starts_with("cawg.x509.") {
        // a CAWG X.509 *success* code filed as a failure, or an unknown code with the prefix
        Tol::Ambiguous
    } else {
        Tol::No
    }
}

fn is_known_failure_code(code: &str) -> bool {
    code == UNTRUSTED || CAWG_X509_FAILURES.contains(&code) || FAILURE_CODES.contains(&code)
}

#[derive(Clone, Debug, Default, PartialEq)]
struct Sc {
    success: Vec<Code>,
    info: Vec<Code>,
    failure: Vec<Code>,
}

impl Sc {
    fn len(&self) -> usize {
        self.success.len() + self.info.len() + self.failure.len()
    }
    fn to_json(&self) -> Value {
        let arr = |v: &Vec<Code>| Value::Array(v.iter().map(|c| json!({"code": c})).collect());
        json!({"success": arr(&self.success), "informational": arr(&self.info), "failure": arr(&self.failure)})
    }
}

#[derive(Clone, Debug, Default, PartialEq)]
struct St {
    active: Option<Sc>,
    deltas: Vec<Sc>,
}

impl St {
    fn size(&self) -> usize {
        self.active.as_ref().map(|a| a.len()).unwrap_or(0) + self.deltas.iter().map(|d| d.len() + 1).sum::<usize>()
    }
    fn to_json(&self) -> Value {
        let mut m = serde_json::Map::new();
        if let Some(a) = &self.active {
            m.insert("activeManifest".into(), a.to_json());
        }
        if !self.deltas.is_empty() {
            m.insert(
                "ingredientDeltas".into(),
                Value::Array(self.deltas.iter().enumerate().map(|(i, d)| json!({"ingredientAssertionURI": delta_uri(i), "validationDeltas": d.to_json()})).collect()),
            );
        }
        Value::Object(m)
    }
}

fn delta_uri(i: usize) -> String {
    format!("self#jumbf=/c2pa/urn:c2pa:00000000-0000-4000-8000-00000000000{i}/c2pa.assertions/c2pa.ingredient.v3__{i}")
}

#[derive(Clone, Copy)]
struct Interp {
    ambiguous_prefix_tolerated: bool,
    success_in_informational_counts: bool,
    misfiled_failure_counts: bool,
}

const INVALID: u8 = 0;
const VALID: u8 = 1;
const TRUSTED_S: u8 = 2;

fn sname(s: u8) -> &'static str {
    match s {
        0 => "Invalid",
        1 => "Valid",
        _ => "Trusted",
    }
}

/// The decision function of the statement.  Also returns the first necessary condition that fails.
fn reference(st: &St, ip: Interp) -> (u8, &'static str) {
    let Some(a) = &st.active else { return (INVALID, "no-active-manifest") };
    let has = |c: &str| a.success.iter().any(|x| *x == c) || (ip.success_in_informational_counts && a.info.iter().any(|x| *x == c));
    let mut failures: Vec<(&str, bool)> = a.failure.iter().map(|c| (*c, true)).collect();
    for d in &st.deltas {
        failures.extend(d.failure.iter().map(|c| (*c, false)));
    }
    if ip.misfiled_failure_counts {
        for c in a.success.iter().chain(a.info.iter()) {
            if is_known_failure_code(c) {
                failures.push((*c, true));
            }
        }
        for d in &st.deltas {
            for c in d.success.iter().chain(d.info.iter()) {
                if is_known_failure_code(c) {
                    failures.push((*c, false));
                }
            }
        }
    }
    let tol = |c: &str| match tolerated(c) {
        Tol::Yes => true,
        Tol::No => false,
        Tol::Ambiguous => ip.ambiguous_prefix_tolerated,
    };
    if !has(VALIDATED) {
        return (INVALID, "claimSignature.validated-missing");
    }
    if !has(INSIDE) {
        return (INVALID, "claimSignature.insideValidity-missing");
    }
    if failures.iter().any(|(c, act)| *act && !tol(c)) {
        return (INVALID, "nontolerated-failure-in-active-manifest");
    }
    if failures.iter().any(|(c, act)| !*act && !tol(c)) {
        return (INVALID, "nontolerated-failure-in-ingredient-delta");
    }
    if !has(TRUSTED) {
        return (VALID, "signingCredential.trusted-missing");
    }
    if failures.iter().any(|(_, act)| *act) {
        return (VALID, "tolerated-failure-in-active-manifest");
    }
    if !failures.is_empty() {
        return (VALID, "tolerated-failure-in-ingredient-delta");
    }
    (TRUSTED_S, "-")
}

/// Some((state, limiting condition)) if every reading of the statement agrees, else None (unjudged).
fn reference_all(st: &St) -> Result<(u8, &'static str), &'static str> {
    let base = reference(st, Interp { ambiguous_prefix_tolerated: false, success_in_informational_counts: false, misfiled_failure_counts: false });
    for bits in 1..8u8 {
        let ip = Interp { ambiguous_prefix_tolerated: bits & 1 != 0, success_in_informational_counts: bits & 2 != 0, misfiled_failure_counts: bits & 4 != 0 };
        if reference(st, ip).0 != base.0 {
            return Err(if bits & 1 != 0 && reference(st, Interp { ambiguous_prefix_tolerated: true, success_in_informational_counts: false, misfiled_failure_counts: false }).0 != base.0 {
                "unknown code with the cawg.x509. prefix decides the verdict"
            } else if bits & 2 != 0 && reference(st, Interp { ambiguous_prefix_tolerated: false, success_in_informational_counts: true, misfiled_failure_counts: false }).0 != base.0 {
                "success code filed under informational decides the verdict"
            } else {
                "failure code filed under success/informational decides the verdict"
            });
        }
    }
    Ok(base)
}

fn vs(code: &str) -> ValidationStatus {
    serde_json::from_value(json!({ "code": code })).expect("ValidationStatus from {code}")
}

fn state_num(s: ValidationState) -> u8 {
    match s {
        ValidationState::Invalid => INVALID,
        ValidationState::Valid => VALID,
        ValidationState::Trusted => TRUSTED_S,
    }
}

const ROUTES: [&str; 4] = ["serde", "builder", "add_status", "reader_json"];

fn sdk_state(st: &St, route: usize) -> Result<u8, String> {
    let r = report::catch_sdk(|| -> Result<u8, String> {
        match route {
            0 => {
                let vr: ValidationResults = serde_json::from_value(st.to_json()).map_err(|e| format!("serde: {e}"))?;
                Ok(state_num(vr.validation_state()))
            }
            1 => {
                let sc = |s: &Sc| {
                    let mut o = StatusCodes::default();
                    for c in &s.success {
                        o = o.add_success_val(vs(c));
                    }
                    for c in &s.info {
                        o = o.add_informational_val(vs(c));
                    }
                    for c in &s.failure {
                        o = o.add_failure_val(vs(c));
                    }
                    o
                };
                let mut vr = ValidationResults::default();
                if let Some(a) = &st.active {
                    vr = vr.add_active_manifest(sc(a));
                }
                for (i, d) in st.deltas.iter().enumerate() {
                    vr = vr.add_ingredient_delta(IngredientDeltaValidationResult::new(delta_uri(i), sc(d)));
                }
                Ok(state_num(vr.validation_state()))
            }
            2 => {
                // placement decided by kind + ingredient_uri; failures first so that order differs from the other routes
                let mut vr = ValidationResults::default();
                let mut add = |s: &Sc, uri: Option<String>| {
                    for (list, kind) in [(&s.failure, LogKind::Failure), (&s.info, LogKind::Informational), (&s.success, LogKind::Success)] {
                        for c in list.iter() {
                            let mut v = vs(c).set_kind(kind.clone());
                            if let Some(u) = &uri {
                                v = v.set_ingredient_uri(u.clone());
                            }
                            vr.add_status(v);
                        }
                    }
                };
                for (i, d) in st.deltas.iter().enumerate().rev() {
                    add(d, Some(delta_uri(i)));
                }
                if let Some(a) = &st.active {
                    add(a, None);
                }
                Ok(state_num(vr.validation_state()))
            }
            _ => {
                let doc = json!({"manifests": {}, "validation_results": st.to_json()});
                let r = Reader::from_json(&doc.to_string()).map_err(|e| format!("from_json: {e}"))?;
                Ok(state_num(r.validation_state()))
            }
        }
    });
    match r {
        Ok(Ok(s)) => Ok(s),
        Ok(Err(e)) => Err(format!("harness-error: {e}")),
        Err(p) => Err(format!("panic: {p}")),
    }
}

/// What the add_status route can represent: an active manifest exists iff it has at least one entry,
/// and deltas without entries do not exist.
fn representable_by_add_status(st: &St) -> St {
    St { active: st.active.clone().filter(|a| a.len() > 0), deltas: st.deltas.iter().filter(|d| d.len() > 0).cloned().collect() }
}

fn fail_class(f: &[Code]) -> &'static str {
    let t = f.iter().any(|c| tolerated(c) == Tol::Yes);
    let n = f.iter().any(|c| tolerated(c) == Tol::No);
    let a = f.iter().any(|c| tolerated(c) == Tol::Ambiguous);
    match (t, n, a) {
        (false, false, false) => "none",
        (true, false, false) => "tol",
        (false, true, false) => "nontol",
        (true, true, false) => "tol+nontol",
        (_, false, true) => "ambig",
        (_, true, true) => "ambig+nontol",
    }
}

fn class_of(st: &St, route: &str, refs: u8) -> String {
    let succ = match &st.active {
        None => "no-active".to_string(),
        Some(a) => format!(
            "{}{}{}{}",
            if a.success.contains(&VALIDATED) { "V" } else { "-" },
            if a.success.contains(&INSIDE) { "I" } else { "-" },
            if a.success.contains(&TRUSTED) { "T" } else { "-" },
            if a.success.iter().any(|c| ![VALIDATED, INSIDE, TRUSTED].contains(c)) { "+" } else { "" }
        ),
    };
    let af = st.active.as_ref().map(|a| fail_class(&a.failure)).unwrap_or("none");
    let all_df: Vec<Code> = st.deltas.iter().flat_map(|d| d.failure.iter().cloned()).collect();
    let ai = st.active.as_ref().map(|a| !a.info.is_empty()).unwrap_or(false);
    format!("{route}|ref={}|succ={succ}|af={af}|info={}|deltas={}|df={}", sname(refs), ai as u8, st.deltas.len(), fail_class(&all_df))
}

#[derive(Default)]
struct Out {
    evals: u64,
    classes: BTreeMap<String, u64>,
    counters: BTreeMap<String, u64>,
    /// sig -> (what, witness, size)
    violations: BTreeMap<String, (String, Value, usize, u64)>,
    samples: Vec<(String, Value)>,
}

impl Out {
    fn bump(&mut self, k: &str, n: u64) {
        *self.counters.entry(k.to_string()).or_insert(0) += n;
    }
    fn violation(&mut self, sig: String, what: String, wit: Value, size: usize) {
        match self.violations.get_mut(&sig) {
            Some(e) => {
                e.3 += 1;
                if size < e.2 {
                    *e = (what, wit, size, e.3);
                }
            }
            None => {
                self.violations.insert(sig, (what, wit, size, 1));
            }
        }
    }
    fn merge(&mut self, o: Out) {
        self.evals += o.evals;
        for (k, v) in o.classes {
            *self.classes.entry(k).or_insert(0) += v;
        }
        for (k, v) in o.counters {
            *self.counters.entry(k).or_insert(0) += v;
        }
        for (sig, (what, wit, size, n)) in o.violations {
            match self.violations.get_mut(&sig) {
                Some(e) => {
                    e.3 += n;
                    if size < e.2 {
                        *e = (what, wit, size, e.3);
                    }
                }
                None => {
                    self.violations.insert(sig, (what, wit, size, n));
                }
            }
        }
        for s in o.samples {
            if self.samples.len() < 12 {
                self.samples.push(s);
            }
        }
    }
}

fn witness(st: &St, route: &str, sdk: &str, refs: &str) -> Value {
    json!({"route": route, "validation_results": st.to_json(), "sdk_state": sdk, "reference_state": refs})
}

/// Judges one state on the given routes.  Returns the SDK state of the first route (for neighbour checks).
fn judge(st: &St, routes: &[usize], origin: &str, out: &mut Out) -> Option<u8> {
    let mut first = None;
    for &route in routes {
        let effective = if route == 2 { representable_by_add_status(st) } else { st.clone() };
        let rname = ROUTES[route];
        out.evals += 1;
        let sdk = sdk_state(&effective, route);
        let sdk = match sdk {
            Ok(s) => s,
            Err(e) => {
                let kind = if e.starts_with("panic") { "panic" } else { "error" };
                out.violation(format!("main|{kind}|{rname}"), format!("{rname}: {e}"), witness(&effective, rname, &e, "?"), effective.size());
                continue;
            }
        };
        if first.is_none() {
            first = Some(sdk);
        }
        match reference_all(&effective) {
            Err(why) => {
                out.bump(&format!("unjudged:{why}"), 1);
                if out.samples.iter().filter(|s| s.0 == "unjudged").count() < 1 {
                    out.samples.push(("unjudged".into(), json!({"why": why, "state": effective.to_json(), "sdk": sname(sdk)})));
                }
            }
            Ok((refs, limiting)) => {
                *out.classes.entry(class_of(&effective, rname, refs)).or_insert(0) += 1;
                out.bump(&format!("judged:{origin}"), 1);
                if sdk != refs {
                    let dir = if sdk > refs { "too-permissive" } else { "too-strict" };
                    // cause class: the necessary condition of the statement that caps the reference state
                    let sig = format!("main|{dir}|sdk={},ref={}|{}", sname(sdk), sname(refs), limiting);
                    out.violation(sig, format!("{rname}: validation_state() = {} but the statement gives {} ({})", sname(sdk), sname(refs), limiting), witness(&effective, rname, sname(sdk), sname(refs)), effective.size());
                } else if out.samples.iter().filter(|s| s.0 == sname(refs)).count() < 1 {
                    out.samples.push((sname(refs).into(), witness(&effective, rname, sname(sdk), sname(refs))));
                }
            }
        }
    }
    first
}

/// Monotonicity on the SDK's own outputs (no reference involved): adding a non-tolerated failure
/// anywhere must give Invalid.
fn neighbours(st: &St, base_sdk: u8, route: usize, codes: &[Code], out: &mut Out) {
    let rname = ROUTES[route];
    let mut places: Vec<(String, St)> = Vec::new();
    for &c in codes {
        let mut s = st.clone();
        match s.active.as_mut() {
            Some(a) => a.failure.push(c),
            None => s.active = Some(Sc { failure: vec![c], ..Default::default() }),
        }
        places.push((format!("active+{c}"), s));
        for i in 0..st.deltas.len() {
            let mut s = st.clone();
            s.deltas[i].failure.push(c);
            places.push((format!("delta+{c}"), s));
        }
        if st.deltas.len() < 3 {
            let mut s = st.clone();
            s.deltas.push(Sc { failure: vec![c], ..Default::default() });
            places.push((format!("newdelta+{c}"), s));
        }
    }
    for (what, s) in places {
        out.evals += 1;
        match sdk_state(&s, route) {
            Ok(INVALID) => {
                *out.classes.entry(format!("monotone|{rname}|base={}|{}|stays-or-becomes-Invalid", sname(base_sdk), what.split('+').next().unwrap_or(""))).or_insert(0) += 1;
                out.bump("neighbour_pairs_checked", 1);
            }
            Ok(x) => {
                let place = what.split('+').next().unwrap_or("");
                out.violation(
                    format!("monotone|nontolerated-failure-added-to-{}|base={}|became={}", place, sname(base_sdk), sname(x)),
                    format!("{rname}: state was {} and is {} after adding non-tolerated failure {what}", sname(base_sdk), sname(x)),
                    witness(&s, rname, sname(x), "Invalid"),
                    s.size(),
                );
            }
            Err(e) => out.violation(format!("main|panic-or-error|{rname}"), e.clone(), witness(&s, rname, &e, "?"), s.size()),
        }
    }
}

// ---------- enumeration ----------

fn subsets(alphabet: &[Code], max_size: usize) -> Vec<Vec<Code>> {
    let mut out = Vec::new();
    for m in 0..(1u32 << alphabet.len()) {
        if (m.count_ones() as usize) <= max_size {
            out.push(alphabet.iter().enumerate().filter(|(i, _)| m & (1 << i) != 0).map(|(_, c)| *c).collect());
        }
    }
    out
}

const S_ALPHA: [Code; 4] = [VALIDATED, INSIDE, TRUSTED, "assertion.dataHash.match"];
const F_ALPHA: [Code; 7] = [UNTRUSTED, "cawg.x509.credential.untrusted", "assertion.dataHash.mismatch", "com.example.unknown", "cawg.x509", "cawg.ica.invalid_issuer", "cawg.x509.made_up"];
const I_ALPHA: [Code; 3] = ["signingCredential.ocsp.skipped", VALIDATED, "assertion.dataHash.mismatch"];
const NONTOL_NEIGHBOURS: [Code; 4] = ["assertion.dataHash.mismatch", "com.example.unknown", "cawg.x509", "cawg.identity.sig_type.unknown"];

struct Space {
    succ: Vec<Vec<Code>>,
    afail: Vec<Vec<Code>>,
    info: Vec<Vec<Code>>,
    deltas: Vec<Vec<Sc>>,
}

impl Space {
    fn new(quick: bool) -> Space {
        let succ = subsets(&S_ALPHA, 4);
        let afail = subsets(&F_ALPHA, if quick { 3 } else { 7 });
        let info = if quick { vec![vec![], vec![I_ALPHA[0]], vec![I_ALPHA[1]], vec![I_ALPHA[2]]] } else { subsets(&I_ALPHA, 3) };
        let mut deltas: Vec<Vec<Sc>> = vec![vec![]];
        let one = subsets(&F_ALPHA, if quick { 3 } else { 7 });
        for f in &one {
            deltas.push(vec![Sc { failure: f.clone(), ..Default::default() }]);
            // a delta that carries the success codes itself (they must not count for the active manifest)
            deltas.push(vec![Sc { success: vec![VALIDATED, INSIDE, TRUSTED], failure: f.clone(), ..Default::default() }]);
        }
        let two = subsets(&F_ALPHA, if quick { 1 } else { 2 });
        for a in &two {
            for b in &two {
                deltas.push(vec![Sc { failure: a.clone(), ..Default::default() }, Sc { failure: b.clone(), info: vec!["ingredient.unknownProvenance"], ..Default::default() }]);
            }
        }
        Space { succ, afail, info, deltas }
    }
    fn len(&self) -> usize {
        self.succ.len() * self.afail.len() * self.info.len() * self.deltas.len()
    }
    fn get(&self, mut i: usize) -> St {
        let s = &self.succ[i % self.succ.len()];
        i /= self.succ.len();
        let f = &self.afail[i % self.afail.len()];
        i /= self.afail.len();
        let inf = &self.info[i % self.info.len()];
        i /= self.info.len();
        let d = &self.deltas[i % self.deltas.len()];
        St { active: Some(Sc { success: s.clone(), info: inf.clone(), failure: f.clone() }), deltas: d.clone() }
    }
}

fn all_codes() -> Vec<Code> {
    let mut v: Vec<Code> = Vec::new();
    v.extend_from_slice(SUCCESS_CODES);
    v.extend_from_slice(INFO_CODES);
    v.push(UNTRUSTED);
    v.extend_from_slice(CAWG_X509_FAILURES);
    v.extend_from_slice(FAILURE_CODES);
    v.extend_from_slice(UNKNOWN_CODES);
    v.extend_from_slice(AMBIG_PREFIX_CODES);
    v
}

fn random_state(rng: &mut Rng, codes: &[Code]) -> St {
    let pick_list = |rng: &mut Rng, bias: &[Code], max: usize| -> Vec<Code> {
        let k = rng.usize(max + 1);
        (0..k).map(|_| if rng.chance(2, 3) { *rng.pick(bias) } else { *rng.pick(codes) }).collect()
    };
    let tol_bias: Vec<Code> = [UNTRUSTED].iter().chain(CAWG_X509_FAILURES.iter()).cloned().collect();
    let sc = |rng: &mut Rng, active: bool| -> Sc {
        let mut success = pick_list(rng, SUCCESS_CODES, 3);
        if active {
            for c in [VALIDATED, INSIDE, TRUSTED] {
                if rng.chance(5, 6) {
                    success.push(c);
                }
            }
        }
        let failure = if rng.chance(1, 2) { pick_list(rng, &tol_bias, 3) } else if rng.chance(1, 2) { vec![] } else { pick_list(rng, FAILURE_CODES, 2) };
        Sc { success, info: pick_list(rng, INFO_CODES, 2), failure }
    };
    let active = if rng.chance(1, 40) { None } else { Some(sc(rng, true)) };
    let nd = rng.usize(3);
    St { active, deltas: (0..nd).map(|_| sc(rng, false)).collect() }
}

// ---------- legacy fallback ----------

fn legacy_sdk(list: Option<&[Code]>, with_success_flag: bool) -> Result<u8, String> {
    let mut doc = json!({"manifests": {}});
    if let Some(l) = list {
        doc["validation_status"] = Value::Array(l.iter().map(|c| if with_success_flag { json!({"code": c, "success": false}) } else { json!({"code": c}) }).collect());
    }
    match report::catch_sdk(|| Reader::from_json(&doc.to_string()).map(|r| (r.validation_results().is_some(), state_num(r.validation_state())))) {
        Ok(Ok((false, s))) => Ok(s),
        Ok(Ok((true, _))) => Err("harness-error: reader unexpectedly has validation_results".into()),
        Ok(Err(e)) => Err(format!("harness-error: from_json: {e}")),
        Err(p) => Err(format!("panic: {p}")),
    }
}

fn legacy(run: &mut Run, codes: &[Code]) {
    const L_ALPHA: [Code; 6] = [UNTRUSTED, "cawg.x509.credential.untrusted", "assertion.dataHash.mismatch", "com.example.unknown", "cawg.x509", "signingCredential.expired"];
    let mut lists: Vec<Option<Vec<Code>>> = vec![None];
    for s in subsets(&L_ALPHA, 6) {
        lists.push(Some(s));
    }
    lists.push(Some(vec![UNTRUSTED, UNTRUSTED]));
    for c in codes {
        lists.push(Some(vec![*c]));
        lists.push(Some(vec![UNTRUSTED, *c]));
    }
    for l in lists {
        for flag in [false, true] {
            run.eval();
            let sdk = match legacy_sdk(l.as_deref(), flag) {
                Ok(s) => s,
                Err(e) => {
                    run.violation(&format!("legacy|{}", if e.starts_with("panic") { "panic" } else { "error" }), &e, json!({"validation_status": l}));
                    continue;
                }
            };
            let list = l.clone().unwrap_or_default();
            // The legacy list has no success codes: the success conjuncts cannot be evaluated, so only the
            // failure side of the statement is judged (one-sided):
            //   a non-tolerated failure listed  => must be Invalid
            //   any failure listed              => must not be Trusted
            let not_failure_code = list.iter().any(|c| !is_known_failure_code(c) && (SUCCESS_CODES.contains(c) || INFO_CODES.contains(c)));
            let ambiguous = list.iter().any(|c| tolerated(c) == Tol::Ambiguous);
            let nontol = list.iter().any(|c| tolerated(c) == Tol::No);
            let cls = |v: &str| format!("legacy|listed={}|{}|sdk={}|{v}", if l.is_none() { "absent".to_string() } else { list.len().min(3).to_string() }, fail_class(&list), sname(sdk));
            if not_failure_code || (ambiguous && !nontol) {
                run.count("unjudged:legacy list entry is not a failure code / ambiguous prefix code", 1);
                continue;
            }
            if list.is_empty() {
                run.count("unjudged:legacy path without any listed code (success conjuncts unknowable)", 1);
                run.sample("legacy-unjudged", 1, json!({"validation_status": l, "sdk": sname(sdk)}));
                continue;
            }
            let allowed_max = if nontol { INVALID } else { VALID };
            if sdk > allowed_max {
                let (sig, why) = if nontol {
                    ("legacy|too-permissive|nontolerated-failure-listed", "a non-tolerated failure is listed")
                } else {
                    ("legacy|too-permissive|Trusted-with-tolerated-failure-listed", "a failure is listed, so Trusted is excluded")
                };
                run.violation(sig, &format!("Reader::from_json legacy fallback: validation_state() = {} with validation_status {:?} ({why})", sname(sdk), list), json!({"route": "legacy", "validation_status": list, "success_flag": flag, "sdk_state": sname(sdk)}));
            } else {
                run.nontrivial(cls("within-bound"));
                run.sample("legacy", 1, json!({"validation_status": list, "sdk": sname(sdk)}));
            }
        }
    }
}

fn parse_sc(v: &Value, intern: &dyn Fn(&str) -> Code) -> Sc {
    let arr = |k: &str| -> Vec<Code> { v[k].as_array().map(|a| a.iter().map(|e| intern(e["code"].as_str().unwrap_or(""))).collect()).unwrap_or_default() };
    Sc { success: arr("success"), info: arr("informational"), failure: arr("failure") }
}

fn replay(path: &std::path::Path) -> ! {
    let v: Value = serde_json::from_slice(&std::fs::read(path).expect("replay file")).expect("json");
    let w = &v["witness"];
    let intern = |s: &str| -> Code { Box::leak(s.to_string().into_boxed_str()) };
    if w["route"] == "legacy" {
        let list: Vec<Code> = w["validation_status"].as_array().map(|a| a.iter().map(|c| intern(c.as_str().unwrap_or(""))).collect()).unwrap_or_default();
        let r = legacy_sdk(Some(&list), w["success_flag"].as_bool().unwrap_or(false));
        println!("replay legacy {:?} -> {:?}", list, r.as_ref().map(|s| sname(*s)));
        let nontol = list.iter().any(|c| tolerated(c) == Tol::No);
        let bad = match r {
            Ok(s) => s > if nontol { INVALID } else { VALID },
            Err(_) => true,
        };
        std::process::exit(bad as i32);
    }
    let vr = &w["validation_results"];
    let st = St {
        active: vr.get("activeManifest").map(|a| parse_sc(a, &intern)),
        deltas: vr["ingredientDeltas"].as_array().map(|a| a.iter().map(|d| parse_sc(&d["validationDeltas"], &intern)).collect()).unwrap_or_default(),
    };
    let route = ROUTES.iter().position(|r| w["route"] == *r).unwrap_or(0);
    let sdk = sdk_state(&st, route);
    let refs = reference_all(&st);
    println!("replay route={} sdk={:?} reference={:?}", ROUTES[route], sdk.as_ref().map(|s| sname(*s)), refs.map(|r| (sname(r.0), r.1)));
    let expect_invalid = w["reference_state"] == "Invalid";
    let bad = match (sdk, refs) {
        (Ok(s), Ok((r, _))) => s != r,
        (Ok(s), Err(_)) => expect_invalid && s != INVALID,
        (Err(_), _) => true,
    };
    std::process::exit(bad as i32);
}

fn main() {
    let mut run = Run::from_args("C04", "exploration");
    report::quiet_panics();
    run.rule = "states = code placements (active manifest success/informational/failure arrays + 0..2 ingredient deltas). (1) exhaustive product over a reduced alphabet: success subsets of {validated, insideValidity, trusted, other} x active-failure subsets of 7 representative codes (tolerated, CAWG X.509 tolerated, known failure, unknown, prefix look-alike 'cawg.x509', CAWG non-X.509 failure, unknown-with-prefix) x informational variants x delta configurations (none / one delta with a failure subset, with and without its own success codes / two deltas); (2) every known C2PA/CAWG code and 27 unknown/look-alike codes placed singly in each array of each location over 8 base states; (3) seeded random placements over the full code table; each state is built through up to four public construction routes and validation_state() is compared with the statement's decision function; (4) neighbours: each sampled state + one non-tolerated failure at every location must be Invalid (judged on SDK outputs alone); (5) legacy Reader::from_json status-list fallback. Non-trivial = validation_state() ran and all readings of the statement agree; distinct = (route, reference state, success-conjunct mask, failure classes per location, delta count).".into();
    run.assumptions = vec![
        "tolerated failure codes = signingCredential.untrusted and the five CAWG X.509 identity-assertion failure codes (doc comment of the decision function; /repo/docs does not list them)".into(),
        "unknown codes that merely start with 'cawg.x509.' (and CAWG X.509 success codes filed as failures), success codes filed under informational, and failure codes filed under success/informational are generated; when one of them decides the verdict the case is counted as unjudged".into(),
        "a code counts as success/informational/failure by the array it is filed in (for add_status: by its kind)".into(),
        "legacy fallback: the status list carries failures only, so only the failure side of the statement is judged there (non-tolerated listed => Invalid; anything listed => not Trusted); Reader::from_json always runs with the default settings (verify_trust = true), the other setting is unreachable through the public API".into(),
        "main path judged as an equivalence (the statement's 'otherwise Invalid' read as a definition by cases); too-strict and too-permissive results get different signatures".into(),
    ];
    if let Some(p) = run.replay.clone() {
        replay(&p);
    }
    let quick = run.quick();
    let codes = all_codes();
    let mut total = Out::default();

    // (1) exhaustive product
    let space = Space::new(quick);
    let n = space.len();
    let chunk = 4096usize;
    let nchunks = n.div_ceil(chunk);
    let all_routes_every = if quick { 1 } else { 8 };
    let neigh_every = if quick { 3 } else { 16 };
    let outs = par::par_map(nchunks, |ci| {
        let mut out = Out::default();
        for i in (ci * chunk)..((ci + 1) * chunk).min(n) {
            let st = space.get(i);
            let routes: Vec<usize> = if i % all_routes_every == 0 { vec![0, 1, 2, 3] } else { vec![i % 4] };
            let first = judge(&st, &routes, "product", &mut out);
            if i % neigh_every == 0 {
                if let Some(b) = first {
                    neighbours(&st, b, routes[0], &NONTOL_NEIGHBOURS[..if quick { 2 } else { 4 }], &mut out);
                }
            }
        }
        out
    });
    for o in outs {
        total.merge(o);
    }
    run.set("product_states", json!(n));

    // (2) every code singly, every placement, 8 bases
    let bases: Vec<(&str, St)> = {
        let act = |s: &[Code], f: &[Code]| Some(Sc { success: s.to_vec(), info: vec![], failure: f.to_vec() });
        vec![
            ("trusted", St { active: act(&[VALIDATED, INSIDE, TRUSTED], &[]), deltas: vec![] }),
            ("valid", St { active: act(&[VALIDATED, INSIDE], &[]), deltas: vec![] }),
            ("valid-untrusted", St { active: act(&[VALIDATED, INSIDE, TRUSTED], &[UNTRUSTED]), deltas: vec![] }),
            ("valid-cawg", St { active: act(&[VALIDATED, INSIDE], &["cawg.x509.signature.mismatch"]), deltas: vec![] }),
            ("only-validated", St { active: act(&[VALIDATED, TRUSTED], &[]), deltas: vec![] }),
            ("only-inside", St { active: act(&[INSIDE, TRUSTED], &[]), deltas: vec![] }),
            ("empty", St { active: act(&[], &[]), deltas: vec![] }),
            ("trusted-delta-tolerated", St { active: act(&[VALIDATED, INSIDE, TRUSTED], &[]), deltas: vec![Sc { failure: vec![UNTRUSTED], ..Default::default() }] }),
        ]
    };
    let mut singles: Vec<St> = Vec::new();
    for (_, b) in &bases {
        for &c in &codes {
            for arr in 0..3 {
                for loc in 0..3 {
                    let mut s = b.clone();
                    let put = |sc: &mut Sc| match arr {
                        0 => sc.success.push(c),
                        1 => sc.info.push(c),
                        _ => sc.failure.push(c),
                    };
                    match loc {
                        0 => put(s.active.as_mut().unwrap()),
                        1 => {
                            let mut d = Sc::default();
                            put(&mut d);
                            s.deltas.push(d);
                        }
                        _ => {
                            let mut d = Sc::default();
                            put(&mut d);
                            s.deltas.push(Sc { success: vec!["ingredient.manifest.validated"], ..Default::default() });
                            s.deltas.push(d);
                        }
                    }
                    singles.push(s);
                }
            }
        }
    }
    let outs = par::par_map(singles.len().div_ceil(512), |ci| {
        let mut out = Out::default();
        for st in &singles[ci * 512..((ci + 1) * 512).min(singles.len())] {
            if let Some(b) = judge(st, &[0, 1, 2, 3], "single-code", &mut out) {
                if ci % 4 == 0 {
                    neighbours(st, b, 0, &NONTOL_NEIGHBOURS[..1], &mut out);
                }
            }
        }
        out
    });
    for o in outs {
        total.merge(o);
    }
    run.set("single_code_states", json!(singles.len()));
    run.set("code_table_size", json!(codes.len()));

    // (3) random placements
    let n_random = run.tier.pick(120_000usize, 3_000_000);
    let seed = run.seed;
    let outs = par::par_map(n_random.div_ceil(2048), |ci| {
        let mut out = Out::default();
        let mut rng = Rng::new(seed ^ ((ci as u64) << 24), "c04random");
        for k in 0..2048usize {
            let st = random_state(&mut rng, &codes);
            let routes = if k % 4 == 0 { vec![0, 1, 2, 3] } else { vec![k % 4] };
            if let Some(b) = judge(&st, &routes, "random", &mut out) {
                if k % 8 == 0 {
                    let c = [*rng.pick(FAILURE_CODES), *rng.pick(UNKNOWN_CODES)];
                    neighbours(&st, b, routes[0], &c, &mut out);
                }
            }
        }
        out
    });
    for o in outs {
        total.merge(o);
    }
    run.set("random_states", json!(n_random.div_ceil(2048) * 2048));

    // fold
    run.evals(total.evals);
    for (c, k) in total.classes {
        run.nontrivial_n(c, k);
    }
    for (k, v) in total.counters {
        run.count(&k, v);
    }
    for (kind, s) in total.samples {
        run.sample(&kind, 1, s);
    }
    for (sig, (what, wit, _, n)) in total.violations {
        run.count(&format!("violations:{sig}"), n);
        run.violation(&sig, &what, wit);
    }

    // (5) legacy fallback
    legacy(&mut run, &codes);

    run.exhaustive = false;
    run.engine("release", true, json!({"threads": par::workers()}));
    run.finish(150);
}
