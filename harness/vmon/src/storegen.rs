//! Helpers shared by the store-internals monitors (C18–C21): settings/context construction,
//! Builder-driven signing of tiny assets (chains, redactions, update manifests), and a JUMBF
//! box-tree editor on top of the independent walker in `jumbf.rs`.
use crate::jumbf::{self, JBox};
use crate::signers;
use c2pa::{Builder, BuilderIntent, Context, Signer};
use serde_json::{json, Value};
use std::io::Cursor;

pub fn merge(a: &mut Value, b: &Value) {
    match (a, b) {
        (Value::Object(ma), Value::Object(mb)) => {
            for (k, v) in mb {
                merge(ma.entry(k.clone()).or_insert(Value::Null), v);
            }
        }
        (a, b) => *a = b.clone(),
    }
}

/// Base settings: fixture trust anchors, trust verification on, thumbnails off; `extra` is merged on top.
pub fn settings(extra: &Value) -> String {
    let mut s = json!({
        "verify": {"verify_trust": true},
        "trust": {"trust_anchors": signers::trust_anchors_pem()},
        "builder": {"thumbnail": {"enabled": false}}
    });
    merge(&mut s, extra);
    s.to_string()
}

pub fn context(extra: &Value) -> Context {
    Context::new().with_settings(settings(extra).as_str()).expect("settings")
}

#[derive(Clone, Debug)]
pub struct Signed {
    pub asset: Vec<u8>,
    pub store: Vec<u8>,
}

/// `Builder::sign` over in-memory streams.
pub fn sign(b: &mut Builder, signer: &dyn Signer, fmt: &str, src: &[u8]) -> c2pa::Result<Signed> {
    let mut s = Cursor::new(src.to_vec());
    let mut d = Cursor::new(Vec::new());
    let store = b.sign(signer, fmt, &mut s, &mut d)?;
    Ok(Signed { asset: d.into_inner(), store })
}

pub fn builder(extra_settings: &Value, definition: Value, intent: BuilderIntent) -> c2pa::Result<Builder> {
    let mut b = Builder::from_context(context(extra_settings)).with_definition(definition)?;
    b.set_intent(intent);
    Ok(b)
}

// ------------------------------------------------------------------------------------------------
// JUMBF tree editing

#[derive(Clone, Debug)]
pub enum Edit {
    Delete,
    Duplicate,
    Replace(Vec<u8>),
    InsertBefore(Vec<u8>),
    InsertAfter(Vec<u8>),
    /// re-encode the header with size32 = 1 + 64-bit largesize
    LargeHeader,
    /// swap with the following sibling
    SwapNext,
    /// overwrite the payload (after the 8/16-byte header) with zeros
    ZeroPayload,
}

fn raw<'a>(data: &'a [u8], b: &JBox) -> &'a [u8] {
    &data[b.start..b.end()]
}

fn header(b: &JBox, body_len: usize, large: bool, out: &mut Vec<u8>) {
    if large || b.header_len == 16 {
        out.extend_from_slice(&1u32.to_be_bytes());
        out.extend_from_slice(&b.typ);
        out.extend_from_slice(&((16 + body_len) as u64).to_be_bytes());
    } else {
        out.extend_from_slice(&((8 + body_len) as u32).to_be_bytes());
        out.extend_from_slice(&b.typ);
    }
}

fn emit(data: &[u8], b: &JBox, target: usize, edit: &Edit, out: &mut Vec<u8>) {
    if b.start == target {
        match edit {
            Edit::Delete => {}
            Edit::Duplicate => {
                out.extend_from_slice(raw(data, b));
                out.extend_from_slice(raw(data, b));
            }
            Edit::Replace(v) => out.extend_from_slice(v),
            Edit::InsertBefore(v) => {
                out.extend_from_slice(v);
                out.extend_from_slice(raw(data, b));
            }
            Edit::InsertAfter(v) => {
                out.extend_from_slice(raw(data, b));
                out.extend_from_slice(v);
            }
            Edit::LargeHeader => {
                let body = &data[b.payload_start()..b.end()];
                header(b, body.len(), true, out);
                out.extend_from_slice(body);
            }
            Edit::SwapNext => out.extend_from_slice(raw(data, b)), // no next sibling: unchanged
            Edit::ZeroPayload => {
                out.extend_from_slice(&data[b.start..b.payload_start()]);
                out.extend(std::iter::repeat(0u8).take(b.end() - b.payload_start()));
            }
        }
        return;
    }
    if &b.typ == b"jumb" && target > b.start && target < b.end() && !b.children.is_empty() {
        let mut body = Vec::new();
        let mut i = 0;
        while i < b.children.len() {
            let c = &b.children[i];
            if c.start == target && matches!(edit, Edit::SwapNext) && i + 1 < b.children.len() {
                body.extend_from_slice(raw(data, &b.children[i + 1]));
                body.extend_from_slice(raw(data, c));
                i += 2;
                continue;
            }
            emit(data, c, target, edit, &mut body);
            i += 1;
        }
        header(b, body.len(), false, out);
        out.extend_from_slice(&body);
        return;
    }
    out.extend_from_slice(raw(data, b));
}

/// Applies `edit` to the box starting at byte offset `target`, fixing up the sizes of all ancestors.
pub fn apply_edit(data: &[u8], root: &JBox, target: usize, edit: &Edit) -> Vec<u8> {
    let mut out = Vec::with_capacity(data.len() + 64);
    emit(data, root, target, edit, &mut out);
    out.extend_from_slice(&data[root.end().min(data.len())..]);
    out
}

pub const UUID_JSON_ASSERTION: [u8; 16] = [0x6A, 0x73, 0x6F, 0x6E, 0x00, 0x11, 0x00, 0x10, 0x80, 0x00, 0x00, 0xAA, 0x00, 0x38, 0x9B, 0x71];

/// A superbox with the given 16-byte type, label and content boxes.
pub fn make_superbox(uuid: &[u8; 16], label: &str, content: &[u8]) -> Vec<u8> {
    let mut jumd = Vec::new();
    jumd.extend_from_slice(uuid);
    jumd.push(0x03);
    jumd.extend_from_slice(label.as_bytes());
    jumd.push(0);
    let mut payload = jumbf::make_box(b"jumd", &jumd);
    payload.extend_from_slice(content);
    jumbf::make_box(b"jumb", &payload)
}

/// Variants of a description box: kind 0 = add a 4-byte id, 1 = add a 32-byte hash field,
/// 2 = add a private `c2sh` salt box, 3 = clear the "requestable" bit, 4 = change one label char.
/// Returns None when the variant does not apply.
pub fn jumd_variant(data: &[u8], jumd: &JBox, kind: u8, fill: &[u8]) -> Option<Vec<u8>> {
    let p = jumd.payload_start();
    let e = jumd.end();
    if e < p + 17 {
        return None;
    }
    let uuid = &data[p..p + 16];
    let t = data[p + 16];
    let rest = &data[p + 17..e];
    let (label, after): (&[u8], &[u8]) = if t & 0x02 != 0 {
        let n = rest.iter().position(|c| *c == 0)?;
        (&rest[..n + 1], &rest[n + 1..])
    } else {
        (&[], rest)
    };
    let mut t2 = t;
    let mut label2 = label.to_vec();
    let mut id: Vec<u8> = Vec::new();
    let mut hash: Vec<u8> = Vec::new();
    let mut tail = after.to_vec();
    let mut o = 0;
    if t & 0x04 != 0 {
        id = after.get(o..o + 4)?.to_vec();
        o += 4;
    }
    if t & 0x08 != 0 {
        hash = after.get(o..o + 32)?.to_vec();
        o += 32;
    }
    tail = tail[o..].to_vec();
    match kind {
        0 => {
            if t & 0x04 != 0 {
                return None;
            }
            t2 |= 0x04;
            id = fill.iter().cycle().take(4).cloned().collect();
        }
        1 => {
            if t & 0x08 != 0 {
                return None;
            }
            t2 |= 0x08;
            hash = fill.iter().cycle().take(32).cloned().collect();
        }
        2 => {
            if t & 0x10 != 0 {
                return None;
            }
            t2 |= 0x10;
            let salt: Vec<u8> = fill.iter().cycle().take(16).cloned().collect();
            tail = jumbf::make_box(b"c2sh", &salt);
        }
        3 => {
            if t & 0x01 == 0 {
                return None;
            }
            t2 &= !0x01;
        }
        _ => {
            if label2.len() < 2 {
                return None;
            }
            let i = (fill.first().cloned().unwrap_or(0) as usize) % (label2.len() - 1);
            label2[i] = if label2[i] == b'x' { b'y' } else { b'x' };
        }
    }
    let mut payload = uuid.to_vec();
    payload.push(t2);
    payload.extend_from_slice(&label2);
    payload.extend_from_slice(&id);
    payload.extend_from_slice(&hash);
    payload.extend_from_slice(&tail);
    Some(jumbf::make_box(b"jumd", &payload))
}

/// Path of the first box at which two stores differ ("store-shape|first-differing-box-path").
pub fn first_diff_path(a: &[u8], b: &[u8]) -> String {
    fn norm(p: &str) -> String {
        // manifest labels carry random UUIDs: keep only the structural part
        p.split('/')
            .map(|s| if s.contains("urn:") || crate::report::find_uuids(s).len() > 0 { "<manifest>" } else { s })
            .collect::<Vec<_>>()
            .join("/")
    }
    let (Some(ra), Some(rb)) = (jumbf::parse_store(a), jumbf::parse_store(b)) else {
        return "unparseable".into();
    };
    fn rec(a: &[u8], b: &[u8], x: &JBox, y: &JBox) -> Option<String> {
        if a[x.start..x.end()] == b[y.start..y.end()] {
            return None;
        }
        if x.typ != y.typ {
            return Some(format!("{}:type", x.path));
        }
        if &x.typ == b"jumb" {
            if x.children.len() != y.children.len() {
                return Some(format!("{}:child-count", x.path));
            }
            for (cx, cy) in x.children.iter().zip(y.children.iter()) {
                if let Some(p) = rec(a, b, cx, cy) {
                    return Some(p);
                }
            }
            return Some(format!("{}:header", x.path));
        }
        Some(format!("{}:{}", x.path, x.typ_str()))
    }
    norm(&rec(a, b, &ra, &rb).unwrap_or_else(|| "trailing".into()))
}
