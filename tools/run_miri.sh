#!/bin/bash
. "$(cd "$(dirname "$0")" && pwd)/env.sh"
# Runs the vmon-miri workloads whose test name contains <test-filter> under Miri on the C-free
# build of c2pa and prints ONE JSON line:
#   {"engine":"miri","filter":..,"ran":bool,"passed":N,"failed":N,"reports":N,"first_report_sig":..,"seconds":N,"seeds":..,"log":..}
# Exit status: 0 = ran clean or tooling problem (ran=false => the caller records "inconclusive"),
#              3 = a real report (undefined behaviour, data race, leak, deadlock, failed assertion).
# usage: run_miri.sh <test-filter> [seeds, default $VERIF_MIRI_SEEDS or 0..4] ; VERIF_MIRI_TIMEOUT seconds (default 3000)
filter="${1:-c24_smoke}"
seeds="${2:-${VERIF_MIRI_SEEDS:-0..4}}"
tmo="${VERIF_MIRI_TIMEOUT:-3000}"
root="$(cd "$(dirname "$0")/.." && pwd)"
mkdir -p "$root/.build/logs"
log="$root/.build/logs/miri-$(echo "$filter" | tr -c 'A-Za-z0-9_\n' '_').log"
extra=""
case "$filter" in selftest*) extra="--ignored";; esac
start=$(date +%s)
cd "$root/harness" || { echo "{\"engine\":\"miri\",\"filter\":\"$filter\",\"ran\":false,\"error\":\"no harness dir\"}"; exit 0; }
MIRIFLAGS="-Zmiri-disable-isolation -Zmiri-many-seeds=$seeds" CARGO_TARGET_DIR="$root/.build/miri" \
  timeout "$tmo" cargo +nightly miri test -p vmon-miri --offline --test workloads -- "$filter" $extra >"$log" 2>&1
rc=$?
secs=$(( $(date +%s) - start ))
passed=$(grep -E '^test result:' "$log" | sed -E 's/.* ([0-9]+) passed.*/\1/' | awk '{s+=$1} END {print s+0}')
failed=$(grep -E '^test result:' "$log" | sed -E 's/.* ([0-9]+) failed.*/\1/' | awk '{s+=$1} END {print s+0}')
UBRE='error: (Undefined Behavior|memory leaked|deadlock|the evaluated program (leaked|deadlocked)|abnormal termination|post-monomorphization)'
ub=$(grep -cE "$UBRE" "$log")
unsupported=$(grep -cE 'error: unsupported operation' "$log")
started=$(grep -cE '^running [1-9][0-9]* tests?' "$log")
reports=$(( ub + failed ))
ran=false
[ "$started" -gt 0 ] && ran=true
note=""
[ "$rc" -eq 124 ] && { note="timeout after ${tmo}s"; [ "$reports" -eq 0 ] && ran=false; }
[ "$unsupported" -gt 0 ] && [ "$reports" -eq 0 ] && { note="miri: unsupported operation"; ran=false; }
[ "$ran" = false ] && [ -z "$note" ] && note="no test ran (build failure, empty filter or toolchain missing; exit $rc)"
sig=""
if [ "$reports" -gt 0 ]; then
  msg=$(grep -m1 -oE "($UBRE|panicked at).*" "$log" | sed -E 's/alloc[0-9]+/alloc/g; s/0x[0-9a-fA-F]+/ADDR/g; s/[0-9]+/N/g; s/[^A-Za-z: ]//g' | cut -c1-90 | tr ' ' '_')
  frame=$(grep -m1 -oE '/repo/[A-Za-z0-9_/.-]+\.rs' "$log" | sed 's#/repo/##')
  [ -z "$frame" ] && frame=$(grep -m1 -E '^ +--> ' "$log" | sed -E 's/^ +--> ([^:]+):.*/\1/')
  sig="${msg}|${frame}"
fi
printf '{"engine":"miri","filter":"%s","ran":%s,"passed":%s,"failed":%s,"reports":%s,"first_report_sig":"%s","seconds":%s,"seeds":"%s","note":"%s","log":"%s"}\n' \
  "$filter" "$ran" "$passed" "$failed" "$reports" "$sig" "$secs" "$seeds" "$note" "$log"
[ "$reports" -gt 0 ] && exit 3
exit 0
