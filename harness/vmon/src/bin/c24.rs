//! C24 — contexts are isolated and safe to share across threads.
//!
//! Workload: short concurrent histories.  T in 1..=16 threads x {one shared Arc<Context>,
//! one context per thread, a mixed pool} x a seeded op mix {sign with the context's signer,
//! read, add ingredient, cancel some context, build Settings values, first use of
//! `Context::signer()`, create + reconfigure a private context}.  Every context carries a
//! progress callback that sleeps a seeded 0..150 us at each checkpoint (a real suspension
//! point between the SDK's critical sections).  Contexts in one pool have *different* settings
//! profiles (trust on/off, signer algorithm, claim generator name, box-hash preference), so a
//! leak from one context into another changes a result.
//!
//! Oracle: every operation is deterministic given (inputs, profile) up to `norm_report`, so the
//! expected result is the same operation run alone on a fresh context of the same profile
//! (computed sequentially, twice, before the histories).  Cancellation is judged with a logical
//! clock (one atomic counter): an operation may end in OperationCancelled only if a cancel() on
//! *its own* context began before the operation ended; an operation that began after a cancel()
//! on its context had returned must end in OperationCancelled.  Thread-local probe: the legacy
//! thread-local settings (`Settings::to_toml()`) are snapshotted around every Settings-builder
//! op and around the whole batch of every worker.
#![allow(deprecated)]
use c2pa::{Builder, BuilderIntent, Context, Reader, Settings};
use serde_json::{json, Value};
use sha2::{Digest, Sha256};
use std::collections::BTreeMap;
use std::io::Cursor;
use std::sync::atomic::{AtomicU64, Ordering};
use std::sync::{Arc, Barrier, Mutex};
use vmon::assets::{self, Asset};
use vmon::{par, report, signers, Rng, Run};

// ---------------------------------------------------------------------------------------------
// profiles, inputs
// ---------------------------------------------------------------------------------------------

const N_PROFILES: usize = 4;

fn profile_settings(p: usize) -> String {
    let (alg, trust, compress) = match p % N_PROFILES {
        0 => ("ed25519", true, false),
        1 => ("es256", false, false),
        2 => ("ed25519", true, true),
        _ => ("es384", true, false),
    };
    // profile 3 asks for trust verification but configures no anchors (=> untrusted credential)
    let anchors = trust && p % N_PROFILES != 3;
    let mut v = json!({
        "verify": {"verify_trust": trust},
        "builder": {"thumbnail": {"enabled": false}, "claim_generator_info": {"name": format!("verif-profile-{}", p % N_PROFILES), "version": "1"}},
        "core": {"prefer_compress_manifests": compress},
        "signer": {"local": {"alg": alg, "sign_cert": String::from_utf8_lossy(&signers::cert_pem(alg)), "private_key": String::from_utf8_lossy(&signers::key_pem(alg))}}
    });
    if anchors {
        v["trust"] = json!({"trust_anchors": signers::trust_anchors_pem()});
    }
    v.to_string()
}

struct Inputs {
    /// unsigned assets to sign
    plain: Vec<Asset>,
    /// signed assets to read / use as ingredients
    signed: Vec<Asset>,
}

fn definition() -> Value {
    json!({"title": "c24", "assertions": [{"label": "org.verif.test", "data": {"k": 24}}]})
}

fn prepare_inputs() -> Inputs {
    let tiny = assets::tiny_assets();
    let pick = |n: &str| tiny.iter().find(|a| a.name == n).unwrap().clone();
    let plain = vec![pick("tiny.jpg"), pick("tiny.png"), pick("tiny.mp4"), pick("tiny.wav")];
    let mut signed = Vec::new();
    let s = json!({"builder": {"thumbnail": {"enabled": false}}}).to_string();
    for (i, a) in plain.iter().enumerate() {
        for compress in [false, true] {
            if compress && a.format == "mp4" {
                continue;
            }
            let settings = if compress { json!({"builder": {"thumbnail": {"enabled": false}}, "core": {"prefer_compress_manifests": true}}).to_string() } else { s.clone() };
            let ctx = Context::new().with_settings(settings.as_str()).expect("settings");
            let mut b = Builder::from_context(ctx).with_definition(definition()).expect("definition");
            b.set_intent(BuilderIntent::Create(c2pa::DigitalSourceType::DigitalCapture));
            let signer = signers::test_signer(if i % 2 == 0 { "ed25519" } else { "es256" });
            let mut src = Cursor::new(a.bytes.clone());
            let mut dst = Cursor::new(Vec::new());
            b.sign(signer.as_ref(), a.format, &mut src, &mut dst).expect("prepare sign");
            signed.push(Asset { name: format!("signed{}-{}", if compress { "-box" } else { "" }, a.name), format: a.format, bytes: dst.into_inner() });
        }
    }
    Inputs { plain, signed }
}

// ---------------------------------------------------------------------------------------------
// operations
// ---------------------------------------------------------------------------------------------

#[derive(Clone, Debug, PartialEq)]
enum OpK {
    Sign(usize),
    Read(usize),
    AddIngredient(usize),
    SignerFirstUse,
    Cancel(usize),
    BuildSettings(usize),
    /// private context: with_settings(profile a) then set_settings(profile b), then read input i
    Reconfigure(usize, usize, usize),
}

impl OpK {
    fn name(&self) -> &'static str {
        match self {
            OpK::Sign(_) => "sign",
            OpK::Read(_) => "read",
            OpK::AddIngredient(_) => "add_ingredient",
            OpK::SignerFirstUse => "signer_first_use",
            OpK::Cancel(_) => "cancel",
            OpK::BuildSettings(_) => "build_settings",
            OpK::Reconfigure(..) => "reconfigure",
        }
    }
    fn has_checkpoints(&self) -> bool {
        matches!(self, OpK::Sign(_) | OpK::Read(_) | OpK::AddIngredient(_))
    }
    fn key(&self, profile: usize) -> String {
        match self {
            OpK::BuildSettings(v) => format!("build_settings:{v}"),
            OpK::Reconfigure(a, b, i) => format!("reconfigure:{a}:{b}:{i}"),
            other => format!("{:?}@p{}", other, profile % N_PROFILES),
        }
    }
}

fn readback_ctx() -> Context {
    Context::new()
        .with_settings(json!({"verify": {"verify_trust": true}, "trust": {"trust_anchors": signers::trust_anchors_pem()}}).to_string().as_str())
        .expect("readback settings")
}

fn outcome_json(o: &report::Outcome) -> Value {
    json!({"state": o.state, "error": o.error, "codes": o.codes, "report": o.report})
}

fn build_settings(variant: usize) -> c2pa::Result<Value> {
    let s = match variant % 7 {
        // every kind of value Context::with_settings accepts (IntoSettings): a serde_json::Value and an
        // owned String here, &str / Settings in the other operations
        5 => Context::new().with_settings(json!({"core": {"merkle_tree_max_proofs": 17}, "verify": {"verify_after_sign": false}}))?.settings().clone(),
        6 => Context::new().with_settings(String::from("[core]\nmerkle_tree_max_proofs = 19\n[verify]\nremote_manifest_fetch = false\n"))?.settings().clone(),
        4 => {
            // settings overlaid from a file (json or toml) on top of a value set with with_value
            let dir = tempfile::tempdir().map_err(c2pa::Error::IoError)?;
            let (name, text) = if variant % 2 == 0 {
                ("s.json", r#"{"core": {"merkle_tree_max_proofs": 13}, "builder": {"thumbnail": {"long_edge": 91}}}"#.to_string())
            } else {
                ("s.toml", "[core]\nmerkle_tree_max_proofs = 13\n[builder.thumbnail]\nlong_edge = 91\n".to_string())
            };
            let p = dir.path().join(name);
            std::fs::write(&p, text).map_err(c2pa::Error::IoError)?;
            Settings::new().with_value("verify.remote_manifest_fetch", false)?.with_file(&p)?
        }
        0 => Settings::new().with_json(r#"{"verify": {"verify_trust": false, "verify_after_sign": false}, "core": {"merkle_tree_max_proofs": 11}}"#)?,
        1 => Settings::new().with_toml("[core]\nmerkle_tree_chunk_size_in_kb = 64\n[builder.thumbnail]\nenabled = false\n")?,
        2 => Settings::new().with_value("core.merkle_tree_max_proofs", 3)?.with_value("verify.remote_manifest_fetch", false)?.with_value("builder.thumbnail.long_edge", 77)?,
        _ => {
            let mut s = Settings::new().with_json(r#"{"verify": {"skip_ingredient_conflict_resolution": true, "strict_v1_validation": true}}"#)?;
            s.set_value("verify.ocsp_fetch", true)?;
            s.update_from_str(r#"{"core": {"prefer_compress_manifests": true}}"#, "json")?;
            s
        }
    };
    Ok(json!({
        "max_proofs": s.get_value::<usize>("core.merkle_tree_max_proofs")?,
        "chunk": s.get_value::<Option<usize>>("core.merkle_tree_chunk_size_in_kb")?,
        "verify_trust": s.get_value::<bool>("verify.verify_trust")?,
        "vas": s.get_value::<bool>("verify.verify_after_sign")?,
        "fetch": s.get_value::<bool>("verify.remote_manifest_fetch")?,
        "long_edge": s.get_value::<u32>("builder.thumbnail.long_edge")?,
        "thumb": s.get_value::<bool>("builder.thumbnail.enabled")?,
        "ocsp": s.get_value::<bool>("verify.ocsp_fetch")?,
        "compress": s.get_value::<bool>("core.prefer_compress_manifests")?,
    }))
}

/// Executes one operation on `ctx`; the result is a canonical JSON string or the error kind.
fn exec(op: &OpK, ctx: &Arc<Context>, inp: &Inputs) -> Result<String, String> {
    let r: c2pa::Result<Value> = (|| match op {
        OpK::Sign(i) => {
            let a = &inp.plain[*i % inp.plain.len()];
            let mut b = Builder::from_shared_context(ctx).with_definition(definition())?;
            b.set_intent(BuilderIntent::Create(c2pa::DigitalSourceType::DigitalCapture));
            let mut src = Cursor::new(a.bytes.clone());
            let mut dst = Cursor::new(Vec::new());
            let m = b.save_to_stream(a.format, &mut src, &mut dst)?;
            let out = dst.into_inner();
            let o = report::read_bytes(readback_ctx(), a.format, &out);
            // compressed (brotli) manifests contain fresh UUIDs, so their length is not reproducible
            let compressed = ctx.settings().get_value::<bool>("core.prefer_compress_manifests").unwrap_or(false);
            let lens = if compressed { json!(null) } else { json!([out.len(), m.len()]) };
            Ok(json!({"lens": lens, "readback": outcome_json(&o)}))
        }
        OpK::Read(i) => {
            let a = &inp.signed[*i % inp.signed.len()];
            let r = Reader::from_shared_context(ctx).with_stream(a.format, Cursor::new(a.bytes.clone()))?;
            Ok(outcome_json(&report::outcome_of(Ok(r))))
        }
        OpK::AddIngredient(i) => {
            let a = &inp.signed[*i % inp.signed.len()];
            let mut b = Builder::from_shared_context(ctx).with_definition(definition())?;
            let mut s = Cursor::new(a.bytes.clone());
            let ing = b.add_ingredient_from_stream(json!({"title": "ing", "relationship": "componentOf"}).to_string(), a.format, &mut s)?;
            let mut v = serde_json::to_value(&*ing).unwrap_or(Value::Null);
            if let Some(o) = v.as_object_mut() {
                o.remove("manifest_data");
                o.remove("instance_id");
            }
            Ok(report::norm_report_value(&json!({"manifests": {}, "ingredient": v})))
        }
        OpK::SignerFirstUse => {
            let s = ctx.signer()?;
            let certs = s.certs()?;
            let mut h = Sha256::new();
            for c in &certs {
                h.update(c);
            }
            Ok(json!({"alg": format!("{:?}", s.alg()), "certs": certs.len(), "cert_hash": hex::encode(h.finalize()), "reserve": s.reserve_size()}))
        }
        OpK::BuildSettings(v) => build_settings(*v),
        OpK::Reconfigure(a, b, i) => {
            let mut c = Context::new().with_settings(profile_settings(*a).as_str())?;
            c.set_settings(profile_settings(*b).as_str())?;
            let inp_a = &inp.signed[*i % inp.signed.len()];
            let r = Reader::from_context(c).with_stream(inp_a.format, Cursor::new(inp_a.bytes.clone()))?;
            Ok(outcome_json(&report::outcome_of(Ok(r))))
        }
        OpK::Cancel(_) => Ok(Value::Null),
    })();
    match r {
        Ok(v) => Ok(v.to_string()),
        Err(e) => Err(report::err_kind(&e)),
    }
}

fn make_ctx(profile: usize, sleep_seed: Option<u64>) -> Arc<Context> {
    let mut c = Context::new().with_settings(profile_settings(profile).as_str()).expect("profile settings");
    if let Some(seed) = sleep_seed {
        let n = AtomicU64::new(0);
        c = c.with_progress_callback(move |_, _, _| {
            let i = n.fetch_add(1, Ordering::Relaxed);
            let mut x = seed ^ i.wrapping_mul(0x9E37_79B9_7F4A_7C15);
            x ^= x >> 29;
            x = x.wrapping_mul(0xBF58_476D_1CE4_E5B9);
            x ^= x >> 32;
            let us = x % 150;
            if us > 0 {
                std::thread::sleep(std::time::Duration::from_micros(us));
            }
            true
        });
    }
    Arc::new(c)
}

// ---------------------------------------------------------------------------------------------
// histories
// ---------------------------------------------------------------------------------------------

#[derive(Clone, Copy, Debug, PartialEq)]
enum Share {
    Shared,
    PerThread,
    Mixed,
}

impl Share {
    fn name(&self) -> &'static str {
        match self {
            Share::Shared => "shared",
            Share::PerThread => "per-thread",
            Share::Mixed => "mixed",
        }
    }
}

#[derive(Clone, Debug)]
struct History {
    id: u64,
    threads: usize,
    share: Share,
    n_ctx: usize,
    /// per thread: (ctx index, op)
    plan: Vec<Vec<(usize, OpK)>>,
    /// odd workers first write a distinctive value into their own legacy thread-local settings
    seed: u64,
}

fn gen_history(rng: &mut Rng, id: u64, inp: &Inputs) -> History {
    let threads = match rng.below(10) {
        0 => 1,
        1..=3 => 2 + rng.usize(2),
        4..=6 => 4 + rng.usize(4),
        _ => 8 + rng.usize(9),
    }
    .min(16);
    let share = *rng.pick(&[Share::Shared, Share::PerThread, Share::Mixed]);
    let n_ctx = match share {
        Share::Shared => 2, // ctx 0 is shared by everybody; ctx 1 is a bystander that may get cancelled
        Share::PerThread => threads,
        Share::Mixed => (threads / 2).max(2),
    };
    let len = 3 + rng.usize(6);
    let cancel_weight = *rng.pick(&[0u64, 0, 1, 2]);
    let mut plan = Vec::new();
    for t in 0..threads {
        let mut ops = Vec::new();
        for j in 0..len {
            let home = match share {
                Share::Shared => {
                    if rng.chance(1, 6) {
                        1
                    } else {
                        0
                    }
                }
                Share::PerThread => t,
                Share::Mixed => rng.usize(n_ctx),
            };
            let w = rng.below(20 + cancel_weight * 2);
            let op = match w {
                0..=4 => OpK::Sign(rng.usize(inp.plain.len())),
                5..=9 => OpK::Read(rng.usize(inp.signed.len())),
                10..=13 => OpK::AddIngredient(rng.usize(inp.signed.len())),
                14..=15 => OpK::SignerFirstUse,
                16..=17 => OpK::BuildSettings(rng.usize(14)),
                18..=19 => OpK::Reconfigure(rng.usize(N_PROFILES), rng.usize(N_PROFILES), rng.usize(inp.signed.len())),
                _ => OpK::Cancel(rng.usize(n_ctx)),
            };
            // the very first op of a history races the lazily created signer on purpose
            let op = if j == 0 && rng.chance(1, 2) {
                if rng.bool() {
                    OpK::SignerFirstUse
                } else {
                    OpK::Sign(rng.usize(inp.plain.len()))
                }
            } else {
                op
            };
            let ctx = if let OpK::Cancel(c) = op { c } else { home };
            ops.push((ctx, op));
        }
        plan.push(ops);
    }
    History { id, threads, share, n_ctx, plan, seed: rng.next_u64() }
}

#[derive(Clone, Debug)]
struct OpLog {
    thread: usize,
    idx: usize,
    ctx: usize,
    op: OpK,
    start: u64,
    end: u64,
    result: Result<String, String>,
    tls_changed: bool,
}

struct HistOut {
    logs: Vec<OpLog>,
    /// (ctx, begin, end)
    cancels: Vec<(usize, u64, u64)>,
    /// per worker: legacy thread-local settings differ between start and end of the batch
    batch_tls_changed: Vec<bool>,
    tls_marker_kept: Vec<bool>,
}

fn run_history(h: &History, inp: &Inputs) -> HistOut {
    let clock = AtomicU64::new(1);
    let ctxs: Vec<Arc<Context>> = (0..h.n_ctx).map(|i| make_ctx(i, Some(h.seed ^ (i as u64) << 20))).collect();
    let logs: Mutex<Vec<OpLog>> = Mutex::new(Vec::new());
    let cancels: Mutex<Vec<(usize, u64, u64)>> = Mutex::new(Vec::new());
    let batch: Mutex<Vec<(usize, bool, bool)>> = Mutex::new(Vec::new());
    let barrier = Barrier::new(h.threads);
    std::thread::scope(|s| {
        for t in 0..h.threads {
            let (ctxs, logs, cancels, batch, barrier, clock) = (&ctxs, &logs, &cancels, &batch, &barrier, &clock);
            let plan = &h.plan[t];
            s.spawn(move || {
                // legacy thread-local settings of this worker: odd workers own a distinctive value
                let marker = 20 + t;
                if t % 2 == 1 {
                    let _ = Settings::from_string(&json!({"core": {"merkle_tree_max_proofs": marker}}).to_string(), "json");
                }
                let tls0 = Settings::to_toml().unwrap_or_default();
                barrier.wait();
                let mut local = Vec::new();
                for (idx, (c, op)) in plan.iter().enumerate() {
                    let ctx = &ctxs[*c];
                    let before = if matches!(op, OpK::BuildSettings(_)) { Some(Settings::to_toml().unwrap_or_default()) } else { None };
                    let start = clock.fetch_add(1, Ordering::SeqCst);
                    let result = if let OpK::Cancel(_) = op {
                        ctx.cancel();
                        Ok("null".to_string())
                    } else {
                        match report::catch_sdk(|| exec(op, ctx, inp)) {
                            Ok(r) => r,
                            Err(p) => Err(format!("Panic: {p}")),
                        }
                    };
                    let end = clock.fetch_add(1, Ordering::SeqCst);
                    if let OpK::Cancel(_) = op {
                        cancels.lock().unwrap().push((*c, start, end));
                    }
                    let tls_changed = before.map(|b| b != Settings::to_toml().unwrap_or_default()).unwrap_or(false);
                    local.push(OpLog { thread: t, idx, ctx: *c, op: op.clone(), start, end, result, tls_changed });
                }
                let tls1 = Settings::to_toml().unwrap_or_default();
                let kept = if t % 2 == 1 { tls1.contains(&format!("merkle_tree_max_proofs = {marker}")) } else { true };
                batch.lock().unwrap().push((t, tls0 != tls1, kept));
                logs.lock().unwrap().extend(local);
            });
        }
    });
    let mut b = batch.into_inner().unwrap();
    b.sort();
    HistOut { logs: logs.into_inner().unwrap(), cancels: cancels.into_inner().unwrap(), batch_tls_changed: b.iter().map(|x| x.1).collect(), tls_marker_kept: b.iter().map(|x| x.2).collect() }
}

fn first_diff(a: &Value, b: &Value, path: String) -> Option<String> {
    match (a, b) {
        (Value::Object(x), Value::Object(y)) => {
            for (k, v) in x {
                match y.get(k) {
                    None => return Some(format!("{path}/{k} missing")),
                    Some(w) => {
                        if let Some(d) = first_diff(v, w, format!("{path}/{k}")) {
                            return Some(d);
                        }
                    }
                }
            }
            for k in y.keys() {
                if !x.contains_key(k) {
                    return Some(format!("{path}/{k} extra"));
                }
            }
            None
        }
        (Value::Array(x), Value::Array(y)) => {
            if x.len() != y.len() {
                return Some(format!("{path} length {} vs {}", x.len(), y.len()));
            }
            for (i, (v, w)) in x.iter().zip(y).enumerate() {
                if let Some(d) = first_diff(v, w, format!("{path}/{i}")) {
                    return Some(d);
                }
            }
            None
        }
        _ if a == b => None,
        _ => Some(format!("{path}: {} vs {}", a.to_string().chars().take(80).collect::<String>(), b.to_string().chars().take(80).collect::<String>())),
    }
}

fn tbucket(t: usize) -> &'static str {
    match t {
        1 => "T1",
        2..=3 => "T2-3",
        4..=7 => "T4-7",
        _ => "T8-16",
    }
}

fn history_json(h: &History) -> Value {
    json!({"id": h.id, "threads": h.threads, "share": h.share.name(), "contexts": h.n_ctx, "seed": h.seed.to_string(),
        "plan": h.plan.iter().map(|ops| ops.iter().map(|(c, o)| json!([c, format!("{o:?}")])).collect::<Vec<_>>()).collect::<Vec<_>>()})
}

struct Judged {
    classes: Vec<String>,
    violations: Vec<(String, String, Value)>,
    counters: Vec<(String, u64)>,
    unjudged: Vec<String>,
}

fn judge(h: &History, out: &HistOut, expected: &BTreeMap<String, Result<String, String>>, nondet: &std::collections::BTreeSet<String>) -> Judged {
    let mut j = Judged { classes: vec![], violations: vec![], counters: vec![], unjudged: vec![] };
    let hj = history_json(h);
    for l in &out.logs {
        if let OpK::Cancel(_) = l.op {
            j.classes.push(format!("cancel|{}|{}", h.share.name(), tbucket(h.threads)));
            continue;
        }
        let key = l.op.key(l.ctx);
        if nondet.contains(&key) {
            j.unjudged.push(format!("sequential-reference-not-deterministic:{}", l.op.name()));
            continue;
        }
        let exp = expected.get(&key);
        let own_ctx_op = !matches!(l.op, OpK::BuildSettings(_) | OpK::Reconfigure(..));
        let cancel_begun_before_end = own_ctx_op && out.cancels.iter().any(|(c, b, _)| *c == l.ctx && *b < l.end);
        let cancel_done_before_start = own_ctx_op && out.cancels.iter().any(|(c, _, e)| *c == l.ctx && *e < l.start);
        let concurrent_others = out.logs.iter().filter(|o| o.thread != l.thread && o.start < l.end && o.end > l.start).count();
        let overlap = if concurrent_others > 0 { "overlapped" } else { "alone" };
        let mk = |defect: &str| format!("{}|{}|{}", l.op.name(), if h.share == Share::PerThread { "distinct" } else { "shared" }, defect);
        let wit = |extra: Value| json!({"history": hj, "thread": l.thread, "index": l.idx, "ctx": l.ctx, "op": format!("{:?}", l.op), "detail": extra});
        let verdict: &str;
        match &l.result {
            Err(k) if k == "OperationCancelled" => {
                if cancel_begun_before_end {
                    verdict = "cancelled-own-context";
                } else {
                    verdict = "cancel-leak";
                    let others: Vec<usize> = out.cancels.iter().filter(|(c, b, _)| *c != l.ctx && *b < l.end).map(|x| x.0).collect();
                    j.violations.push((mk("cancelled-without-own-cancel"), format!("{} on context {} ended in OperationCancelled but no cancel() on that context began before it ended (cancels on other contexts: {:?})", l.op.name(), l.ctx, others), wit(json!({"cancels": out.cancels}))));
                }
            }
            Err(k) if k.starts_with("Panic") => {
                verdict = "panic";
                j.violations.push((mk("panic"), format!("{} panicked: {}", l.op.name(), k), wit(json!({}))));
            }
            r => {
                if cancel_done_before_start && l.op.has_checkpoints() {
                    verdict = "cancel-lost";
                    j.violations.push((mk("cancel-lost"), format!("{} began after cancel() on its context {} had returned but ended {:?}", l.op.name(), l.ctx, r.as_ref().map(|_| "Ok").map_err(|e| e.clone())), wit(json!({"cancels": out.cancels}))));
                } else if Some(r) == exp {
                    verdict = "equals-sequential";
                } else {
                    verdict = "differs";
                    let d = match (r, exp) {
                        (Ok(a), Some(Ok(b))) => first_diff(&serde_json::from_str(b).unwrap_or(Value::Null), &serde_json::from_str(a).unwrap_or(Value::Null), String::new()).unwrap_or_default(),
                        (a, b) => format!("{:?} vs expected {:?}", a.as_ref().map(|_| "Ok").map_err(|e| e.clone()), b.map(|x| x.as_ref().map(|_| "Ok").map_err(|e| e.clone()))),
                    };
                    j.violations.push((mk("result-differs-from-sequential"), format!("{} on context {} (profile {}) with {} overlapping ops: first difference (expected vs got) {}", l.op.name(), l.ctx, l.ctx % N_PROFILES, concurrent_others, d), wit(json!({"diff": d}))));
                }
            }
        }
        if l.tls_changed {
            j.violations.push(("build_settings|tls-changed".into(), format!("Settings builder variant {:?} changed the legacy thread-local settings of worker {}", l.op, l.thread), wit(json!({}))));
        }
        j.classes.push(format!("{}|{}|{}|{}|{}", l.op.name(), h.share.name(), tbucket(h.threads), overlap, verdict));
    }
    for (t, ch) in out.batch_tls_changed.iter().enumerate() {
        if *ch || !out.tls_marker_kept[t] {
            j.violations.push(("worker|tls-changed-over-batch".into(), format!("legacy thread-local settings of worker {t} differ between start and end of its batch"), json!({"history": hj, "thread": t})));
        }
    }
    j.counters.push(("tls_snapshots".into(), out.batch_tls_changed.len() as u64 * 2));
    j.counters.push(("ops".into(), out.logs.len() as u64));
    j.counters.push(("cancels".into(), out.cancels.len() as u64));
    j
}

type EngineHandle = std::thread::JoinHandle<Result<std::process::Output, String>>;

/// Starts tools/run_miri.sh or tools/run_tsan.sh in the background (they use their own target dirs).
fn spawn_engine(script: &str, filter: &str, envs: Vec<(&'static str, String)>) -> EngineHandle {
    let path = vmon::evidence::verif_root().join("tools").join(script);
    let filter = filter.to_string();
    std::thread::spawn(move || {
        if !path.exists() {
            return Err(format!("{} missing", path.display()));
        }
        let mut c = std::process::Command::new(&path);
        c.arg(&filter);
        for (k, v) in envs {
            if std::env::var(k).is_err() {
                c.env(k, v);
            }
        }
        c.output().map_err(|e| e.to_string())
    })
}

/// Records the one-line JSON result of an engine script: clean => non-trivial observation,
/// report => violation, anything else (tool missing, build failure, timeout) => inconclusive.
fn record_engine(run: &mut Run, name: &str, filter: &str, h: EngineHandle) {
    match h.join().unwrap_or_else(|_| Err("engine thread panicked".into())) {
        Ok(o) => {
            let text = String::from_utf8_lossy(&o.stdout).to_string();
            let last = text.lines().rev().find(|l| l.trim_start().starts_with('{')).unwrap_or("{}");
            let v: Value = serde_json::from_str(last).unwrap_or(json!({"unparsed": last}));
            let ran = v["ran"].as_bool().unwrap_or(false);
            let reports = v["reports"].as_u64().unwrap_or(0);
            run.engine(name, ran, v.clone());
            if reports > 0 {
                let sig = format!("{name}|{}", v["first_report_sig"].as_str().unwrap_or("report"));
                run.violation(&sig, &format!("{name} reported {reports} problem(s) on workload filter {filter} (log {})", v["log"]), json!({"engine": name, "result": v}));
            } else if !ran {
                run.inconclusive(format!("{name} engine did not run ({filter}): {}", v["note"]));
            } else {
                run.nontrivial(format!("engine|{name}|clean|{filter}"));
                run.count(&format!("{name}_tests_passed"), v["passed"].as_u64().unwrap_or(0));
            }
        }
        Err(e) => {
            run.engine(name, false, json!({"error": e}));
            run.inconclusive(format!("{name}: cannot run engine script: {e}"));
        }
    }
}

fn main() {
    let mut run = Run::from_args("C24", "exploration");
    report::quiet_panics();
    run.rule = "seeded concurrent histories: T in 1..=16 threads x {shared Arc<Context>, per-thread contexts, mixed pool} x 3..8 ops per thread from {sign, read, add ingredient, first use of Context::signer(), cancel a context, Settings builder calls, create+reconfigure a private context}; contexts of one pool have different settings profiles and sleep 0..150us inside every progress callback. Non-trivial+distinct = (op, sharing mode, thread bucket, overlapped-or-alone, verdict).".into();
    run.assumptions = vec![
        "expected result of an op = the same op run alone on a fresh context with the same settings profile (computed twice; ops whose sequential result is not reproducible are reported unjudged)".into(),
        "results are compared after report::norm_report (UUIDs / manifest labels canonicalised) and, for sign, on the read-back of the signed output with a fixed trusted context".into(),
        "logical clock: an op may end in OperationCancelled only if a cancel() on its own context began before it ended; an op that began after such a cancel() had returned must end in OperationCancelled".into(),
        "sanitizer engines (Miri, TSan) run a reduced workload from the vmon-miri crate on the C-free build; tooling failures are inconclusive".into(),
    ];
    let inp = prepare_inputs();

    // replay of one recorded history
    let replay_history: Option<History> = run.replay.clone().map(|p| {
        let v: Value = serde_json::from_slice(&std::fs::read(&p).expect("replay file")).expect("json");
        let hv = &v["witness"]["history"];
        let parse_op = |s: &str| -> OpK {
            let nums: Vec<usize> = s.split(|c: char| !c.is_ascii_digit()).filter(|x| !x.is_empty()).map(|x| x.parse().unwrap_or(0)).collect();
            let g = |i: usize| nums.get(i).copied().unwrap_or(0);
            if s.starts_with("Sign(") {
                OpK::Sign(g(0))
            } else if s.starts_with("Read") {
                OpK::Read(g(0))
            } else if s.starts_with("AddIngredient") {
                OpK::AddIngredient(g(0))
            } else if s.starts_with("SignerFirstUse") {
                OpK::SignerFirstUse
            } else if s.starts_with("Cancel") {
                OpK::Cancel(g(0))
            } else if s.starts_with("BuildSettings") {
                OpK::BuildSettings(g(0))
            } else {
                OpK::Reconfigure(g(0), g(1), g(2))
            }
        };
        History {
            id: hv["id"].as_u64().unwrap_or(0),
            threads: hv["threads"].as_u64().unwrap_or(1) as usize,
            share: match hv["share"].as_str().unwrap_or("") {
                "shared" => Share::Shared,
                "per-thread" => Share::PerThread,
                _ => Share::Mixed,
            },
            n_ctx: hv["contexts"].as_u64().unwrap_or(1) as usize,
            plan: hv["plan"].as_array().map(|a| a.iter().map(|ops| ops.as_array().map(|o| o.iter().map(|x| (x[0].as_u64().unwrap_or(0) as usize, parse_op(x[1].as_str().unwrap_or("")))).collect()).unwrap_or_default()).collect()).unwrap_or_default(),
            seed: hv["seed"].as_str().and_then(|s| s.parse().ok()).unwrap_or(0),
        }
    });

    // histories
    let n_hist = run.tier.pick(200usize, 3000usize);
    let mut rng = Rng::new(run.seed, "c24");
    let mut hists: Vec<History> = (0..n_hist).map(|i| gen_history(&mut rng, i as u64, &inp)).collect();
    if let Some(h) = replay_history.clone() {
        hists = (0..20).map(|_| h.clone()).collect();
    }

    // sequential reference for every (op, profile) that occurs, computed twice
    let mut keys: BTreeMap<String, (OpK, usize)> = BTreeMap::new();
    for h in &hists {
        for ops in &h.plan {
            for (c, op) in ops {
                if !matches!(op, OpK::Cancel(_)) {
                    keys.entry(op.key(*c)).or_insert((op.clone(), *c % N_PROFILES));
                }
            }
        }
    }
    let klist: Vec<(String, (OpK, usize))> = keys.into_iter().collect();
    let refs = par::par_map(klist.len(), |i| {
        let (_, (op, p)) = &klist[i];
        let a = exec(op, &make_ctx(*p, None), &inp);
        let b = exec(op, &make_ctx(*p, None), &inp);
        (a, b)
    });
    let mut expected: BTreeMap<String, Result<String, String>> = BTreeMap::new();
    let mut nondet = std::collections::BTreeSet::new();
    for ((k, (op, _)), (a, b)) in klist.iter().zip(refs) {
        run.eval();
        if a != b {
            nondet.insert(k.clone());
            run.count("sequential_reference_not_deterministic", 1);
            println!("NOTE: property=C24 sequential reference of {k} is not reproducible; unjudged");
        } else {
            if let Err(e) = &a {
                run.count(&format!("sequential_reference_err:{}", op.name()), 1);
                println!("NOTE: property=C24 sequential reference of {k} is an error: {e}");
            }
            run.sample("sequential-reference", 2, json!({"key": k, "result": a.as_ref().map(|s| s.chars().take(300).collect::<String>())}));
            expected.insert(k.clone(), a);
        }
    }
    run.set("sequential_references", json!(expected.len()));
    // distinct contexts must be distinguishable: the same read on different profiles gives different results
    let probe_diff = (0..N_PROFILES).map(|p| exec(&OpK::Read(0), &make_ctx(p, None), &inp)).collect::<std::collections::BTreeSet<_>>().len();
    run.set("distinct_read_results_across_profiles", json!(probe_diff));

    // sanitizer engines on the C-free build (vmon-miri crate) run beside the histories
    let mut engines: Vec<(&'static str, &'static str, EngineHandle)> = Vec::new();
    if std::env::var("VERIF_NO_ENGINES").is_err() && replay_history.is_none() {
        if run.quick() {
            engines.push(("miri", "c24_smoke", spawn_engine("run_miri.sh", "c24_smoke", vec![("VERIF_MIRI_SEEDS", "0..1".into()), ("VERIF_MIRI_TIMEOUT", "600".into())])));
        } else {
            engines.push(("miri", "c24", spawn_engine("run_miri.sh", "c24", vec![("VERIF_MIRI_SEEDS", "0..8".into()), ("VERIF_MIRI_TIMEOUT", "7200".into())])));
            engines.push(("tsan", "c24", spawn_engine("run_tsan.sh", "c24", vec![("VERIF_TSAN_REPEATS", "10".into())])));
        }
    }

    // concurrent histories; outer parallelism kept low because every history spawns its own threads
    let outer = (par::workers() / 4).max(1);
    let next = std::sync::atomic::AtomicUsize::new(0);
    let results: Mutex<Vec<(usize, Judged)>> = Mutex::new(Vec::new());
    std::thread::scope(|s| {
        for _ in 0..outer {
            s.spawn(|| loop {
                let i = next.fetch_add(1, Ordering::SeqCst);
                if i >= hists.len() {
                    break;
                }
                let out = run_history(&hists[i], &inp);
                let j = judge(&hists[i], &out, &expected, &nondet);
                results.lock().unwrap().push((i, j));
            });
        }
    });
    let mut results = results.into_inner().unwrap();
    results.sort_by_key(|x| x.0);
    let mut unj: BTreeMap<String, u64> = BTreeMap::new();
    for (i, j) in results {
        run.eval();
        for c in j.classes {
            run.nontrivial(c);
        }
        for (k, n) in j.counters {
            run.count(&k, n);
        }
        for u in j.unjudged {
            *unj.entry(u).or_insert(0) += 1;
        }
        run.sample(&format!("history:{}", hists[i].share.name()), 1, history_json(&hists[i]));
        for (sig, what, w) in j.violations {
            run.violation(&sig, &what, w);
        }
    }
    run.set("histories", json!(hists.len()));
    run.set("unjudged", json!(unj));
    run.engine("release", true, json!({"outer_parallelism": outer}));
    if replay_history.is_some() {
        let v = run.violation_count();
        println!("replay: 20 repetitions, {} violation signature(s)", v);
        std::process::exit(if v > 0 { 1 } else { 0 });
    }

    for (name, filter, h) in engines {
        record_engine(&mut run, name, filter, h);
    }
    run.finish(25);
}
