//! C05 — signer trust decisions follow the configured trust policy.
//!
//! Workload: generated X.509 hierarchies (depth 0–3, RSA/EC/Ed25519 keys per level, one structural
//! mutation per chain, EKU class on the end entity), embedded in a real manifest through the
//! direct-COSE signer, read back through the public Reader under a systematic set of trust settings
//! (trust_anchors / user_anchors / both, allow list by PEM or by hash, trust_config EKUs,
//! verify_trust on/off), plus the public `CertificateTrustPolicy` API in normal and
//! trust-anchors-only mode.
//!
//! Oracle (from the statement, no SDK code): trusted <=> EE on the allow list (SHA-256 of its DER,
//! computed here)  OR  ( `openssl verify -x509_strict -partial_chain -untrusted <x5chain[1..]>
//! -CAfile <system ∪ user anchors> ee.pem` (OpenSSL CLI, separate process)  AND  EE EKU accepted:
//! EKU present, no anyEKU, one OID in {emailProtection, documentSigning} ∪ trust_config ).
//! No time-stamp is embedded, so the signing time is "now" and the CLI checks validity now.
use c2pa::crypto::cose::{CertificateTrustPolicy, TrustAnchorType};
use c2pa::Context;
use serde_json::{json, Value};
use std::collections::{BTreeMap, BTreeSet, HashMap};
use std::sync::Arc;
use vmon::cose_direct::{sign_asset, DirectCoseSigner};
use vmon::pki::{self, ku, oids, Cert, CertSpec, Ext, Key, KeyKind, Name, VerifyArgs, DAY};
use vmon::{assets, par, report, Rng, Run};

const CUSTOM_X: &str = "1.3.6.1.4.1.57264.77.1";
const CUSTOM_Y: &str = "1.3.6.1.4.1.57264.77.2";
const KINDS: &[KeyKind] = &[KeyKind::P256, KeyKind::Ed25519, KeyKind::P384, KeyKind::Rsa2048];

#[derive(Clone, Copy, Debug, PartialEq, Eq, PartialOrd, Ord)]
enum Eku {
    Email,
    DocSign,
    EmailPlusClientAuth,
    CustomX,
    CustomXPlusServerAuth,
    None,
    ServerAuthOnly,
    AnyPlusEmail,
}

impl Eku {
    fn name(&self) -> &'static str {
        match self {
            Eku::Email => "emailProtection",
            Eku::DocSign => "documentSigning",
            Eku::EmailPlusClientAuth => "emailProtection+clientAuth",
            Eku::CustomX => "customX",
            Eku::CustomXPlusServerAuth => "customX+serverAuth",
            Eku::None => "none",
            Eku::ServerAuthOnly => "serverAuth-only",
            Eku::AnyPlusEmail => "anyEKU+emailProtection",
        }
    }
    fn oids(&self) -> Option<Vec<&'static str>> {
        Some(match self {
            Eku::Email => vec![oids::EKU_EMAIL_PROTECTION],
            Eku::DocSign => vec![oids::EKU_DOCUMENT_SIGNING],
            Eku::EmailPlusClientAuth => vec![oids::EKU_CLIENT_AUTH, oids::EKU_EMAIL_PROTECTION],
            Eku::CustomX => vec![CUSTOM_X],
            Eku::CustomXPlusServerAuth => vec![oids::EKU_SERVER_AUTH, CUSTOM_X],
            Eku::None => return None,
            Eku::ServerAuthOnly => vec![oids::EKU_SERVER_AUTH],
            Eku::AnyPlusEmail => vec![oids::EKU_ANY, oids::EKU_EMAIL_PROTECTION],
        })
    }
    /// Reference EKU rule: accepted set = {emailProtection, documentSigning} ∪ configured OIDs.
    fn accepted(&self, configured: &[String]) -> bool {
        let Some(list) = self.oids() else { return false };
        if list.contains(&oids::EKU_ANY) {
            return false;
        }
        list.iter().any(|o| *o == oids::EKU_EMAIL_PROTECTION || *o == oids::EKU_DOCUMENT_SIGNING || configured.iter().any(|c| c == o))
    }
    /// Does the certificate satisfy the profile's EKU rules when `configured` is in force? (decides
    /// whether state Trusted can be demanded, not whether the trust codes are right)
    fn profile_ok(&self, configured: &[String]) -> bool {
        self.accepted(configured)
    }
}

#[derive(Clone, Copy, Debug, PartialEq, Eq, PartialOrd, Ord)]
enum Shape {
    Ok,
    X5MissingIntermediate,
    X5Reversed,
    X5Shuffled,
    X5Duplicated,
    X5PlusRoot,
    X5PlusUnrelated,
    X5EeOnly,
    EeWrongIssuerName,
    EeWrongAki,
    EeBadSignature,
    InterNotCa,
    InterNoBasicConstraints,
    InterNoKeyCertSign,
    PathLenExceeded,
    InterWrongIssuerName,
    InterBadSignature,
    InterExpired,
    InterNotYetValid,
    RootExpired,
    EeExpired,
}

const SHAPES: &[Shape] = &[
    Shape::Ok,
    Shape::X5MissingIntermediate,
    Shape::X5Reversed,
    Shape::X5Shuffled,
    Shape::X5Duplicated,
    Shape::X5PlusRoot,
    Shape::X5PlusUnrelated,
    Shape::X5EeOnly,
    Shape::EeWrongIssuerName,
    Shape::EeWrongAki,
    Shape::EeBadSignature,
    Shape::InterNotCa,
    Shape::InterNoBasicConstraints,
    Shape::InterNoKeyCertSign,
    Shape::PathLenExceeded,
    Shape::InterWrongIssuerName,
    Shape::InterBadSignature,
    Shape::InterExpired,
    Shape::InterNotYetValid,
    Shape::RootExpired,
    Shape::EeExpired,
];

impl Shape {
    fn name(&self) -> String {
        format!("{self:?}")
    }
    fn needs_intermediate(&self) -> bool {
        matches!(
            self,
            Shape::X5MissingIntermediate
                | Shape::InterNotCa
                | Shape::InterNoBasicConstraints
                | Shape::InterNoKeyCertSign
                | Shape::PathLenExceeded
                | Shape::InterWrongIssuerName
                | Shape::InterBadSignature
                | Shape::InterExpired
                | Shape::InterNotYetValid
        )
    }
    fn is_validity(&self) -> bool {
        matches!(self, Shape::InterExpired | Shape::InterNotYetValid | Shape::RootExpired | Shape::EeExpired)
    }
}

#[derive(Clone, Debug)]
struct ChainParams {
    idx: usize,
    depth: usize,
    /// key kind per CA level (root first) then EE
    kinds: Vec<KeyKind>,
    shape: Shape,
    eku: Eku,
    /// which intermediate (1-based level) the mutation targets
    target: usize,
    seed: u64,
}

struct Chain {
    p: ChainParams,
    /// CA certificates, root first
    cas: Vec<Cert>,
    ee: Cert,
    ee_key: Arc<Key>,
    /// x5chain after the EE
    x5rest: Vec<Vec<u8>>,
    unrelated_root: Cert,
    unrelated_ee: Cert,
}

fn gen_params(i: usize, rng: &mut Rng) -> ChainParams {
    let shape = SHAPES[i % SHAPES.len()];
    let mut depth = match (i / SHAPES.len()) % 4 {
        0 => 2,
        1 => 1,
        2 => 3,
        _ => rng.usize(4),
    };
    if shape.needs_intermediate() && depth < 2 {
        depth = 2 + rng.usize(2);
    }
    if matches!(shape, Shape::RootExpired | Shape::X5PlusRoot | Shape::EeWrongIssuerName | Shape::EeWrongAki | Shape::EeBadSignature) && depth == 0 {
        depth = 1;
    }
    let kinds: Vec<KeyKind> = (0..=depth).map(|_| *rng.pick(KINDS)).collect();
    let eku = match rng.usize(12) {
        0 | 1 | 2 | 3 => Eku::Email,
        4 => Eku::DocSign,
        5 => Eku::EmailPlusClientAuth,
        6 | 7 => Eku::CustomX,
        8 => Eku::CustomXPlusServerAuth,
        9 => Eku::None,
        10 => Eku::ServerAuthOnly,
        _ => Eku::AnyPlusEmail,
    };
    // rounds 0 and 1 are directed (independent of the seed): every shape with an accepted and with an
    // unaccepted EKU, so that every finding reproduces on every run
    let eku = match i / SHAPES.len() {
        0 => Eku::Email,
        1 => Eku::ServerAuthOnly,
        _ => eku,
    };
    let target = if depth >= 2 { 1 + rng.usize(depth - 1) } else { 0 };
    ChainParams { idx: i, depth, kinds, shape, eku, target, seed: rng.next_u64() }
}

fn build_chain(p: &ChainParams) -> Chain {
    let now = pki::now_unix();
    let tag = format!("c05-{}", p.idx);
    let mut rng = Rng::new(p.seed, "c05-build");
    // keys: slot = level for CAs, 50 for EE, 60.. for unrelated
    let ca_keys: Vec<Arc<Key>> = (0..p.depth).map(|l| Key::pooled(p.kinds[l], l)).collect();
    let ee_key = Key::pooled(p.kinds[p.depth], 50);
    let unrelated_key = Key::pooled(KeyKind::P256, 60);
    let unrelated_ee_key = Key::pooled(KeyKind::Ed25519, 61);
    let stray_key = Key::pooled(KeyKind::P256, 62);

    let mut cas: Vec<Cert> = Vec::new();
    for l in 0..p.depth {
        let below = (p.depth - 1 - l) as u32; // CA levels below this one
        let mut spec = CertSpec::ca(&format!("{tag} L{l} {}", p.kinds[l].name()), None);
        // half of the chains carry an exact pathLen
        if p.seed & 1 == 0 {
            spec.set_ext(Ext::BasicConstraints { critical: true, ca: true, path_len: Some(below) });
        }
        let targeted = l == p.target && l >= 1;
        match p.shape {
            Shape::PathLenExceeded if l == 0 => {
                spec.set_ext(Ext::BasicConstraints { critical: true, ca: true, path_len: Some(below.saturating_sub(1)) });
            }
            Shape::RootExpired if l == 0 => {
                spec.not_before = now - 4000 * DAY;
                spec.not_after = now - 10 * DAY;
            }
            Shape::InterNotCa if targeted => {
                spec.set_ext(Ext::BasicConstraints { critical: true, ca: false, path_len: None });
            }
            Shape::InterNoBasicConstraints if targeted => {
                spec.without_bc();
            }
            Shape::InterNoKeyCertSign if targeted => {
                spec.set_ext(Ext::key_usage(&[ku::DIGITAL_SIGNATURE, ku::CRL_SIGN]));
            }
            Shape::InterExpired if targeted => {
                spec.not_before = now - 400 * DAY;
                spec.not_after = now - 3 * DAY;
            }
            Shape::InterNotYetValid if targeted => {
                spec.not_before = now + 3 * DAY;
                spec.not_after = now + 400 * DAY;
            }
            Shape::InterWrongIssuerName if targeted => {
                spec.issuer = Some(Name::simple("Verif Test PKI", &format!("{tag} no such issuer")));
            }
            _ => {}
        }
        let cert = if l == 0 {
            pki::issue(&spec, &ca_keys[0], None)
        } else if p.shape == Shape::InterBadSignature && targeted {
            // names and key ids chain to the real parent, but the signature is made with a stray key
            let parent = &cas[l - 1];
            let mut s2 = spec.clone();
            s2.set_ext(Ext::Aki(Some(ca_keys[l - 1].key_id())));
            s2.issuer = Some(parent.spec.subject.clone());
            s2.sig_alg = pki::SigAlg::Auto;
            let tbs_signer = Key::pooled(p.kinds[l - 1], 63); // same kind as the parent → same algorithm id
            pki::issue(&s2, &ca_keys[l], Some((parent, &tbs_signer)))
        } else {
            pki::issue(&spec, &ca_keys[l], Some((&cas[l - 1], &ca_keys[l - 1])))
        };
        cas.push(cert);
    }

    // end entity
    let mut spec = CertSpec::ee(&format!("{tag} signer"));
    match p.eku.oids() {
        Some(list) => {
            spec.set_ext(Ext::eku(&list));
        }
        None => {
            spec.without_eku();
        }
    }
    if p.shape == Shape::EeExpired {
        spec.not_before = now - 300 * DAY;
        spec.not_after = now - 2 * DAY;
    }
    let ee = if p.depth == 0 {
        // depth 0: a self-signed end entity, or one whose issuer is not supplied anywhere
        if p.seed & 2 == 0 {
            pki::issue(&spec, &ee_key, None)
        } else {
            let ghost_key = Key::pooled(KeyKind::P384, 64);
            let ghost = pki::issue(&CertSpec::ca(&format!("{tag} ghost CA"), None), &ghost_key, None);
            pki::issue(&spec, &ee_key, Some((&ghost, &ghost_key)))
        }
    } else {
        let parent = &cas[p.depth - 1];
        let pk = &ca_keys[p.depth - 1];
        match p.shape {
            Shape::EeWrongIssuerName => {
                spec.issuer = Some(Name::simple("Verif Test PKI", &format!("{tag} somebody else")));
                pki::issue(&spec, &ee_key, Some((parent, pk)))
            }
            Shape::EeWrongAki => {
                spec.set_ext(Ext::Aki(Some(stray_key.key_id())));
                pki::issue(&spec, &ee_key, Some((parent, pk)))
            }
            Shape::EeBadSignature => {
                spec.set_ext(Ext::Aki(Some(pk.key_id())));
                spec.issuer = Some(parent.spec.subject.clone());
                let wrong = Key::pooled(p.kinds[p.depth - 1], 63);
                pki::issue(&spec, &ee_key, Some((parent, &wrong)))
            }
            _ => pki::issue(&spec, &ee_key, Some((parent, pk))),
        }
    };

    let unrelated_root = pki::issue(&CertSpec::ca(&format!("{tag} unrelated root"), None), &unrelated_key, None);
    let unrelated_ee = pki::issue(&CertSpec::ee(&format!("{tag} unrelated signer")), &unrelated_ee_key, Some((&unrelated_root, &unrelated_key)));

    // x5chain after the EE: intermediates, nearest issuer first (root normally omitted)
    let mut inter: Vec<Vec<u8>> = (1..p.depth).rev().map(|l| cas[l].der.clone()).collect();
    match p.shape {
        Shape::X5MissingIntermediate => {
            // drop the targeted intermediate
            let der = cas[p.target].der.clone();
            inter.retain(|d| *d != der);
        }
        Shape::X5Reversed => inter.reverse(),
        Shape::X5Shuffled => {
            if let Some(r) = cas.first() {
                inter.push(r.der.clone());
            }
            rng.shuffle(&mut inter);
        }
        Shape::X5Duplicated => {
            let mut d = inter.clone();
            inter.append(&mut d);
            inter.push(ee.der.clone());
        }
        Shape::X5PlusRoot => {
            if let Some(r) = cas.first() {
                inter.push(r.der.clone());
            }
        }
        Shape::X5PlusUnrelated => {
            inter.insert(0, unrelated_root.der.clone());
            inter.push(unrelated_ee.der.clone());
        }
        Shape::X5EeOnly => inter.clear(),
        _ => {}
    }
    Chain { p: p.clone(), cas, ee, ee_key, x5rest: inter, unrelated_root, unrelated_ee }
}

#[derive(Clone, Debug, PartialEq)]
enum Allow {
    None,
    PemEe,
    HashEe,
    /// hash of the EE among junk: comment line, other hash, other PEM
    HashEeAmongOthers,
    /// PEM of the EE's issuer / root (must not turn it into an anchor)
    PemIssuer,
    PemUnrelatedEe,
    HashUnrelatedEe,
    /// a hash that agrees with the EE's on the first 24 bytes only
    HashEeCommonPrefix,
}

#[derive(Clone, Debug)]
struct Setting {
    name: String,
    sys: Vec<String>,  // anchor names
    user: Vec<String>, // anchor names
    allow: Allow,
    /// configured extra EKU OIDs
    ekus: Vec<String>,
    verify_trust: bool,
}

fn anchor_by_name(c: &Chain, name: &str) -> Option<Vec<u8>> {
    match name {
        "root" => c.cas.first().map(|x| x.der.clone()),
        "issuer" => c.cas.last().map(|x| x.der.clone()),
        "target" => c.cas.get(c.p.target).filter(|_| c.p.target >= 1).map(|x| x.der.clone()),
        "mid" => c.cas.get(1).map(|x| x.der.clone()),
        "ee" => Some(c.ee.der.clone()),
        "unrelated" => Some(c.unrelated_root.der.clone()),
        "unrelated-ee" => Some(c.unrelated_ee.der.clone()),
        _ => None,
    }
}

fn settings_for(c: &Chain, rng: &mut Rng) -> Vec<Setting> {
    let s = |name: &str, sys: &[&str], user: &[&str], allow: Allow, ekus: &[&str], vt: bool| Setting {
        name: name.to_string(),
        sys: sys.iter().map(|x| x.to_string()).collect(),
        user: user.iter().map(|x| x.to_string()).collect(),
        allow,
        ekus: ekus.iter().map(|x| x.to_string()).collect(),
        verify_trust: vt,
    };
    let custom = matches!(c.p.eku, Eku::CustomX | Eku::CustomXPlusServerAuth);
    let cfg_x: &[&str] = &[CUSTOM_X];
    let cfg_y: &[&str] = &[CUSTOM_Y];
    let none: &[&str] = &[];
    // for custom-EKU chains the accepting configuration is the default one, so that the chain
    // dimension is exercised; the rejecting configurations come on top
    let base: &[&str] = if custom { cfg_x } else { none };
    let top = if c.p.depth == 0 { "ee" } else { "root" };
    let mut v = vec![
        s("sys=top", &[top], &[], Allow::None, base, true),
        s("user=top", &[], &[top], Allow::None, base, true),
        s("sys=unrelated,user=top", &["unrelated"], &[top], Allow::None, base, true),
        s("sys=top,user=unrelated", &[top], &["unrelated"], Allow::None, base, true),
        s("sys=unrelated", &["unrelated"], &[], Allow::None, base, true),
        s("user=unrelated", &[], &["unrelated"], Allow::None, base, true),
        s("no-anchors", &[], &[], Allow::None, base, true),
        s("allow=pem-ee", &[], &[], Allow::PemEe, base, true),
        s("allow=hash-ee,sys=unrelated", &["unrelated"], &[], Allow::HashEe, base, true),
        s("allow=hash-ee-among-others", &[], &[], Allow::HashEeAmongOthers, base, true),
        s("allow=pem-unrelated-ee", &[], &[], Allow::PemUnrelatedEe, base, true),
        s("allow=hash-unrelated-ee,user=unrelated", &[], &["unrelated"], Allow::HashUnrelatedEe, base, true),
        s("allow=hash-ee-common-prefix", &[], &[], Allow::HashEeCommonPrefix, base, true),
        s("verify_trust=false,sys=top,allow=pem-ee", &[top], &[], Allow::PemEe, base, false),
        s("verify_trust=false,user=top", &[], &[top], Allow::None, base, false),
    ];
    if c.p.depth >= 1 {
        v.push(s("allow=pem-issuer", &[], &[], Allow::PemIssuer, base, true));
        v.push(s("sys=issuer", &["issuer"], &[], Allow::None, base, true));
        v.push(s("user=ee", &[], &["ee"], Allow::None, base, true));
    }
    if c.p.depth >= 2 {
        v.push(s("sys=mid", &["mid"], &[], Allow::None, base, true));
        v.push(s("user=target,sys=unrelated", &["unrelated"], &["target"], Allow::None, base, true));
        v.push(s("sys=root+target", &["root", "target"], &[], Allow::None, base, true));
    }
    // EKU configuration variants
    if custom {
        v.push(s("sys=top,trust_config=none", &[top], &[], Allow::None, none, true));
        v.push(s("user=top,trust_config=Y", &[], &[top], Allow::None, cfg_y, true));
        v.push(s("allow=pem-ee,trust_config=none", &[], &[], Allow::PemEe, none, true));
    } else {
        let extra: &[&str] = if rng.bool() { cfg_x } else { cfg_y };
        v.push(s("sys=top,trust_config=extra", &[top], &[], Allow::None, extra, true));
    }
    v
}

fn ders(c: &Chain, names: &[String]) -> Vec<Vec<u8>> {
    names.iter().filter_map(|n| anchor_by_name(c, n)).collect()
}

fn allow_text(c: &Chain, a: &Allow) -> Option<String> {
    let issuer_pem = c.cas.last().map(|x| x.pem()).unwrap_or_default();
    Some(match a {
        Allow::None => return None,
        Allow::PemEe => c.ee.pem(),
        Allow::HashEe => format!("{}\n", c.ee.sha256_b64()),
        Allow::HashEeAmongOthers => format!(
            "# private credential store\n{}\n{}\n{}\n{}",
            c.unrelated_ee.sha256_b64(),
            c.unrelated_root.pem(),
            c.ee.sha256_b64(),
            "not base64 at all !\n"
        ),
        Allow::PemIssuer => issuer_pem,
        Allow::PemUnrelatedEe => c.unrelated_ee.pem(),
        Allow::HashUnrelatedEe => format!("{}\n", c.unrelated_ee.sha256_b64()),
        Allow::HashEeCommonPrefix => {
            use base64::Engine;
            let mut h = sha2_256(&c.ee.der);
            for b in h[24..].iter_mut() {
                *b ^= 0x5a;
            }
            format!("{}\n", base64::engine::general_purpose::STANDARD.encode(h))
        }
    })
}

fn on_allow_list(a: &Allow) -> bool {
    matches!(a, Allow::PemEe | Allow::HashEe | Allow::HashEeAmongOthers)
}

fn settings_json(c: &Chain, st: &Setting) -> Value {
    let mut trust = serde_json::Map::new();
    let sys = ders(c, &st.sys);
    let user = ders(c, &st.user);
    if !sys.is_empty() {
        trust.insert("trust_anchors".into(), json!(pki::pem_bundle(&sys)));
    }
    if !user.is_empty() {
        trust.insert("user_anchors".into(), json!(pki::pem_bundle(&user)));
    }
    if let Some(a) = allow_text(c, &st.allow) {
        trust.insert("allowed_list".into(), json!(a));
    }
    if !st.ekus.is_empty() {
        trust.insert("trust_config".into(), json!(format!("// extra EKUs\n{}\n", st.ekus.join("\n"))));
    }
    json!({"verify": {"verify_trust": st.verify_trust}, "trust": Value::Object(trust)})
}

#[derive(Debug, Clone)]
struct Row {
    chain_class: String,
    shape: String,
    eku: String,
    setting: String,
    /// reference verdict; None = unjudged
    expect_trusted: Option<bool>,
    unjudged_why: Option<String>,
    on_allow: bool,
    cli_ok_now: bool,
    cli_ok_ignoring_time: bool,
    cli_detail: String,
    eku_accepted: bool,
    ee_profile_ok: bool,
    verify_trust: bool,
    state: String,
    error: Option<String>,
    has_trusted: bool,
    has_untrusted: bool,
    failures: Vec<String>,
    /// direct API: (normal mode result, anchors-only mode result, expected normal ok, expected anchors-only ok)
    api: Option<(String, String, Option<bool>, Option<bool>)>,
    witness: Value,
    asset: Arc<Vec<u8>>,
}

impl Row {
    /// witness plus the signed asset itself (only materialised when a violation is written)
    fn wit(&self) -> Value {
        use base64::Engine;
        let mut w = self.witness.clone();
        if let Some(m) = w.as_object_mut() {
            m.insert("signed_asset_png_b64".into(), json!(base64::engine::general_purpose::STANDARD.encode(self.asset.as_slice())));
        }
        w
    }
}

struct ChainResult {
    rows: Vec<Row>,
    inconclusive: Vec<String>,
    cli_calls: u64,
}

fn api_result(r: Result<TrustAnchorType, c2pa::crypto::cose::CertificateTrustError>) -> String {
    match r {
        Ok(t) => format!("Ok({t:?})"),
        Err(e) => format!("Err({e:?})").split('(').take(2).collect::<Vec<_>>().join("("),
    }
}

fn eval_chain(p: &ChainParams, asset: &assets::Asset) -> ChainResult {
    let c = build_chain(p);
    let mut out = ChainResult { rows: Vec::new(), inconclusive: Vec::new(), cli_calls: 0 };
    let mut x5 = vec![c.ee.der.clone()];
    x5.extend(c.x5rest.iter().cloned());
    let signer = DirectCoseSigner::new(c.ee_key.clone(), x5.clone());
    let signed = match report::catch_sdk(|| sign_asset(&signer, asset.format, &asset.bytes)) {
        Ok(Ok(s)) => Arc::new(s),
        Ok(Err(e)) => {
            out.inconclusive.push(format!("chain {} could not be embedded: {e}", p.idx));
            return out;
        }
        Err(pn) => {
            out.inconclusive.push(format!("chain {} panic while embedding: {pn}", p.idx));
            return out;
        }
    };
    let mut rng = Rng::new(p.seed, "c05-settings");
    let settings = settings_for(&c, &mut rng);
    // CLI verdict cache: anchor set (sorted hashes) → (ok now, ok ignoring time, detail)
    let mut cache: HashMap<Vec<String>, (bool, bool, String)> = HashMap::new();
    let mut cli = |anchors: &[Vec<u8>], out: &mut ChainResult| -> Option<(bool, bool, String)> {
        let mut key: Vec<String> = anchors.iter().map(|a| hex::encode(&sha2_256(a)[..8])).collect();
        key.sort();
        key.dedup();
        if let Some(v) = cache.get(&key) {
            return Some(v.clone());
        }
        let a = VerifyArgs { ee: &c.ee.der, untrusted: &c.x5rest, anchors, ..Default::default() };
        out.cli_calls += 1;
        let now = match pki::openssl_verify(&a) {
            Ok(r) => r,
            Err(e) => {
                out.inconclusive.push(format!("openssl cli: {e}"));
                return None;
            }
        };
        let no_time = if c.p.shape.is_validity() {
            out.cli_calls += 1;
            match pki::openssl_verify(&VerifyArgs { no_check_time: true, ..a.clone() }) {
                Ok(r) => r.ok,
                Err(e) => {
                    out.inconclusive.push(format!("openssl cli: {e}"));
                    return None;
                }
            }
        } else {
            now.ok
        };
        let v = (now.ok, no_time, now.detail.clone());
        cache.insert(key, v.clone());
        Some(v)
    };

    let chain_class = format!("d{}|{}", p.depth, p.kinds.iter().map(|k| k.name()).collect::<Vec<_>>().join(">"));
    for st in &settings {
        let sys = ders(&c, &st.sys);
        let user = ders(&c, &st.user);
        let mut all = sys.clone();
        all.extend(user.iter().cloned());
        let Some((ok_now, ok_nt, detail)) = cli(&all, &mut out) else { continue };
        let Some((sys_ok_now, _sys_ok_nt, _)) = cli(&sys, &mut out) else { continue };
        // the policy API documents `signing_time_epoch = None` as "no validity check"; validity
        // shapes are therefore driven with Some(now), the others with None
        let api_time = if c.p.shape.is_validity() { Some(pki::now_unix()) } else { None };
        let on_allow = on_allow_list(&st.allow);
        let eku_ok = c.p.eku.accepted(&st.ekus);
        // a self-signed end entity violates the certificate profile (C06): state Trusted is not demanded
        let self_signed_ee = c.p.depth == 0 && c.ee.issuer == c.ee.spec.subject;
        let ee_profile_ok = c.p.eku.profile_ok(&st.ekus) && c.p.shape != Shape::EeExpired && !self_signed_ee;
        let mut unjudged = None;
        let expect = if c.p.shape == Shape::EeExpired && !on_allow {
            unjudged = Some("validity of the end-entity certificate itself is a profile rule (C06); the chain verdict at 'now' is dominated by it".to_string());
            None
        } else {
            Some(on_allow || (ok_now && eku_ok))
        };
        let sj = settings_json(&c, st);
        let ctx = match Context::new().with_settings(sj.to_string().as_str()) {
            Ok(c) => c,
            Err(e) => {
                out.inconclusive.push(format!("settings rejected ({}): {e:?}", st.name));
                continue;
            }
        };
        let o = report::read_bytes_catch(ctx, asset.format, &signed);
        let has = |kind: &str, code: &str| o.codes.iter().any(|c| c.0 == "active" && c.1 == kind && c.2 == code);
        let has_trusted = has("success", "signingCredential.trusted") || has("informational", "signingCredential.trusted") || has("failure", "signingCredential.trusted");
        let has_untrusted = has("failure", "signingCredential.untrusted") || has("informational", "signingCredential.untrusted") || has("success", "signingCredential.untrusted");

        // public policy API, normal and anchors-only
        let api = if st.verify_trust {
            let mut ctp = CertificateTrustPolicy::default();
            let mut ok_cfg = true;
            if !sys.is_empty() {
                ok_cfg &= ctp.add_trust_anchors(pki::pem_bundle(&sys).as_bytes()).is_ok();
            }
            if !user.is_empty() {
                ok_cfg &= ctp.add_user_trust_anchors(pki::pem_bundle(&user).as_bytes()).is_ok();
            }
            if let Some(a) = allow_text(&c, &st.allow) {
                ok_cfg &= ctp.add_end_entity_credentials(a.as_bytes()).is_ok();
            }
            ctp.add_valid_ekus(st.ekus.join("\n").as_bytes());
            if !ok_cfg {
                out.inconclusive.push(format!("policy API rejected configuration {}", st.name));
                None
            } else {
                let normal = report::catch_sdk(|| ctp.check_certificate_trust(&c.x5rest, &c.ee.der, api_time));
                ctp.set_trust_anchors_only(true);
                let only = report::catch_sdk(|| ctp.check_certificate_trust(&c.x5rest, &c.ee.der, api_time));
                let n = normal.map(api_result).unwrap_or_else(|p| format!("Panic({p})"));
                let a = only.map(api_result).unwrap_or_else(|p| format!("Panic({p})"));
                // the API documentation makes an accepted EKU part of the verdict but the Reader path
                // enforces it elsewhere: with a verifying chain and an unaccepted EKU either answer is
                // tolerated here (None = not judged)
                let tri = |chain_ok: bool| {
                    if on_allow || (chain_ok && eku_ok) {
                        Some(true)
                    } else if !chain_ok {
                        Some(false)
                    } else {
                        None
                    }
                };
                Some((n, a, tri(ok_now), tri(sys_ok_now)))
            }
        } else {
            None
        };

        let witness = json!({
            "chain": {"index": p.idx, "depth": p.depth, "keys": p.kinds.iter().map(|k| k.name()).collect::<Vec<_>>(),
                      "shape": p.shape.name(), "target_level": p.target, "eku": p.eku.name()},
            "x5chain_pem": pki::pem_bundle(&x5),
            "settings_name": st.name,
            "settings": sj,
            "reference": {"on_allow_list": on_allow, "openssl_verify_now": ok_now, "openssl_verify_no_check_time": ok_nt,
                          "openssl_detail": detail, "eku_accepted": eku_ok, "trusted": expect},
            "observed": {"state": o.state, "error": o.error, "failures": o.failure_codes(),
                         "signingCredential.trusted": has_trusted, "signingCredential.untrusted": has_untrusted, "policy_api": api},
        });
        out.rows.push(Row {
            chain_class: chain_class.clone(),
            shape: p.shape.name(),
            eku: p.eku.name().to_string(),
            setting: st.name.clone(),
            expect_trusted: expect,
            unjudged_why: unjudged,
            on_allow,
            cli_ok_now: ok_now,
            cli_ok_ignoring_time: ok_nt,
            cli_detail: detail,
            eku_accepted: eku_ok,
            ee_profile_ok,
            verify_trust: st.verify_trust,
            state: o.state.clone(),
            error: o.error.clone(),
            has_trusted,
            has_untrusted,
            failures: o.failure_codes(),
            api,
            witness,
            asset: signed.clone(),
        });
    }
    out
}

fn sha2_256(b: &[u8]) -> Vec<u8> {
    use sha2::Digest;
    sha2::Sha256::digest(b).to_vec()
}

/// settings-class for signatures: strips the concrete anchor names down to the mechanism
fn settings_class(name: &str) -> String {
    let mut parts: Vec<&str> = Vec::new();
    if name.contains("verify_trust=false") {
        parts.push("verify_trust=false");
    }
    if name.contains("allow=") {
        parts.push(if name.contains("hash") { "allow-hash" } else { "allow-pem" });
    }
    if name.contains("sys=") {
        parts.push("sys");
    }
    if name.contains("user=") {
        parts.push("user");
    }
    if name.contains("trust_config=") {
        parts.push("trust_config");
    }
    if parts.is_empty() {
        parts.push("no-anchors");
    }
    parts.join("+")
}

fn main() {
    let mut run = Run::from_args("C05", "exploration");
    report::quiet_panics();
    run.rule = "one chain = (shape mutation cycled over the full list) x depth 0-3 x random key kind per level x random EKU class; \
                each chain is embedded once (direct-COSE signer, tiny PNG) and read under ~20 trust settings; every (chain, settings) \
                pair is one evaluation judged against allow-list membership OR (openssl verify CLI AND harness EKU rule); \
                non-trivial = the Reader produced a validation state; classes = shape x depth x eku x settings-class x expected x observed"
        .into();
    run.assumptions = vec![
        "OpenSSL CLI 3.5 `verify -x509_strict -partial_chain` is the reference chain builder; the generator keeps every certificate RFC 5280-clean except for the one named mutation so that CLI 3.5 and the vendored 3.6 cannot legitimately differ".into(),
        "no time-stamp is embedded: signing time = now, the reference checks validity periods now".into(),
        "accepted EKUs = {emailProtection, documentSigning} ∪ trust_config; timeStamping/OCSPSigning-only and vendor OIDs are not generated".into(),
        "allow-list hash form = base64(SHA-256(DER)) on a line of its own".into(),
        "state Trusted is demanded only when the end entity is also profile-conforming; the codes signingCredential.trusted/untrusted are judged always".into(),
        "policy API (CertificateTrustPolicy::check_certificate_trust): only Ok/Err is judged; with a verifying chain and an unaccepted EKU either answer is tolerated (the Reader path is where EKU is judged); trust-anchors-only mode is only reachable through this API (no Settings key sets it)".into(),
        "keys come from the OpenSSL RNG (not from VERIF_SEED); witnesses carry the certificates".into(),
    ];
    match pki::openssl_cli_version() {
        Ok(v) => run.set("openssl_cli", json!(v)),
        Err(e) => {
            run.inconclusive(format!("openssl cli unavailable: {e}"));
            run.finish(1_000_000);
        }
    }
    if let Some(p) = run.replay.clone() {
        std::process::exit(replay(&p));
    }
    let asset = assets::tiny_assets().into_iter().find(|a| a.format == "png").expect("tiny png");
    let n_chains = run.tier.pick(SHAPES.len() * 14, SHAPES.len() * 240);
    let mut rng = Rng::new(run.seed, "c05-chains");
    let params: Vec<ChainParams> = (0..n_chains).map(|i| gen_params(i, &mut rng)).collect();
    run.set("chains", json!(n_chains));

    // warm the key pool
    {
        let mut want: BTreeSet<(KeyKind, usize)> = BTreeSet::new();
        for k in KINDS {
            for slot in [0usize, 1, 2, 50, 63] {
                want.insert((*k, slot));
            }
        }
        want.insert((KeyKind::P256, 60));
        want.insert((KeyKind::Ed25519, 61));
        want.insert((KeyKind::P256, 62));
        want.insert((KeyKind::P384, 64));
        let want: Vec<_> = want.into_iter().collect();
        par::par_map(want.len(), |i| {
            Key::pooled(want[i].0, want[i].1);
        });
    }

    let debug = std::env::var("C05_DEBUG").is_ok();
    let results = par::par_map(params.len(), |i| eval_chain(&params[i], &asset));

    let mut table: BTreeMap<String, u64> = BTreeMap::new();
    for r in results {
        for m in r.inconclusive {
            run.inconclusive(m);
        }
        run.count("openssl_cli_calls", r.cli_calls);
        for row in r.rows {
            judge(&mut run, &mut table, &row, debug);
        }
    }
    run.set("outcome_table", json!(table));
    let min = if run.quick() { 300 } else { 800 };
    run.finish(min);
}

fn judge(run: &mut Run, table: &mut BTreeMap<String, u64>, row: &Row, debug: bool) {
    run.eval();
    let depth = row.chain_class.split('|').next().unwrap_or("").to_string();
    let sc = settings_class(&row.setting);
    let observed = format!(
        "{}{}{}",
        row.state,
        if row.has_trusted { "+T" } else { "" },
        if row.has_untrusted { "+U" } else { "" }
    );
    if debug {
        println!(
            "{:24} {:26} {:22} {:44} expect={:?} cli={}/{} eku={} -> {} api={:?} {}",
            row.chain_class, row.shape, row.eku, row.setting, row.expect_trusted, row.cli_ok_now, row.cli_ok_ignoring_time, row.eku_accepted, observed, row.api, row.cli_detail
        );
    }
    if row.state == "Panic" {
        run.violation(&format!("panic|{}|{}", row.shape, sc), "SDK panicked while validating", row.wit());
        return;
    }
    if row.state == "Err" {
        run.inconclusive(format!("reader error {:?} for chain shape {} settings {}", row.error, row.shape, row.setting));
        return;
    }
    *table.entry(format!("{}|{}|expect={:?}|{}", row.shape, sc, row.expect_trusted, observed)).or_insert(0) += 1;
    let Some(expect) = row.expect_trusted else {
        run.count(&format!("unjudged:{}:{}", row.shape, observed), 1);
        run.sample("unjudged", 2, json!({"why": row.unjudged_why, "case": row.witness}));
        return;
    };
    run.nontrivial(format!("{}|{}|{}|{}|expect={}|{}", row.shape, depth, row.eku, sc, expect, observed));
    run.sample(&format!("{}|{}", row.shape, if expect { "trusted" } else { "untrusted" }), 1, row.wit());
    let eku_class = if row.eku_accepted { "eku-accepted" } else { "eku-unaccepted" };
    // cause class: *why* the reference says what it says, not which case it was
    let chain_class = if row.on_allow {
        "on-allow-list".to_string()
    } else if row.cli_ok_now {
        "chain-ok".to_string()
    } else if row.cli_ok_ignoring_time {
        "ca-validity-window".to_string()
    } else if row.cli_detail == "no anchors" {
        "no-anchors".to_string()
    } else {
        row.shape.clone()
    };
    let sig_base = format!("{}|{}|{}", chain_class, eku_class, mechanism(&sc));

    if !row.verify_trust {
        // no trust verdict at all
        if row.has_trusted || row.has_untrusted || row.state == "Trusted" {
            run.violation(
                &format!("{sig_base}|no-verdict->{observed}"),
                "trust verdict issued although verify.verify_trust=false",
                row.wit(),
            );
        }
        return;
    }
    if expect {
        if !row.has_trusted || row.has_untrusted {
            run.violation(
                &format!("{sig_base}|trusted->{observed}"),
                "reference policy accepts the credential but it was not reported trusted",
                row.wit(),
            );
        } else if row.ee_profile_ok && row.state != "Trusted" {
            run.violation(
                &format!("{sig_base}|trusted->state-{}", row.state),
                "credential reported trusted and conforming, but the validation state is not Trusted",
                row.wit(),
            );
        }
    } else {
        if row.state == "Trusted" {
            run.violation(
                &format!("{sig_base}|untrusted->state-Trusted"),
                "reference policy rejects the credential but the manifest was reported Trusted",
                row.wit(),
            );
        } else if row.has_trusted {
            run.violation(
                &format!("{sig_base}|untrusted->code-trusted({})", row.state),
                "reference policy rejects the credential but signingCredential.trusted was reported",
                row.wit(),
            );
        } else if !row.has_untrusted {
            run.violation(
                &format!("{sig_base}|untrusted->no-verdict({})", row.state),
                "reference policy rejects the credential but signingCredential.untrusted was not reported",
                row.wit(),
            );
        }
    }
    // policy API
    if let Some((normal, only, exp_normal, exp_only)) = &row.api {
        run.count("policy_api_evaluations", 2);
        if normal.starts_with("Panic") || only.starts_with("Panic") {
            run.violation(&format!("api-panic|{}|{}", row.shape, sc), "CertificateTrustPolicy::check_certificate_trust panicked", row.wit());
            return;
        }
        run.nontrivial(format!("api|{}|{}|{}|normal={}|only={}", row.shape, depth, sc, short(normal), short(only)));
        if only.starts_with("Ok(User") {
            run.violation(
                &format!("api|anchors-only->User|{}", mechanism(&sc)),
                "trust-anchors-only mode accepted a user anchor",
                row.wit(),
            );
        } else if exp_only.is_some_and(|e| only.starts_with("Ok") != e) {
            run.violation(
                &format!("api|anchors-only|{}|{}|{:?}->{}", chain_class, mechanism(&sc), exp_only, short(only)),
                "trust-anchors-only mode: result differs from the reference over the system anchors alone",
                row.wit(),
            );
        }
        if exp_normal.is_none() || exp_only.is_none() {
            run.count("policy_api_unjudged_eku_unaccepted_chain_ok", 1);
        }
        if exp_normal.is_some_and(|e| normal.starts_with("Ok") != e) {
            run.violation(
                &format!("api|normal|{}|{}|{:?}->{}", chain_class, mechanism(&sc), exp_normal, short(normal)),
                "check_certificate_trust differs from the reference chain verdict",
                row.wit(),
            );
        }
    }
}

/// Re-reads the signed asset of a witness under its settings, recomputes the reference with the
/// OpenSSL CLI and reports whether the inconsistency is still there (exit 1) or gone (exit 0).
fn replay(path: &std::path::Path) -> i32 {
    use base64::Engine;
    let v: Value = serde_json::from_slice(&std::fs::read(path).expect("replay file")).expect("json");
    let w = &v["witness"];
    let asset = base64::engine::general_purpose::STANDARD
        .decode(w["signed_asset_png_b64"].as_str().expect("witness has no signed asset"))
        .expect("b64");
    let settings = &w["settings"];
    let x5 = pki::pem_to_ders(w["x5chain_pem"].as_str().unwrap_or(""));
    let mut anchors = pki::pem_to_ders(settings["trust"]["trust_anchors"].as_str().unwrap_or(""));
    anchors.extend(pki::pem_to_ders(settings["trust"]["user_anchors"].as_str().unwrap_or("")));
    let verify_trust = settings["verify"]["verify_trust"].as_bool().unwrap_or(true);
    let on_allow = w["reference"]["on_allow_list"].as_bool().unwrap_or(false);
    let eku_ok = w["reference"]["eku_accepted"].as_bool().unwrap_or(false);
    let cli = pki::openssl_verify(&VerifyArgs { ee: &x5[0], untrusted: &x5[1..], anchors: &anchors, ..Default::default() });
    let cli_ok = match cli {
        Ok(r) => {
            println!("replay: openssl verify now: ok={} {}", r.ok, r.detail);
            r.ok
        }
        Err(e) => {
            println!("INCONCLUSIVE: property=C05 replay: {e}");
            return 2;
        }
    };
    let expect = on_allow || (cli_ok && eku_ok);
    let ctx = Context::new().with_settings(settings.to_string().as_str()).expect("settings");
    let o = report::read_bytes_catch(ctx, "png", &asset);
    let has = |code: &str| o.codes.iter().any(|c| c.0 == "active" && c.2 == code);
    let (t, u) = (has("signingCredential.trusted"), has("signingCredential.untrusted"));
    println!("replay: reference trusted={expect} (allow-list={on_allow} chain={cli_ok} eku={eku_ok}) verify_trust={verify_trust}");
    println!("replay: observed state={} signingCredential.trusted={t} signingCredential.untrusted={u} failures={:?}", o.state, o.failure_codes());
    let bad = if !verify_trust {
        t || u || o.state == "Trusted"
    } else if expect {
        !t || u
    } else {
        t || !u || o.state == "Trusted"
    };
    println!("replay: {}", if bad { "inconsistent with the reference policy (reproduced)" } else { "consistent with the reference policy" });
    if bad {
        1
    } else {
        0
    }
}

/// coarse settings mechanism for signatures
fn mechanism(sc: &str) -> String {
    let mut m = Vec::new();
    if sc.contains("verify_trust=false") {
        m.push("verify_trust=false");
    }
    if sc.contains("allow") {
        m.push("allow-list");
    }
    if sc.contains("sys") || sc.contains("user") {
        m.push("anchors");
    }
    if m.is_empty() {
        m.push("nothing-configured");
    }
    m.join("+")
}

fn short(s: &str) -> String {
    s.split('(').take(2).collect::<Vec<_>>().join("(").trim_end_matches(')').to_string() + ")"
}
