//! Shared building blocks for the runtime monitors (one binary per property in src/bin).
pub mod engines;
pub mod evidence;
pub mod rng;
pub mod par;
pub mod assets;
pub mod signers;
pub mod report;
pub mod jumbf;
pub mod wrap;
pub mod pki;
pub mod cose_direct;
pub mod embed;
pub mod httpmon;
pub mod storegen;

pub use evidence::{Run, Tier};
pub use rng::Rng;
pub mod fmt;
pub mod embedkit;
pub mod defgen;
pub mod fssnap;
pub mod pki_tsa;
pub mod iokit;
pub mod hostile;
