//! TIFF 6.0 / BigTIFF parser: header, IFD chain, sub-IFD trees (SubIFDs 0x014A, Exif 0x8769, GPS
//! 0x8825, Interop 0xA005), out-of-line values, strips/tiles.  Well-formed = every IFD offset, value
//! offset and strip/tile range lies inside the file and the IFD chain has no cycle.
//! The C2PA manifest store is the value of tag 0xCD41 (type 7 UNDEFINED) in a page IFD.
use super::{sha, Container, Elem, Parsed};
use std::collections::BTreeSet;

pub const C2PA_TAG: u16 = 0xCD41;

#[derive(Clone, Debug)]
pub struct Entry {
    pub tag: u16,
    pub typ: u16,
    pub count: u64,
    /// position of the entry itself
    pub entry_pos: usize,
    /// where the value bytes live (inline: inside the entry)
    pub val_pos: usize,
    pub val_len: usize,
    pub inline: bool,
}

#[derive(Clone, Debug)]
pub struct Ifd {
    pub pos: usize,
    pub len: usize,
    pub entries: Vec<Entry>,
    pub next: u64,
    /// (pointer tag, sub-IFDs)
    pub subs: Vec<(u16, Vec<Ifd>)>,
}

pub struct Tiff<'a> {
    pub data: &'a [u8],
    pub le: bool,
    pub big: bool,
    pub pages: Vec<Ifd>,
}

fn type_size(t: u16) -> Option<usize> {
    Some(match t {
        1 | 2 | 6 | 7 => 1,
        3 | 8 => 2,
        4 | 9 | 11 | 13 => 4,
        5 | 10 | 12 | 16 | 17 | 18 => 8,
        _ => return None,
    })
}

impl<'a> Tiff<'a> {
    fn u16(&self, o: usize) -> Result<u16, String> {
        let s = self.data.get(o..o + 2).ok_or_else(|| format!("read u16 at {o} outside file"))?;
        Ok(if self.le { u16::from_le_bytes([s[0], s[1]]) } else { u16::from_be_bytes([s[0], s[1]]) })
    }
    fn u32(&self, o: usize) -> Result<u32, String> {
        let s = self.data.get(o..o + 4).ok_or_else(|| format!("read u32 at {o} outside file"))?;
        let a = [s[0], s[1], s[2], s[3]];
        Ok(if self.le { u32::from_le_bytes(a) } else { u32::from_be_bytes(a) })
    }
    fn u64(&self, o: usize) -> Result<u64, String> {
        let s = self.data.get(o..o + 8).ok_or_else(|| format!("read u64 at {o} outside file"))?;
        let mut a = [0u8; 8];
        a.copy_from_slice(s);
        Ok(if self.le { u64::from_le_bytes(a) } else { u64::from_be_bytes(a) })
    }
    /// offset-sized word
    fn word(&self, o: usize) -> Result<u64, String> {
        if self.big {
            self.u64(o)
        } else {
            Ok(self.u32(o)? as u64)
        }
    }

    /// integer values of an entry (types 1,3,4,13,16,18)
    pub fn ints(&self, e: &Entry) -> Result<Vec<u64>, String> {
        let sz = type_size(e.typ).ok_or("unknown type")?;
        let mut v = Vec::with_capacity(e.count as usize);
        for i in 0..e.count as usize {
            let o = e.val_pos + i * sz;
            v.push(match sz {
                1 => *self.data.get(o).ok_or("value outside file")? as u64,
                2 => self.u16(o)? as u64,
                4 => self.u32(o)? as u64,
                _ => self.u64(o)?,
            });
        }
        Ok(v)
    }

    fn read_ifd(&self, pos: u64, seen: &mut BTreeSet<u64>, depth: usize) -> Result<Ifd, String> {
        if depth > 8 {
            return Err("IFD nesting too deep".into());
        }
        if !seen.insert(pos) {
            return Err(format!("IFD at {pos} referenced twice (cycle)"));
        }
        let pos = usize::try_from(pos).map_err(|_| "IFD offset overflow")?;
        let (n, mut o, esz) = if self.big { (self.u64(pos)? as usize, pos + 8, 20usize) } else { (self.u16(pos)? as usize, pos + 2, 12usize) };
        if n == 0 {
            return Err(format!("IFD at {pos} has no entries"));
        }
        let body = n.checked_mul(esz).ok_or("IFD entry count overflow")?;
        if o + body + if self.big { 8 } else { 4 } > self.data.len() {
            return Err(format!("IFD at {pos} with {n} entries runs past the end of the file"));
        }
        let word = if self.big { 8 } else { 4 };
        let mut entries = Vec::with_capacity(n);
        let mut last_tag: i32 = -1;
        for _ in 0..n {
            let tag = self.u16(o)?;
            let typ = self.u16(o + 2)?;
            let count = if self.big { self.u64(o + 4)? } else { self.u32(o + 4)? as u64 };
            let vfield = o + 4 + word;
            let sz = type_size(typ).unwrap_or(1);
            let vlen = (count as usize).checked_mul(sz).ok_or("value length overflow")?;
            let (val_pos, inline) = if vlen <= word {
                (vfield, true)
            } else {
                let off = self.word(vfield)? as usize;
                if off.checked_add(vlen).map(|e| e > self.data.len()).unwrap_or(true) {
                    return Err(format!("tag {tag:#06x}: value offset {off} + {vlen} outside the file ({})", self.data.len()));
                }
                (off, false)
            };
            if (tag as i32) < last_tag {
                // out-of-order tags are tolerated by most readers; not a rejection
            }
            last_tag = tag as i32;
            entries.push(Entry { tag, typ, count, entry_pos: o, val_pos, val_len: vlen, inline });
            o += esz;
        }
        let next = self.word(o)?;
        let mut ifd = Ifd { pos, len: o + word - pos, entries, next, subs: vec![] };
        for e in ifd.entries.clone() {
            if matches!(e.tag, 0x014A | 0x8769 | 0x8825 | 0xA005) && matches!(e.typ, 4 | 13 | 16 | 18) {
                let mut subs = Vec::new();
                for off in self.ints(&e)? {
                    if off == 0 {
                        continue;
                    }
                    let mut chain = off;
                    let mut guard = 0;
                    while chain != 0 && guard < 64 {
                        let s = self.read_ifd(chain, seen, depth + 1).map_err(|m| format!("sub-IFD (tag {:#06x}): {m}", e.tag))?;
                        chain = if e.tag == 0x014A { s.next } else { 0 };
                        subs.push(s);
                        guard += 1;
                    }
                }
                ifd.subs.push((e.tag, subs));
            }
        }
        Ok(ifd)
    }

    /// (offsets tag, bytecounts tag) pairs of an IFD that address image data
    pub fn data_ranges(&self, ifd: &Ifd) -> Result<Vec<(u16, Vec<(usize, usize)>)>, String> {
        let mut out = Vec::new();
        for (ot, ct) in [(273u16, 279u16), (324, 325), (513, 514)] {
            let (Some(o), Some(c)) = (ifd.entries.iter().find(|e| e.tag == ot), ifd.entries.iter().find(|e| e.tag == ct)) else {
                continue;
            };
            let offs = self.ints(o)?;
            let cnts = self.ints(c)?;
            if offs.len() != cnts.len() {
                return Err(format!("tag {ot}: {} offsets but {} byte counts", offs.len(), cnts.len()));
            }
            let mut v = Vec::new();
            for (a, b) in offs.iter().zip(cnts.iter()) {
                let (a, b) = (*a as usize, *b as usize);
                if a.checked_add(b).map(|e| e > self.data.len()).unwrap_or(true) {
                    return Err(format!("tag {ot}: data range {a}+{b} outside the file ({})", self.data.len()));
                }
                v.push((a, b));
            }
            out.push((ot, v));
        }
        Ok(out)
    }
}

pub fn read(data: &[u8]) -> Result<Tiff<'_>, String> {
    if data.len() < 8 {
        return Err("too short for a TIFF header".into());
    }
    let le = match &data[..2] {
        b"II" => true,
        b"MM" => false,
        _ => return Err("bad byte-order mark".into()),
    };
    let mut t = Tiff { data, le, big: false, pages: vec![] };
    let magic = t.u16(2)?;
    let first = match magic {
        42 => t.u32(4)? as u64,
        43 => {
            t.big = true;
            if t.u16(4)? != 8 || t.u16(6)? != 0 {
                return Err("bad BigTIFF header".into());
            }
            t.u64(8)?
        }
        m => return Err(format!("bad TIFF magic {m}")),
    };
    if first == 0 {
        return Err("no first IFD".into());
    }
    let mut seen = BTreeSet::new();
    let mut pos = first;
    let mut pages = Vec::new();
    while pos != 0 {
        if pages.len() > 4096 {
            return Err("too many pages".into());
        }
        let ifd = t.read_ifd(pos, &mut seen, 0)?;
        pos = ifd.next;
        pages.push(ifd);
    }
    for p in &pages {
        check_data(&t, p)?;
    }
    t.pages = pages;
    Ok(t)
}

fn check_data(t: &Tiff, ifd: &Ifd) -> Result<(), String> {
    t.data_ranges(ifd)?;
    for (_, subs) in &ifd.subs {
        for s in subs {
            check_data(t, s)?;
        }
    }
    Ok(())
}

pub fn parse(data: &[u8]) -> Result<Parsed, String> {
    let t = read(data)?;
    let mut p = Parsed::default();
    p.elems.push(Elem::new("header", 0, if t.big { 16 } else { 8 }, 0, if t.big { 16 } else { 8 }));
    fn walk(t: &Tiff, ifd: &Ifd, name: &str, page_level: bool, p: &mut Parsed) -> Result<(), String> {
        let mut e = Elem::new(format!("IFD:{name}"), ifd.pos, ifd.len, ifd.pos, ifd.len);
        e.is_c2pa = ifd.entries.len() == 1 && ifd.entries[0].tag == C2PA_TAG;
        p.elems.push(e);
        for en in &ifd.entries {
            if !en.inline {
                let mut e = Elem::new(format!("value:{:#06x}", en.tag), en.val_pos, en.val_len, en.val_pos, en.val_len);
                e.is_c2pa = en.tag == C2PA_TAG;
                p.elems.push(e);
            }
            if en.tag == C2PA_TAG && page_level {
                if en.typ != 7 {
                    return Err(format!("C2PA tag has field type {} (expected 7 UNDEFINED)", en.typ));
                }
                p.containers.push(Container {
                    ranges: vec![(en.entry_pos, if t.big { 20 } else { 12 }), (en.val_pos, en.val_len)],
                    store: t.data[en.val_pos..en.val_pos + en.val_len].to_vec(),
                    store_ranges: vec![(en.val_pos, en.val_len)],
                    encoded: false,
                    label: name.to_string(),
                });
            }
        }
        for (tag, rs) in t.data_ranges(ifd)? {
            for (a, b) in rs {
                p.elems.push(Elem::new(format!("data:{tag}"), a, b, a, b));
            }
        }
        for (tag, subs) in &ifd.subs {
            for (i, s) in subs.iter().enumerate() {
                walk(t, s, &format!("{name}/{tag:#06x}[{i}]"), false, p)?;
            }
        }
        Ok(())
    }
    for (i, pg) in t.pages.iter().enumerate() {
        walk(&t, pg, &format!("page{i}"), true, &mut p)?;
    }
    Ok(p)
}

fn sig_ifd(t: &Tiff, ifd: &Ifd, name: &str, out: &mut Vec<(String, String)>) -> Result<(), String> {
    let ptr_tags = [0x014Au16, 0x8769, 0x8825, 0xA005];
    let off_tags = [273u16, 324, 513];
    let mut n_tags = 0;
    for e in &ifd.entries {
        if e.tag == C2PA_TAG {
            continue;
        }
        n_tags += 1;
        let key = format!("{name}/tag{:#06x}", e.tag);
        if ptr_tags.contains(&e.tag) && ifd.subs.iter().any(|s| s.0 == e.tag) {
            out.push((key, format!("subifd type{} count{}", e.typ, e.count)));
        } else if off_tags.contains(&e.tag) && t.data_ranges(ifd)?.iter().any(|d| d.0 == e.tag) {
            let rs = t.data_ranges(ifd)?.into_iter().find(|d| d.0 == e.tag).unwrap().1;
            let mut all = String::new();
            for (a, b) in rs {
                all.push_str(&sha(&t.data[a..a + b]));
                all.push(';');
            }
            out.push((key, format!("deref type{} count{} {}", e.typ, e.count, sha(all.as_bytes()))));
        } else {
            out.push((key, format!("type{} count{} {}", e.typ, e.count, sha(&t.data[e.val_pos..e.val_pos + e.val_len]))));
        }
    }
    out.push((format!("{name}/#tags"), n_tags.to_string()));
    for (tag, subs) in &ifd.subs {
        for (i, s) in subs.iter().enumerate() {
            sig_ifd(t, s, &format!("{name}/{tag:#06x}[{i}]"), out)?;
        }
    }
    Ok(())
}

/// Media content: byte order + format, and for every page (and sub-IFD tree) every tag except the
/// C2PA tag with its dereferenced value; strip/tile/JPEG-interchange offsets are replaced by the
/// digests of the bytes they address.  A page that holds nothing but the C2PA tag is not media.
pub fn media_sig(data: &[u8]) -> Result<Vec<(String, String)>, String> {
    let t = read(data)?;
    let mut out = vec![("header".to_string(), format!("le={} big={}", t.le, t.big))];
    let mut i = 0;
    for pg in &t.pages {
        if pg.entries.iter().all(|e| e.tag == C2PA_TAG) {
            continue;
        }
        sig_ifd(&t, pg, &format!("page{i}"), &mut out)?;
        i += 1;
    }
    Ok(out)
}
