//! C21 — update manifests cannot alter bound content or carry forbidden parts.
//!
//! Route A (public API): tiny jpg/png/mp4 signed (Create), then `BuilderIntent::Update` once and twice
//! (update-of-update, also Edit-then-Update).  Controls must read Valid/Trusted; then single-bit
//! mutations of the *media region* of the final asset (jpg/png: the tail shared with the unsigned
//! source = image data; mp4: the mdat payload, located by the harness's own box walk) must not.
//! Route B (crafted through the `craft_store` hook, side-car, so the parent's hard binding is genuine):
//! an update manifest with 0 or 2 parentOf ingredients, with a (valid!) hard-binding assertion, with a
//! non-allowed action — each must not read Valid; the legitimate twin (1 parentOf, allowed actions
//! only) must.  A claim thumbnail in an update manifest is generated and reported but not judged
//! (the statement does not list it).
use c2pa::verif_hooks::ext_store::{craft_store, CraftAction, CraftEdge, CraftManifest, CraftSpec};
use c2pa::{BuilderIntent, DigitalSourceType, Reader};
use serde_json::{json, Value};
use std::io::Cursor;
use vmon::storegen as sg;
use vmon::{assets, par, report, signers, Rng, Run};

fn read(fmt: &str, asset: &[u8]) -> report::Outcome {
    report::read_bytes_catch(sg::context(&json!({})), fmt, asset)
}

/// Top-level ISO-BMFF boxes: (type, start, header_len, len)
fn bmff_top(data: &[u8]) -> Vec<([u8; 4], usize, usize, usize)> {
    let mut out = Vec::new();
    let mut o = 0usize;
    while o + 8 <= data.len() {
        let s = u32::from_be_bytes([data[o], data[o + 1], data[o + 2], data[o + 3]]) as usize;
        let t = [data[o + 4], data[o + 5], data[o + 6], data[o + 7]];
        let (h, l) = if s == 1 && o + 16 <= data.len() {
            (16, u64::from_be_bytes(data[o + 8..o + 16].try_into().unwrap()) as usize)
        } else if s == 0 {
            (8, data.len() - o)
        } else {
            (8, s)
        };
        if l < h || o + l > data.len() {
            break;
        }
        out.push((t, o, h, l));
        o += l;
    }
    out
}

/// Positions (with a region-class name) of media bytes in `out` that must be covered by the parent's binding.
fn media_positions(fmt: &str, src: &[u8], out: &[u8], rng: &mut Rng, per_class: usize) -> Vec<(String, usize)> {
    let mut v = Vec::new();
    if fmt == "mp4" {
        for (t, start, h, l) in bmff_top(out) {
            if &t == b"mdat" && l > h {
                let (a, b) = (start + h, start + l);
                v.push(("mdat-first".to_string(), a));
                v.push(("mdat-last".to_string(), b - 1));
                for _ in 0..per_class {
                    v.push(("mdat-middle".to_string(), a + rng.usize(b - a)));
                }
            }
        }
    } else {
        // common suffix with the unsigned source = image data that the embedding step did not touch
        let mut k = 0;
        while k < src.len() && k < out.len() && src[src.len() - 1 - k] == out[out.len() - 1 - k] {
            k += 1;
        }
        if k >= 16 {
            let a = out.len() - k;
            v.push(("tail-first".to_string(), a + 4));
            v.push(("tail-last".to_string(), out.len() - 1));
            for _ in 0..per_class {
                v.push(("tail-middle".to_string(), a + 4 + rng.usize(k - 4)));
            }
        }
    }
    v
}

struct ChainOut {
    name: String,
    fmt: &'static str,
    src: Vec<u8>,
    /// (step name, asset)
    steps: Vec<(String, Vec<u8>)>,
    error: Option<String>,
}

fn build_chain(name: &str, fmt: &'static str, src: &[u8], plan: &[&str]) -> ChainOut {
    let signer = signers::test_signer("ed25519");
    let mut steps = Vec::new();
    let mut cur = src.to_vec();
    let mut error = None;
    for (i, step) in plan.iter().enumerate() {
        let intent = match *step {
            "create" => BuilderIntent::Create(DigitalSourceType::Empty),
            "edit" => BuilderIntent::Edit,
            _ => BuilderIntent::Update,
        };
        let def = if *step == "update" {
            json!({"title": format!("c21 {name} {i}"), "assertions": [{"label": "org.verif.upd", "data": {"step": i}}]})
        } else {
            json!({"title": format!("c21 {name} {i}"), "assertions": [{"label": "org.verif.std", "data": {"step": i}}]})
        };
        let r = report::catch_sdk(|| -> c2pa::Result<sg::Signed> {
            let mut b = sg::builder(&json!({}), def.clone(), intent.clone())?;
            sg::sign(&mut b, signer.as_ref(), fmt, &cur)
        });
        match r {
            Ok(Ok(s)) => {
                cur = s.asset.clone();
                steps.push((format!("{}{}", step, i), s.asset));
            }
            Ok(Err(e)) => {
                error = Some(format!("step {i} {step}: {e:?}"));
                break;
            }
            Err(p) => {
                error = Some(format!("step {i} {step}: panic {p}"));
                break;
            }
        }
    }
    ChainOut { name: name.into(), fmt, src: src.to_vec(), steps, error }
}

fn is_update_manifest(fmt: &str, asset: &[u8]) -> Option<bool> {
    // independent check that the active (last) manifest of the embedded store is an update manifest: its
    // description-box type UUID starts with "c2um"
    let st = c2pa::jumbf_io::load_jumbf_from_memory(fmt, asset).ok()?;
    let root = vmon::jumbf::parse_store(&st)?;
    let ms = vmon::jumbf::manifests(&root);
    let last = ms.last()?;
    Some(last.uuid.map(|u| &u[0..4] == b"c2um").unwrap_or(false))
}

// ---- route B ------------------------------------------------------------------------------------
fn std_manifest(key: &str) -> CraftManifest {
    CraftManifest {
        key: key.into(),
        claim_version: 2,
        actions: vec![CraftAction { action: "c2pa.created".into(), edges: vec![], source_type_empty: true }],
        json_assertions: vec![("org.verif.note".into(), format!("{{\"k\":\"{key}\"}}"))],
        hard_binding: true,
        real_binding: true,
        ..Default::default()
    }
}

fn parent_edge(target: &str, rel: &str) -> CraftEdge {
    CraftEdge { target: target.into(), relationship: rel.into(), hash: "correct".into(), version: 3, no_manifest_ref: false }
}

fn update_manifest(key: &str, edges: Vec<CraftEdge>, actions: Vec<CraftAction>) -> CraftManifest {
    CraftManifest { key: key.into(), claim_version: 2, update: true, edges, actions, json_assertions: vec![("org.verif.upd".into(), "{\"u\":1}".into())], ..Default::default() }
}

fn act(name: &str, edges: Vec<usize>) -> CraftAction {
    CraftAction { action: name.into(), edges, source_type_empty: false }
}

fn craft_read(spec: &CraftSpec, flip: Option<usize>) -> Result<report::Outcome, String> {
    let asset = assets::tiny_jpeg(None, false, &[]);
    let signer = signers::test_signer("ed25519");
    let ctx = sg::context(&json!({"verify": {"verify_after_sign": false}}));
    let out = report::catch_sdk(|| craft_store(spec, signer.as_ref(), "image/jpeg", &asset, &ctx)).map_err(|p| format!("craft panic: {p}"))?.map_err(|e| format!("craft: {e:?}"))?;
    let mut a = asset.clone();
    if let Some(p) = flip {
        let p = p % a.len();
        a[p] ^= 0x10;
    }
    Ok(match report::catch_sdk(|| report::outcome_of(Reader::from_context(sg::context(&json!({}))).with_manifest_data_and_stream(&out.store, "image/jpeg", Cursor::new(a)))) {
        Ok(o) => o,
        Err(p) => report::Outcome { state: "Panic".into(), error: Some(p), report: Value::Null, codes: vec![] },
    })
}

fn main() {
    let mut run = Run::from_args("C21", "exploration");
    report::quiet_panics();
    run.rule = "A: {jpg, png, mp4 moov-first, mp4 mdat-first} x plans {create,update | create,update,update | create,edit,update | create,update,edit(control for a later standard manifest)} through the Builder; every final asset read (control) and then read again with one bit flipped at each media-region class position (jpg/png image tail first/middle/last, mp4 mdat first/middle/last). B: crafted side-car stores: update manifest with 0 / 2 parentOf ingredients, componentOf-only, a valid hard-binding assertion, each non-allowed action, update-of-update with a legitimate and a violating middle; legitimate twins as controls. Non-trivial+distinct = distinct (route, format, plan or rule, mutation class, outcome).".into();
    run.assumptions = vec![
        "media region = bytes shared as a suffix with the unsigned source (jpg/png) or the mdat payload (mp4); flipping one bit there changes content bound by the parent manifest".into(),
        "actions allowed in update manifests (C2PA 2.x): c2pa.edited.metadata, c2pa.opened, c2pa.published, c2pa.redacted; everything else is 'non-allowed'".into(),
        "a claim thumbnail inside an update manifest, and a violating update manifest that is only an ingredient of a legitimate active one, are generated and reported (unjudged:*) but not judged — the statement does not cover them".into(),
    ];
    let quick = run.quick();
    let tiny = assets::tiny_assets();
    let by_name = |n: &str| tiny.iter().find(|a| a.name == n).unwrap().clone();
    let srcs = [("jpg", by_name("tiny.jpg")), ("jpgx", by_name("tiny_xmp_rst.jpg")), ("png", by_name("tiny.png")), ("mp4", by_name("tiny.mp4")), ("mp4m", by_name("tiny_mdatfirst.mp4"))];
    let plans: Vec<(&str, Vec<&str>)> = vec![
        ("c-u", vec!["create", "update"]),
        ("c-u-u", vec!["create", "update", "update"]),
        ("c-e-u", vec!["create", "edit", "update"]),
        ("c-u-e", vec!["create", "update", "edit"]),
    ];
    let mut jobs = Vec::new();
    for (tag, a) in &srcs {
        for (pn, p) in &plans {
            jobs.push((format!("{tag}:{pn}"), a.format, a.bytes.clone(), p.clone()));
        }
    }
    let chains = par::par_map(jobs.len(), |i| build_chain(&jobs[i].0, jobs[i].1, &jobs[i].2, &jobs[i].3));

    // controls + content mutations
    struct MJob {
        chain: usize,
        class: String,
        pos: usize,
    }
    let mut mjobs = Vec::new();
    let mut rng = Rng::new(run.seed, "c21pos");
    for (ci, ch) in chains.iter().enumerate() {
        run.eval();
        if let Some(e) = &ch.error {
            run.count("generator_failures", 1);
            run.sample("generator-failure", 4, json!({"chain": ch.name, "error": e}));
            continue;
        }
        let (_, fin) = ch.steps.last().unwrap();
        let o = read(ch.fmt, fin);
        let upd = is_update_manifest(ch.fmt, fin);
        let plan = ch.name.split(':').nth(1).unwrap_or("");
        run.nontrivial(format!("A|{}|{}|control|active-update={:?}|{}", ch.name.split(':').next().unwrap_or(""), plan, upd, o.state));
        run.sample("A:control", 3, json!({"chain": ch.name, "state": o.state, "failures": o.failure_codes(), "active_is_update_manifest": upd}));
        if !o.accepted() {
            // a legitimate update chain that does not validate is not what the statement forbids, but it makes
            // the mutation cases vacuous: report loudly
            run.count("control_not_valid", 1);
            run.sample("unjudged:control-not-valid", 4, json!({"chain": ch.name, "state": o.state, "failures": o.failure_codes()}));
            continue;
        }
        if plan.ends_with("-u") && upd != Some(true) {
            run.count("update_intent_did_not_produce_update_manifest", 1);
        }
        for (cls, pos) in media_positions(ch.fmt, &ch.src, fin, &mut rng, run.tier.pick(2, 12)) {
            mjobs.push(MJob { chain: ci, class: cls, pos });
        }
    }
    let mres = par::par_map(mjobs.len(), |i| {
        let j = &mjobs[i];
        let ch = &chains[j.chain];
        let mut a = ch.steps.last().unwrap().1.clone();
        a[j.pos] ^= 1 << (j.pos % 8);
        read(ch.fmt, &a)
    });
    for (j, o) in mjobs.iter().zip(mres.iter()) {
        run.eval();
        let ch = &chains[j.chain];
        let tag = ch.name.split(':').next().unwrap_or("");
        let plan = ch.name.split(':').nth(1).unwrap_or("");
        run.nontrivial(format!("A|{}|{}|flip:{}|{}", tag, plan, j.class, o.state));
        run.sample(&format!("A:mutation:{}", if o.accepted() { "ACCEPTED" } else { "rejected" }), 2, json!({"chain": ch.name, "class": j.class, "pos": j.pos, "state": o.state, "failures": o.failure_codes()}));
        if o.state == "Panic" {
            run.violation(&format!("{}|panic|{}", ch.fmt, j.class), &format!("panic: {:?}", o.error), json!({"chain": ch.name, "pos": j.pos}));
        } else if o.accepted() {
            run.violation(&format!("{}|content-change-after-update|{}|{}", ch.fmt, plan, j.class.split('-').next().unwrap_or("")), &format!("bit flip at media byte {} ({}) of {} still reads {}", j.pos, j.class, ch.name, o.state), json!({"chain": ch.name, "pos": j.pos, "class": j.class}));
        }
    }

    // ---- route B
    let m0 = std_manifest("m0");
    let m0b = std_manifest("m0b");
    let legit = |extra: Vec<CraftAction>| {
        let mut a = vec![act("c2pa.opened", vec![0])];
        a.extend(extra);
        CraftSpec { manifests: vec![m0.clone(), update_manifest("u1", vec![parent_edge("m0", "parentOf")], a)], embed: false }
    };
    // (rule, judged: Some(true)=must be accepted control / Some(false)=must not be accepted / None=unjudged, spec)
    let mut cases: Vec<(String, Option<bool>, CraftSpec)> = Vec::new();
    cases.push(("control:legit".into(), Some(true), legit(vec![])));
    cases.push(("control:no-actions".into(), Some(true), CraftSpec { manifests: vec![m0.clone(), update_manifest("u1", vec![parent_edge("m0", "parentOf")], vec![])], embed: false }));
    for a in ["c2pa.edited.metadata", "c2pa.published"] {
        cases.push((format!("control:allowed-action:{a}"), Some(true), legit(vec![act(a, vec![])])));
    }
    cases.push(("parents:0:no-ingredient".into(), Some(false), CraftSpec { manifests: vec![m0.clone(), update_manifest("u1", vec![], vec![])], embed: false }));
    for rel in ["componentOf", "inputTo"] {
        cases.push((format!("parents:0:{rel}-only"), Some(false), CraftSpec { manifests: vec![m0.clone(), update_manifest("u1", vec![parent_edge("m0", rel)], vec![])], embed: false }));
    }
    cases.push(("parents:2:same-target".into(), Some(false), CraftSpec { manifests: vec![m0.clone(), update_manifest("u1", vec![parent_edge("m0", "parentOf"), parent_edge("m0", "parentOf")], vec![act("c2pa.opened", vec![0])])], embed: false }));
    cases.push(("parents:2:two-targets".into(), Some(false), CraftSpec { manifests: vec![m0b.clone(), m0.clone(), update_manifest("u1", vec![parent_edge("m0", "parentOf"), parent_edge("m0b", "parentOf")], vec![act("c2pa.opened", vec![0])])], embed: false }));
    cases.push(("parents:1+component".into(), None, CraftSpec { manifests: vec![m0b.clone(), m0.clone(), update_manifest("u1", vec![parent_edge("m0", "parentOf"), parent_edge("m0b", "componentOf")], vec![act("c2pa.opened", vec![0])])], embed: false }));
    {
        let mut u = update_manifest("u1", vec![parent_edge("m0", "parentOf")], vec![act("c2pa.opened", vec![0])]);
        u.hard_binding = true;
        cases.push(("hard-binding:valid-data-hash".into(), Some(false), CraftSpec { manifests: vec![m0.clone(), u], embed: false }));
    }
    let disallowed: Vec<&str> = if quick {
        vec!["c2pa.edited", "c2pa.created", "c2pa.placed", "c2pa.cropped", "c2pa.color_adjustments", "com.verif.custom"]
    } else {
        vec!["c2pa.edited", "c2pa.created", "c2pa.placed", "c2pa.cropped", "c2pa.color_adjustments", "c2pa.drawing", "c2pa.filtered", "c2pa.resized", "c2pa.converted", "c2pa.transcoded", "c2pa.repackaged", "c2pa.removed", "c2pa.unknown", "c2pa.watermarked", "com.verif.custom", "c2pa.edited.metadata2", "C2PA.OPENED"]
    };
    for a in &disallowed {
        let edges = if *a == "c2pa.placed" || *a == "c2pa.removed" { vec![0] } else { vec![] };
        cases.push((format!("action:{a}"), Some(false), legit(vec![act(a, edges.clone())])));
        // as the only action
        cases.push((format!("action-only:{a}"), Some(false), CraftSpec { manifests: vec![m0.clone(), update_manifest("u1", vec![parent_edge("m0", "parentOf")], vec![act(a, if *a == "c2pa.created" { vec![] } else { edges })])], embed: false }));
    }
    {
        let mut u = update_manifest("u1", vec![parent_edge("m0", "parentOf")], vec![act("c2pa.opened", vec![0])]);
        u.thumbnail = true;
        cases.push(("thumbnail:one-claim-thumbnail".into(), None, CraftSpec { manifests: vec![m0.clone(), u], embed: false }));
    }
    // update of update
    let u1 = update_manifest("u1", vec![parent_edge("m0", "parentOf")], vec![act("c2pa.opened", vec![0])]);
    let u2 = update_manifest("u2", vec![parent_edge("u1", "parentOf")], vec![act("c2pa.opened", vec![0])]);
    cases.push(("control:update-of-update".into(), Some(true), CraftSpec { manifests: vec![m0.clone(), u1.clone(), u2.clone()], embed: false }));
    {
        let mut bad_mid = u1.clone();
        bad_mid.actions.push(act("c2pa.edited", vec![]));
        cases.push(("middle-update-violates:action".into(), None, CraftSpec { manifests: vec![m0.clone(), bad_mid, u2.clone()], embed: false }));
        let mut bad_mid = u1.clone();
        bad_mid.hard_binding = true;
        cases.push(("middle-update-violates:hard-binding".into(), None, CraftSpec { manifests: vec![m0.clone(), bad_mid, u2.clone()], embed: false }));
    }
    let bres = par::par_map(cases.len(), |i| craft_read(&cases[i].2, None));
    let mut legit_ok = false;
    for ((rule, judged, spec), r) in cases.iter().zip(bres.iter()) {
        run.eval();
        match r {
            Err(e) => {
                run.count("craft_errors", 1);
                run.sample("craft-error", 4, json!({"rule": rule, "error": e}));
            }
            Ok(o) => {
                let rule_class = rule.split(':').take(2).collect::<Vec<_>>().join(":");
                match judged {
                    None => {
                        run.count(&format!("unjudged:{}:{}", rule, o.state), 1);
                        run.sample(&format!("unjudged:{}", rule_class), 1, json!({"rule": rule, "state": o.state, "failures": o.failure_codes()}));
                    }
                    Some(true) => {
                        run.nontrivial(format!("B|{}|{}", rule, o.state));
                        if rule == "control:legit" && o.accepted() {
                            legit_ok = true;
                        }
                        if !o.accepted() {
                            run.count("control_not_valid", 1);
                            run.sample("unjudged:control-not-valid", 4, json!({"rule": rule, "state": o.state, "failures": o.failure_codes()}));
                        }
                    }
                    Some(false) => {
                        run.nontrivial(format!("B|{}|{}", rule_class, o.state));
                        run.sample(&format!("B:{}", rule_class), 1, json!({"rule": rule, "state": o.state, "failures": o.failure_codes()}));
                        if o.state == "Panic" {
                            run.violation(&format!("jpg|{}|panic", rule_class), &format!("panic: {:?}", o.error), json!({"rule": rule, "spec": spec}));
                        } else if o.accepted() {
                            run.violation(&format!("jpg|{}|accepted", rule_class), &format!("update manifest violating '{rule}' reads {}", o.state), json!({"rule": rule, "spec": spec}));
                        }
                    }
                }
            }
        }
    }
    // crafted control + content mutation (side-car: the parent's data hash covers every byte of the asset)
    if legit_ok {
        let alen = assets::tiny_jpeg(None, false, &[]).len();
        let pos: Vec<usize> = vec![0, 2, alen / 2, alen - 3, alen - 1];
        let spec = legit(vec![]);
        let spec2 = CraftSpec { manifests: vec![m0.clone(), u1.clone(), u2.clone()], embed: false };
        for (name, sp) in [("crafted-update", &spec), ("crafted-update-of-update", &spec2)] {
            for p in &pos {
                run.eval();
                if let Ok(o) = craft_read(sp, Some(*p)) {
                    run.nontrivial(format!("B|{}|flip|{}", name, o.state));
                    if o.accepted() {
                        run.violation(&format!("jpg|content-change-after-update|{name}|sidecar"), &format!("bit flip at asset byte {p} under a crafted update manifest reads {}", o.state), json!({"pos": p, "spec": sp}));
                    }
                }
            }
        }
    } else {
        run.inconclusive("the crafted legitimate update manifest is not accepted: route B is vacuous");
    }

    run.engine("release", true, json!({"threads": par::workers()}));
    run.finish(25);
}
