//! GIF87a/89a block parser (CompuServe GIF89a spec): header, logical screen descriptor, global colour
//! table, extensions (graphic control F9, comment FE, plain text 01, application FF, unknown labels),
//! image descriptors + local colour table + LZW data sub-blocks, trailer 3B, trailing bytes.
//! The C2PA manifest store is the concatenated sub-block data of an application extension with
//! identifier "C2PA_GIF" and authentication code 01 00 00.
use super::{Container, Elem, Parsed};

/// Walks data sub-blocks starting at `o`; returns (offset after the terminator, data ranges).
fn sub_blocks(data: &[u8], mut o: usize) -> Result<(usize, Vec<(usize, usize)>), String> {
    let mut ranges = Vec::new();
    loop {
        let sz = *data.get(o).ok_or("sub-block chain runs past the end of the file")? as usize;
        o += 1;
        if sz == 0 {
            return Ok((o, ranges));
        }
        if o + sz > data.len() {
            return Err("sub-block runs past the end of the file".into());
        }
        ranges.push((o, sz));
        o += sz;
    }
}

pub fn parse(data: &[u8]) -> Result<Parsed, String> {
    if data.len() < 13 || (&data[..6] != b"GIF89a" && &data[..6] != b"GIF87a") {
        return Err("bad GIF signature".into());
    }
    let mut p = Parsed::default();
    p.elems.push(Elem::new("header", 0, 6, 0, 6));
    p.elems.push(Elem::new("LSD", 6, 7, 6, 7));
    let packed = data[10];
    let mut o = 13usize;
    if packed & 0x80 != 0 {
        let n = 3usize << ((packed & 7) + 1);
        if o + n > data.len() {
            return Err("global colour table truncated".into());
        }
        p.elems.push(Elem::new("GCT", o, n, o, n));
        o += n;
    }
    let mut trailer = false;
    while o < data.len() {
        let start = o;
        match data[o] {
            0x3B => {
                p.elems.push(Elem::new("trailer", o, 1, o, 0));
                o += 1;
                trailer = true;
                if o < data.len() {
                    p.elems.push(Elem::new("trailing", o, data.len() - o, o, data.len() - o));
                    o = data.len();
                }
                break;
            }
            0x2C => {
                if o + 10 > data.len() {
                    return Err("image descriptor truncated".into());
                }
                let ipacked = data[o + 9];
                let mut q = o + 10;
                if ipacked & 0x80 != 0 {
                    q += 3usize << ((ipacked & 7) + 1);
                }
                if q >= data.len() {
                    return Err("image data truncated".into());
                }
                q += 1; // LZW minimum code size
                let (end, _) = sub_blocks(data, q)?;
                p.elems.push(Elem::new("image", start, end - start, o + 10, end - o - 10));
                o = end;
            }
            0x21 => {
                let label = *data.get(o + 1).ok_or("extension truncated")?;
                let q = o + 2;
                match label {
                    0xFF => {
                        let bs = *data.get(q).ok_or("application extension truncated")? as usize;
                        if bs != 11 {
                            return Err(format!("application extension block size {bs} != 11"));
                        }
                        if q + 12 > data.len() {
                            return Err("application extension truncated".into());
                        }
                        let ident = &data[q + 1..q + 9];
                        let auth = &data[q + 9..q + 12];
                        let (end, ranges) = sub_blocks(data, q + 12)?;
                        let mut e = Elem::new(format!("app:{}", String::from_utf8_lossy(ident)), start, end - start, q + 12, end - q - 12);
                        if ident == b"C2PA_GIF" && auth == [1, 0, 0] {
                            e.is_c2pa = true;
                            let mut store = Vec::new();
                            for r in &ranges {
                                store.extend_from_slice(&data[r.0..r.0 + r.1]);
                            }
                            p.containers.push(Container { ranges: vec![(start, end - start)], store, store_ranges: ranges, encoded: false, label: "C2PA_GIF".into() });
                        }
                        p.elems.push(e);
                        o = end;
                    }
                    0xF9 => {
                        let bs = *data.get(q).ok_or("GCE truncated")? as usize;
                        if bs != 4 {
                            return Err(format!("graphic control extension block size {bs} != 4"));
                        }
                        let (end, _) = sub_blocks(data, q)?;
                        p.elems.push(Elem::new("ext:GCE", start, end - start, q, end - q));
                        o = end;
                    }
                    0x01 => {
                        let bs = *data.get(q).ok_or("plain text truncated")? as usize;
                        if bs != 12 {
                            return Err(format!("plain text extension block size {bs} != 12"));
                        }
                        let (end, _) = sub_blocks(data, q)?;
                        p.elems.push(Elem::new("ext:plaintext", start, end - start, q, end - q));
                        o = end;
                    }
                    _ => {
                        let (end, _) = sub_blocks(data, q)?;
                        let k = if label == 0xFE { "ext:comment".to_string() } else { format!("ext:{label:02x}") };
                        p.elems.push(Elem::new(k, start, end - start, q, end - q));
                        o = end;
                    }
                }
            }
            b => return Err(format!("unknown block introducer 0x{b:02x} at {o}")),
        }
    }
    if !trailer {
        return Err("no trailer (0x3B)".into());
    }
    Ok(p)
}
