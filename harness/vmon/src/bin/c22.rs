//! C22 — saving and restoring a working store preserves the manifest.
//!
//! Oracle (from the statement): for a builder B (generated definition + ingredients + optional
//! thumbnails), `report(sign(restore^k(archive^k(B))))` equals `report(sign(B))` for k = 1..3, where
//! `report` = normalised Reader JSON (volatile ids removed, digest values of hashed URIs masked and
//! counted) + validation codes + the SHA-256 of every resource the report references
//! (`resource_to_stream`).  B itself is signed *after* its archive was written (`to_archive(&self)`
//! does not consume it), so both sides start from the very same in-memory state.
//! Also: ingredient archives (`write_ingredient_archive` -> `add_ingredient_from_archive` on a fresh
//! builder with the same definition) and legacy ZIP archives (written by the harness in the
//! documented layout — the SDK can no longer write them) for definitions without ingredients.
//! If `to_archive` itself returns an error the statement's premise is false: unjudged (counted).
use c2pa::{Builder, Reader};
use serde_json::{json, Value};
use sha2::{Digest, Sha256};
use std::collections::BTreeMap;
use std::io::{Cursor, Write};
use vmon::defgen::{self, GenDef, GenOpts, IngredientPool, Intent};
use vmon::{assets, jumbf, par, report, signers, Rng, Run};

#[derive(Clone, Debug, serde::Serialize, serde::Deserialize)]
struct Cfg {
    asset: String,
    alg: String,
    thumbs: bool,
    compressed: bool,
    kind: String,
    k: usize,
}

struct Case {
    def: GenDef,
    cfg: Cfg,
}

#[derive(Debug)]
struct Rep {
    state: String,
    report: Value,
    codes: Vec<(String, String, String, String)>,
    resources: Vec<(String, String)>,
    claim_alg: Option<String>,
    hashes: Vec<String>,
}

fn collect_identifiers(v: &Value, out: &mut Vec<String>) {
    match v {
        Value::Object(m) => {
            if let (Some(Value::String(id)), Some(_)) = (m.get("identifier"), m.get("format")) {
                out.push(id.clone());
            }
            for (_, x) in m {
                collect_identifiers(x, out);
            }
        }
        Value::Array(a) => a.iter().for_each(|x| collect_identifiers(x, out)),
        _ => {}
    }
}

/// Replaces the digest of every hashed URI ({url, hash[, alg]}) by "H"; returns the digests seen.
fn mask_hashes(v: &mut Value, seen: &mut Vec<String>) {
    match v {
        Value::Object(m) => {
            if m.contains_key("url") && m.contains_key("hash") {
                if let Some(Value::String(h)) = m.get("hash") {
                    seen.push(h.clone());
                }
                m.insert("hash".into(), json!("H"));
            }
            for (_, x) in m.iter_mut() {
                mask_hashes(x, seen);
            }
        }
        Value::Array(a) => a.iter_mut().for_each(|x| mask_hashes(x, seen)),
        _ => {}
    }
}

fn claim_alg(store: &[u8]) -> Option<String> {
    let root = jumbf::parse_store(store)?;
    let active = *jumbf::manifests(&root).last()?;
    let mut all = Vec::new();
    active.walk(&mut all);
    for b in all {
        if &b.typ == b"jumb" && matches!(b.label.as_deref(), Some("c2pa.claim.v2") | Some("c2pa.claim")) {
            let c = b.children.iter().find(|c| &c.typ == b"cbor")?;
            let v: ciborium::Value = ciborium::from_reader(&store[c.payload_start()..c.end()]).ok()?;
            return v.as_map()?.iter().find(|(k, _)| k.as_text() == Some("alg")).and_then(|(_, v)| v.as_text()).map(|s| s.to_string());
        }
    }
    None
}

fn settings(cfg: &Cfg) -> c2pa::Context {
    if cfg.kind == "zip" {
        // restoring a legacy ZIP archive does not keep the caller's context (finding `zipctx|…`): use the
        // default context on both sides so that the content comparison is not masked by that
        return c2pa::Context::new();
    }
    defgen::context(true, cfg.thumbs, cfg.compressed, &json!({"verify": {"remote_manifest_fetch": false}}))
}

fn sign_and_report(b: &mut Builder, asset: &assets::Asset, alg: &str) -> Result<Rep, String> {
    let signer = signers::test_signer(alg);
    let mut src = Cursor::new(asset.bytes.clone());
    let mut dst = Cursor::new(Vec::new());
    let store = match report::catch_sdk(|| b.sign(signer.as_ref(), asset.format, &mut src, &mut dst)) {
        Ok(Ok(s)) => s,
        Ok(Err(e)) => return Err(format!("sign-error:{}", report::err_kind(&e))),
        Err(p) => return Err(format!("sign-panic:{p}")),
    };
    let out = dst.into_inner();
    let fmt = asset.format;
    let r = report::catch_sdk(move || {
        let ctx = defgen::context(true, false, false, &json!({"verify": {"remote_manifest_fetch": false}}));
        Reader::from_context(ctx).with_stream(fmt, Cursor::new(out)).map(|r| {
            let raw: Value = serde_json::from_str(&r.json()).unwrap_or(Value::Null);
            let mut ids = Vec::new();
            collect_identifiers(&raw, &mut ids);
            ids.sort();
            ids.dedup();
            let mut res = Vec::new();
            for id in ids {
                let mut buf = Cursor::new(Vec::new());
                let h = match r.resource_to_stream(&id, &mut buf) {
                    Ok(_) => hex::encode(&Sha256::digest(buf.get_ref())[..10]),
                    Err(e) => format!("ERR:{}", report::err_kind(&e)),
                };
                res.push((id, h));
            }
            (r.json(), format!("{:?}", r.validation_state()), report::codes_of(&r), res)
        })
    });
    match r {
        Ok(Ok((js, state, codes, res))) => {
            // name the active manifest "ACTIVE" (its label is a fresh uuid on every sign) so that paths
            // stay comparable; mask digests before the normaliser fingerprints the other manifests
            let probe: Value = serde_json::from_str(&js).unwrap_or(Value::Null);
            let js = match probe.get("active_manifest").and_then(|a| a.as_str()) {
                Some(l) => match report::find_uuids(l).first() {
                    Some((a, b)) => js.replace(&l[*a..*b], "ACTIVE"),
                    None => js,
                },
                None => js,
            };
            let mut raw: Value = serde_json::from_str(&js).unwrap_or(Value::Null);
            let mut hashes = Vec::new();
            mask_hashes(&mut raw, &mut hashes);
            // a listed hard binding (c2pa.hash.bmff.*) carries the digest of this very file and the hash
            // algorithm (compared separately through the claim's alg): mask both
            if let Some(ms) = raw.get_mut("manifests").and_then(|m| m.as_object_mut()) {
                for (_, m) in ms.iter_mut() {
                    if let Some(asserts) = m.get_mut("assertions").and_then(|a| a.as_array_mut()) {
                        for a in asserts {
                            if a.get("label").and_then(|l| l.as_str()).map(|l| l.starts_with("c2pa.hash.")).unwrap_or(false) {
                                if let Some(d) = a.get_mut("data").and_then(|d| d.as_object_mut()) {
                                    for k in ["hash", "alg"] {
                                        if d.contains_key(k) {
                                            d.insert(k.into(), json!("MASKED"));
                                        }
                                    }
                                }
                            }
                        }
                    }
                }
            }
            let rep = report::norm_report_value(&raw);
            // resource ids carry manifest labels (uuids): normalise them with the same mapping by
            // running them through the report normaliser inside a stub document
            let resources: Vec<(String, String)> = res
                .into_iter()
                .map(|(id, h)| {
                    let n = report::norm_report_value(&json!({"manifests": {}, "x": id}));
                    (n["x"].as_str().unwrap_or("").to_string(), h)
                })
                .collect();
            Ok(Rep { state, report: rep, codes, resources, claim_alg: claim_alg(&store), hashes })
        }
        Ok(Err(e)) => Err(format!("read-error:{}", report::err_kind(&e))),
        Err(p) => Err(format!("read-panic:{p}")),
    }
}

struct Res {
    class: String,
    violation: Option<(String, String)>,
    more: Vec<(String, String)>,
    unjudged: Vec<String>,
    counts: BTreeMap<String, u64>,
}

/// Writes the documented legacy ZIP layout (manifest.json only; definitions without resources).
fn legacy_zip(b: &Builder) -> Result<Vec<u8>, String> {
    let js = serde_json::to_string(b).map_err(|e| e.to_string())?;
    let mut z = zip::ZipWriter::new(Cursor::new(Vec::new()));
    let opt = zip::write::SimpleFileOptions::default().compression_method(zip::CompressionMethod::Stored);
    z.start_file("manifest.json", opt).map_err(|e| e.to_string())?;
    z.write_all(js.as_bytes()).map_err(|e| e.to_string())?;
    let c = z.finish().map_err(|e| e.to_string())?;
    Ok(c.into_inner())
}

/// Cause class of a difference: the path with indices / manifest names removed, plus the label of the
/// assertion it sits in (custom labels generalised).
fn first_path_class(p: &str, direct: &Value) -> String {
    let head = p.split(": ").next().unwrap_or("");
    let mut parts: Vec<String> = Vec::new();
    let mut cur: Option<&Value> = Some(direct);
    let mut label: Option<String> = None;
    for seg in head.split('/').filter(|s| !s.is_empty()) {
        let (name, idx) = match seg.find('[') {
            Some(i) => (&seg[..i], seg[i + 1..].trim_end_matches(']').parse::<usize>().ok()),
            None => (seg, None),
        };
        cur = cur.and_then(|c| c.get(name));
        if let Some(i) = idx {
            cur = cur.and_then(|c| c.get(i));
        }
        if name == "assertions" || name == "ingredients" {
            if let Some(l) = cur.and_then(|c| c.get("label")).and_then(|l| l.as_str()) {
                let l = l.split("__").next().unwrap_or(l);
                label = Some(if l.starts_with("c2pa.") { l.to_string() } else { "custom".to_string() });
            }
        }
        if parts.len() < 6 {
            parts.push(if name.contains("M-") { "*".into() } else if name.contains("ACTIVE") { "ACTIVE".into() } else { name.to_string() });
        }
    }
    match label {
        Some(l) => format!("{}@{l}", parts.join("/")),
        None => parts.join("/"),
    }
}

fn run_case(c: &Case, assets_v: &[assets::Asset], pool: &IngredientPool) -> Res {
    let mut counts: BTreeMap<String, u64> = BTreeMap::new();
    let mut unjudged = Vec::new();
    let asset = assets_v.iter().find(|a| a.name == c.cfg.asset).expect("asset");
    let tag = format!("{}|k{}|{}|{}", c.cfg.kind, c.cfg.k, c.def.shape(), if c.cfg.thumbs { "thumbs" } else { "nothumbs" });
    let done = |class: String, violation: Option<(String, String)>, unjudged: Vec<String>, counts: BTreeMap<String, u64>| Res { class, violation, more: vec![], unjudged, counts };
    let mut b = match report::catch_sdk(|| c.def.build(settings(&c.cfg), pool)) {
        Ok(Ok(b)) => b,
        Ok(Err(e)) => {
            unjudged.push(format!("build-error:{}", e.split(':').next().unwrap_or("")));
            return done(format!("{tag}|build-error"), None, unjudged, counts);
        }
        Err(p) => return done(format!("{tag}|build-panic"), Some((format!("build|panic|{}", c.cfg.kind), p)), unjudged, counts),
    };
    // ---- the restored side first (B is not consumed by to_archive)
    let restored: Result<Builder, (String, String)> = (|| {
        match c.cfg.kind.as_str() {
            "jumbf" | "zip" | "zipctx" => {
                let mut cur: Option<Builder> = None;
                for round in 0..c.cfg.k {
                    let src: &Builder = cur.as_ref().unwrap_or(&b);
                    let bytes = if c.cfg.kind.starts_with("zip") && round == 0 {
                        legacy_zip(src).map_err(|e| ("harness-zip".to_string(), e))?
                    } else {
                        let mut ar = Cursor::new(Vec::new());
                        match report::catch_sdk(|| src.to_archive(&mut ar)) {
                            Ok(Ok(())) => ar.into_inner(),
                            Ok(Err(e)) => return Err((format!("UNJUDGED:to_archive-error:{}", report::err_kind(&e)), format!("{e:?}"))),
                            Err(p) => return Err(("to_archive-panic".to_string(), p)),
                        }
                    };
                    *counts.entry("archive_bytes".into()).or_insert(0) += bytes.len() as u64;
                    let nb = match report::catch_sdk(|| Builder::from_context(settings(&c.cfg)).with_archive(Cursor::new(bytes))) {
                        Ok(Ok(nb)) => nb,
                        Ok(Err(e)) => return Err((format!("with_archive-error:{}", report::err_kind(&e)), format!("restore round {round}: {e:?}"))),
                        Err(p) => return Err(("with_archive-panic".to_string(), p)),
                    };
                    cur = Some(nb);
                }
                Ok(cur.expect("k>=1"))
            }
            _ => {
                // ingredient archive: every ingredient goes through write_ingredient_archive / add_ingredient_from_archive
                let ctx = defgen::context(true, c.cfg.thumbs, c.cfg.compressed, &json!({"verify": {"remote_manifest_fetch": false}, "builder": {"generate_c2pa_archive": true}}));
                let mut nb = c.def.builder_base(ctx).map_err(|e| ("harness-base".to_string(), e))?;
                for (i, g) in c.def.ingredients.iter().enumerate() {
                    let id = g.label.clone().ok_or_else(|| ("harness".to_string(), "ingredient without label".to_string()))?;
                    let mut bytes: Vec<u8> = Vec::new();
                    for round in 0..c.cfg.k {
                        let mut ar = Cursor::new(Vec::new());
                        let r = if round == 0 {
                            report::catch_sdk(|| b.write_ingredient_archive(&id, &mut ar))
                        } else {
                            // re-archive from a scratch builder that holds only the restored ingredient
                            let ctx2 = defgen::context(true, c.cfg.thumbs, c.cfg.compressed, &json!({"verify": {"remote_manifest_fetch": false}, "builder": {"generate_c2pa_archive": true}}));
                            let mut scratch = Builder::from_context(ctx2);
                            let mut cur = Cursor::new(bytes.clone());
                            match report::catch_sdk(|| scratch.add_ingredient_from_archive(&mut cur).map(|_| ())) {
                                Ok(Ok(())) => {}
                                Ok(Err(e)) => return Err((format!("add_ingredient_from_archive-error:{}", report::err_kind(&e)), format!("re-archive round {round}: {e:?}"))),
                                Err(p) => return Err(("add_ingredient_from_archive-panic".to_string(), p)),
                            }
                            report::catch_sdk(|| scratch.write_ingredient_archive(&id, &mut ar))
                        };
                        match r {
                            Ok(Ok(())) => bytes = ar.into_inner(),
                            Ok(Err(e)) => return Err((format!("UNJUDGED:write_ingredient_archive-error:{}", report::err_kind(&e)), format!("{e:?}"))),
                            Err(p) => return Err(("write_ingredient_archive-panic".to_string(), p)),
                        }
                    }
                    let mut cur = Cursor::new(bytes);
                    match report::catch_sdk(|| nb.add_ingredient_from_archive(&mut cur).map(|_| ())) {
                        Ok(Ok(())) => {}
                        Ok(Err(e)) => return Err((format!("add_ingredient_from_archive-error:{}", report::err_kind(&e)), format!("ingredient {i}: {e:?}"))),
                        Err(p) => return Err(("add_ingredient_from_archive-panic".to_string(), p)),
                    }
                }
                Ok(nb)
            }
        }
    })();
    let mut restored = match restored {
        Ok(r) => r,
        Err((what, detail)) => {
            if let Some(u) = what.strip_prefix("UNJUDGED:") {
                unjudged.push(u.to_string());
                return done(format!("{tag}|unjudged:{u}"), None, unjudged, counts);
            }
            return done(format!("{tag}|{what}"), Some((format!("{}|{what}", c.cfg.kind), detail)), unjudged, counts);
        }
    };
    // ---- both signs
    let direct = sign_and_report(&mut b, asset, &c.cfg.alg);
    let after = sign_and_report(&mut restored, asset, &c.cfg.alg);
    let (direct, after) = match (direct, after) {
        (Ok(d), Ok(a)) => (d, a),
        (Err(d), Err(a)) => {
            let same = d.split(':').take(2).collect::<Vec<_>>() == a.split(':').take(2).collect::<Vec<_>>();
            if same {
                unjudged.push(format!("both-sides-fail:{}", d.split(':').take(2).collect::<Vec<_>>().join(":")));
                return done(format!("{tag}|both-fail"), None, unjudged, counts);
            }
            return done(format!("{tag}|fail-differs"), Some((format!("{}|outcome:{}-vs-{}", c.cfg.kind, d.split(':').next().unwrap_or(""), a.split(':').next().unwrap_or("")), format!("direct: {d}; restored: {a}"))), unjudged, counts);
        }
        (Ok(_), Err(a)) => return done(format!("{tag}|restored-fails"), Some((format!("{}|restored-{}", c.cfg.kind, a.split(':').take(2).collect::<Vec<_>>().join(":")), format!("direct sign succeeds, restored builder fails: {a}"))), unjudged, counts),
        (Err(d), Ok(_)) => return done(format!("{tag}|direct-fails"), Some((format!("{}|only-direct-{}", c.cfg.kind, d.split(':').take(2).collect::<Vec<_>>().join(":")), format!("restored builder signs but the original fails: {d}"))), unjudged, counts),
    };
    let masked_diff = direct.hashes.iter().zip(after.hashes.iter()).filter(|(x, y)| x != y).count() + direct.hashes.len().abs_diff(after.hashes.len());
    *counts.entry("hashed_uri_digests_masked".into()).or_insert(0) += direct.hashes.len() as u64;
    *counts.entry("hashed_uri_digests_differing(masked)".into()).or_insert(0) += masked_diff as u64;
    *counts.entry("resources_hashed".into()).or_insert(0) += direct.resources.len() as u64;
    let mut viols: Vec<(String, String)> = Vec::new();
    if direct.claim_alg != after.claim_alg {
        viols.push(("hash-alg-not-preserved".to_string(), format!("k={}: claim alg of the direct sign {:?}, of the restored builder's sign {:?} (definition hash_alg {:?})", c.cfg.k, direct.claim_alg, after.claim_alg, c.def.hash_alg)));
    }
    // Ingredients taken from repository fixtures (stores written by older producers) differ after a restore in
    // thumbnail references/resources for the already-listed thumbnail reason; they are driven for the *nested
    // manifests*: judged on sign success (above), validation state/codes and the set of manifests only.
    let fixture_ing = c.def.ingredients.iter().any(|g| pool.items.get(g.pool).map(|i| i.name.starts_with("fixture:")).unwrap_or(false));
    if fixture_ing {
        let nm = |r: &Value| r.get("manifests").and_then(|m| m.as_object()).map(|m| m.len()).unwrap_or(0);
        if nm(&direct.report) != nm(&after.report) {
            viols.push((format!("{}|fixture-ingredient|manifest-count", c.cfg.kind), format!("k={}: direct sign reports {} manifests, restored builder's sign {}", c.cfg.k, nm(&direct.report), nm(&after.report))));
        } else if direct.state != after.state || direct.codes.iter().filter(|x| x.1 != "success").collect::<Vec<_>>() != after.codes.iter().filter(|x| x.1 != "success").collect::<Vec<_>>() {
            // (success codes merely echo which assertions exist, e.g. the copied thumbnail)
            viols.push((format!("{}|fixture-ingredient|validation-codes", c.cfg.kind), format!("state {} vs {}; codes only in direct {:?}; only in restored {:?}", direct.state, after.state, direct.codes.iter().filter(|x| !after.codes.contains(x)).collect::<Vec<_>>(), after.codes.iter().filter(|x| !direct.codes.contains(x)).collect::<Vec<_>>())));
        }
    } else if direct.report != after.report {
        let d = report::diff_paths(&direct.report, &after.report, 60);
        let mut classes: BTreeMap<String, String> = BTreeMap::new();
        let mut derivative: BTreeMap<String, String> = BTreeMap::new();
        for p in &d {
            let cls = first_path_class(p, &direct.report);
            // success lists only echo which assertions exist
            if cls.starts_with("validation_results") && cls.contains("success") {
                derivative.entry(cls).or_insert_with(|| p.clone());
            } else {
                classes.entry(cls).or_insert_with(|| p.clone());
            }
        }
        // a dropped ingredient thumbnail renumbers the remaining `c2pa.thumbnail.ingredient__n` labels
        if classes.keys().any(|k| k.contains("ingredients/thumbnail@")) {
            classes.retain(|k, _| !k.contains("ingredients/thumbnail/identifier@"));
        }
        if classes.is_empty() {
            classes = derivative;
        }
        for (cls, p) in classes.into_iter().take(5) {
            let prefix = if c.cfg.kind == "zipctx" { "zipctx|context-not-preserved".to_string() } else { format!("{}|{cls}", c.cfg.kind) };
            if !viols.iter().any(|v| v.0 == prefix) {
                viols.push((prefix, format!("k={} reports differ (first = direct, second = restored) at {p}", c.cfg.k)));
            }
        }
    } else if direct.codes != after.codes || direct.state != after.state {
        viols.push((format!("{}|validation-codes", c.cfg.kind), format!("state {} vs {}; codes only in direct {:?}; only in restored {:?}", direct.state, after.state, direct.codes.iter().filter(|x| !after.codes.contains(x)).collect::<Vec<_>>(), after.codes.iter().filter(|x| !direct.codes.contains(x)).collect::<Vec<_>>())));
    } else if direct.resources != after.resources {
        viols.push((format!("{}|resources", c.cfg.kind), format!("resources differ: direct {:?} restored {:?}", direct.resources, after.resources)));
    }
    let outcome = if viols.is_empty() { "equal" } else { "differs" };
    let mut it = viols.into_iter();
    let first = it.next();
    let mut r = done(format!("{tag}|{}|{outcome}", direct.state), first, unjudged, counts);
    r.more = it.collect();
    r
}

fn main() {
    let mut run = Run::from_args("C22", "exploration");
    report::quiet_panics();
    run.rule = "cases = defgen definitions (assertions incl. repeated labels/JSON kind/64 KB payloads, actions, 0-3 signed+unsigned ingredients, redactions, thumbnails on/off, intents) x archive kind {JUMBF working store via to_archive/with_archive, legacy ZIP written by the harness (no resources), ingredient archives via write_ingredient_archive/add_ingredient_from_archive} x chain length k=1..3 x several formats/algs; each compared with the direct sign of the same in-memory builder. Non-trivial = both sides signed and read; distinct = (kind, k, definition shape, thumbs, state, outcome).".into();
    run.assumptions = vec![
        "digest values inside hashed URIs are masked before comparison (counted: hashed_uri_digests_differing(masked))".into(),
        "to_archive/write_ingredient_archive returning an error makes the premise false: unjudged".into(),
        "the claim hash algorithm (read from the returned store) must survive the archive: it changes the listed hard-binding assertion of BMFF assets; digest/alg fields of listed c2pa.hash.* assertions are masked in the report comparison".into(),
        "legacy ZIP archives are written by the harness (manifest.json = serde JSON of the Builder); only definitions without ingredients; both sides use the default Context because the ZIP restore path drops the caller's context (directed case zipctx)".into(),
    ];
    let assets_v: Vec<assets::Asset> = assets::tiny_assets();
    let mut pool = defgen::ingredient_pool();
    // repository fixtures whose stores hold ingredient chains recorded by older producers (v1/v2 ingredient
    // assertions that reference the nested manifest through the legacy `c2pa_manifest` field)
    for f in ["ocsp.jpg", "CACA.jpg", "legacy_ingredient_hash.jpg", "CIE-sig-CA.jpg"] {
        if let Some(b) = vmon::assets::fixture(f) {
            pool.items.push(defgen::PoolItem { name: format!("fixture:{f}"), format: "jpg", bytes: b, signed: true, active_label: None, redactable: None, claim_v1: false });
        }
    }
    let mut rng = Rng::new(run.seed, "c22");
    let n = run.tier.pick(300usize, 5000usize);
    let mut cases = Vec::new();
    for i in 0..n {
        let mut r = rng.fork(i as u64);
        let kind = match i % 10 {
            0..=5 => "jumbf",
            6 | 7 => "ingredient",
            _ => "zip",
        };
        let mut opts = GenOpts::default();
        opts.big_payloads = r.chance(1, 6);
        opts.max_assertions = 8;
        opts.hash_alg = defgen::HASH_ALGS[r.usize(4)];
        match kind {
            "zip" => opts.n_ingredients = Some(0),
            "ingredient" => opts.n_ingredients = Some(1 + r.usize(2)),
            _ => {}
        }
        let choices = pool.choices(None);
        let mut def = defgen::gen_def(&mut r, &opts, &choices);
        if kind == "ingredient" {
            for (k, g) in def.ingredients.iter_mut().enumerate() {
                g.label = Some(format!("ing_{k}"));
            }
        }
        if kind == "jumbf" && r.chance(1, 3) {
            for k in 0..def.ingredients.len() {
                if def.ingredients[k].relationship != "inputTo" {
                    def.add_redaction(k, &pool);
                }
            }
        }
        if kind == "zip" && def.intent == Intent::Edit {
            def.intent = Intent::Create;
        }
        let a = &assets_v[r.usize(assets_v.len())];
        let cfg = Cfg { asset: a.name.clone(), alg: signers::ALGS[r.usize(7)].0.to_string(), thumbs: kind != "zip" && r.chance(1, 3), compressed: kind != "zip" && r.chance(1, 5), kind: kind.to_string(), k: 1 + (i / 10) % 3 };
        cases.push(Case { def, cfg });
    }
    // ---- directed cases (run on every invocation so that listed findings stay deterministic)
    {
        let plain = |intent: Intent| GenDef { title: Some("directed".into()), cgi: vec![], vendor: None, claim_version: None, hash_alg: None, assertions: vec![defgen::GenAssertion { label: "org.verif.d".into(), json_kind: false, via: defgen::Via::Definition, data: json!({"d": 1}), steer: None }], actions: vec![], actions_via_api: false, ingredients: vec![], intent, redactions: vec![] };
        let cfg = |kind: &str, asset: &str, thumbs: bool| Cfg { asset: asset.into(), alg: "ed25519".into(), thumbs, compressed: false, kind: kind.into(), k: 1 };
        let unsigned_jpg = pool.items.iter().position(|i| i.name == "unsigned:tiny.jpg").unwrap_or(0);
        let signed_jpg = pool.items.iter().position(|i| i.name == "signed:tiny.jpg").unwrap_or(0);
        // (1) legacy ZIP restored into a builder that was given a non-default context
        cases.push(Case { def: plain(Intent::Create), cfg: cfg("zipctx", "tiny.png", false) });
        // (2) ingredient thumbnails (thumbnails enabled): a signed ingredient whose own manifest has no claim
        // thumbnail gets a freshly generated one, so does an unsigned one
        let mut d = plain(Intent::Create);
        d.ingredients.push(defgen::GenIngredient { pool: signed_jpg, relationship: "componentOf".into(), title: Some("thumb signed".into()), label: Some("ing_0".into()) });
        d.ingredients.push(defgen::GenIngredient { pool: unsigned_jpg, relationship: "componentOf".into(), title: Some("thumb unsigned".into()), label: Some("ing_1".into()) });
        cases.push(Case { def: d.clone(), cfg: cfg("jumbf", "tiny.png", true) });
        cases.push(Case { def: d, cfg: cfg("ingredient", "tiny.png", true) });
        // (5) a version-1 claim through the archive
        let mut d = plain(Intent::Create);
        d.claim_version = Some(1);
        d.cgi = vec![json!({"name": "verif", "version": "1.0"})];
        cases.push(Case { def: d, cfg: cfg("jumbf", "tiny.png", false) });
        // (6) fixture ingredients with nested manifests from older producers
        for (pi, it) in pool.items.iter().enumerate() {
            if it.name.starts_with("fixture:") {
                let mut d = plain(Intent::Create);
                d.ingredients.push(defgen::GenIngredient { pool: pi, relationship: "componentOf".into(), title: Some(it.name.clone()), label: Some("ing_f".into()) });
                cases.push(Case { def: d.clone(), cfg: cfg("jumbf", "tiny.png", false) });
                cases.push(Case { def: d, cfg: cfg("ingredient", "tiny.png", false) });
            }
        }
        // (3) hash_alg
        let mut d = plain(Intent::Create);
        d.hash_alg = Some("sha512".into());
        cases.push(Case { def: d, cfg: cfg("jumbf", "tiny.png", false) });
        // (4) redaction of an assertion of a signed parent
        let mut d = plain(Intent::Edit);
        d.ingredients.push(defgen::GenIngredient { pool: signed_jpg, relationship: "parentOf".into(), title: Some("parent".into()), label: None });
        d.add_redaction(0, &pool);
        cases.push(Case { def: d, cfg: cfg("jumbf", "tiny.jpg", false) });
    }
    let results = par::par_map_watch(cases.len(), 600, |i| println!("INCONCLUSIVE: property=C22 watchdog: case {i} exceeded 600 s"), |i| run_case(&cases[i], &assets_v, &pool));
    let mut unjudged: BTreeMap<String, u64> = BTreeMap::new();
    for (i, r) in results.iter().enumerate() {
        run.eval();
        for (k, v) in &r.counts {
            run.count(k, *v);
        }
        for u in &r.unjudged {
            *unjudged.entry(u.clone()).or_insert(0) += 1;
        }
        let judged = r.class.ends_with("|equal") || r.class.ends_with("|differs") || r.violation.is_some();
        if judged {
            run.nontrivial(r.class.clone());
        } else {
            run.count("unjudged_cases", 1);
        }
        let w = json!({"def": cases[i].def, "cfg": cases[i].cfg});
        run.sample(if r.violation.is_some() { "violating" } else if judged { "held" } else { "unjudged" }, 2, json!({"cfg": cases[i].cfg, "shape": cases[i].def.shape()}));
        if let Some((sig, what)) = &r.violation {
            run.violation(sig, what, w.clone());
        }
        for (sig, what) in &r.more {
            run.violation(sig, what, w.clone());
        }
    }
    run.set("unjudged", json!(unjudged));
    run.engine("release", true, json!({"threads": par::workers()}));
    run.finish(25);
}
