//! RFC 3161 time-stamp authority and RFC 6960 OCSP responder helpers for C36 / C37.
//!
//! Two independent producers for each artefact:
//!   * the OpenSSL command line (`openssl ts -reply`, `openssl ocsp -index …`): always "now";
//!   * DER encoders written here on top of `pki::der` (arbitrary genTime / thisUpdate / nextUpdate,
//!     TSA or responder certificates the CLI refuses to use, missing certificates …).
//! And one independent judge: `openssl ts -verify` / `openssl ocsp -respin` (with `-attime`).
//!
//! Nothing in this module uses SDK code.
use crate::pki::{self, der, Cert, CliOutput, Key, Md, SigAlg};
use std::path::Path;
use std::sync::atomic::{AtomicU64, Ordering};

pub const OID_SIGNED_DATA: &str = "1.2.840.113549.1.7.2";
pub const OID_CT_TSTINFO: &str = "1.2.840.113549.1.9.16.1.4";
pub const OID_ATTR_CONTENT_TYPE: &str = "1.2.840.113549.1.9.3";
pub const OID_ATTR_MESSAGE_DIGEST: &str = "1.2.840.113549.1.9.4";
pub const OID_ATTR_SIGNING_TIME: &str = "1.2.840.113549.1.9.5";
pub const OID_ATTR_SIGNING_CERT_V2: &str = "1.2.840.113549.1.9.16.2.47";
pub const OID_OCSP_BASIC: &str = "1.3.6.1.5.5.7.48.1.1";

static SERIAL: AtomicU64 = AtomicU64::new(0x1000);

fn next_serial() -> u64 {
    SERIAL.fetch_add(1, Ordering::Relaxed)
}

pub fn digest(md: Md, data: &[u8]) -> Vec<u8> {
    openssl::hash::hash(md.ossl(), data).expect("hash").to_vec()
}

fn md_alg_id(md: Md) -> Vec<u8> {
    der::seq(&[der::oid(md.oid()), der::null()])
}

fn write(dir: &Path, name: &str, bytes: &[u8]) -> Result<(), String> {
    std::fs::write(dir.join(name), bytes).map_err(|e| format!("write {name}: {e}"))
}

fn cli(args: &[&str], dir: &Path) -> Result<CliOutput, String> {
    pki::openssl_cli(args, b"", Some(dir))
}

// ------------------------------------------------------------------------------------------------
// Local TSA through the OpenSSL CLI
// ------------------------------------------------------------------------------------------------
/// A time-stamping authority run with `openssl ts -reply`.  Every call uses its own scratch
/// directory (config, serial file), so it can be shared between worker threads.
#[derive(Clone)]
pub struct CliTsa {
    pub cert: Cert,
    pub key_pem: Vec<u8>,
    /// certificates added to the token besides the signer (`certs =` in the tsa section)
    pub chain: Vec<Cert>,
}

impl CliTsa {
    pub fn new(cert: &Cert, key: &Key, chain: &[Cert]) -> CliTsa {
        CliTsa { cert: cert.clone(), key_pem: key.private_pem(), chain: chain.to_vec() }
    }

    fn setup(&self, dir: &Path) -> Result<(), String> {
        let mut conf = String::from(
            "[tsa]\ndefault_tsa = tsa1\n[tsa1]\ndir = .\nserial = ./serial\ncrypto_device = builtin\n\
             signer_cert = ./tsa.pem\nsigner_key = ./tsa.key\nsigner_digest = sha256\n\
             default_policy = 1.3.6.1.4.1.57264.99.36\ndigests = sha1, sha256, sha384, sha512\n\
             accuracy = secs:1\nordering = no\ntsa_name = no\ness_cert_id_chain = no\ness_cert_id_alg = sha256\n",
        );
        if !self.chain.is_empty() {
            conf.push_str("certs = ./chain.pem\n");
            let ders: Vec<Vec<u8>> = self.chain.iter().map(|c| c.der.clone()).collect();
            write(dir, "chain.pem", pki::pem_bundle(&ders).as_bytes())?;
        }
        write(dir, "tsa.cnf", conf.as_bytes())?;
        write(dir, "tsa.pem", self.cert.pem().as_bytes())?;
        write(dir, "tsa.key", &self.key_pem)?;
        write(dir, "serial", format!("{:X}\n", next_serial()).as_bytes())
    }

    /// `openssl ts -reply -queryfile`: the DER TimeStampResp for a DER TimeStampReq.
    /// Err = the tool could not produce a reply (refused or not runnable).
    pub fn reply(&self, query_der: &[u8]) -> Result<Vec<u8>, String> {
        let dir = tempfile::tempdir().map_err(|e| format!("tempdir: {e}"))?;
        self.setup(dir.path())?;
        write(dir.path(), "q.tsq", query_der)?;
        let o = cli(&["ts", "-reply", "-config", "tsa.cnf", "-queryfile", "q.tsq", "-out", "r.tsr"], dir.path())?;
        if !o.ok() {
            return Err(format!("openssl ts -reply failed: {}", o.text().trim()));
        }
        std::fs::read(dir.path().join("r.tsr")).map_err(|e| format!("read reply: {e}"))
    }

    /// `openssl ts -query -digest <hex> -<md> [-cert]` followed by `reply`.
    pub fn stamp_digest(&self, md: Md, digest_bytes: &[u8], cert_req: bool) -> Result<Vec<u8>, String> {
        let q = cli_query(md, digest_bytes, cert_req)?;
        self.reply(&q)
    }
}

/// `openssl ts -query`: a DER TimeStampReq for a digest (with nonce).
pub fn cli_query(md: Md, digest_bytes: &[u8], cert_req: bool) -> Result<Vec<u8>, String> {
    let dir = tempfile::tempdir().map_err(|e| format!("tempdir: {e}"))?;
    let hexd = hex::encode(digest_bytes);
    let mdflag = format!("-{}", md.name());
    let mut args = vec!["ts", "-query", "-digest", hexd.as_str(), mdflag.as_str(), "-out", "q.tsq"];
    if cert_req {
        args.push("-cert");
    }
    let o = cli(&args, dir.path())?;
    if !o.ok() {
        return Err(format!("openssl ts -query failed: {}", o.text().trim()));
    }
    std::fs::read(dir.path().join("q.tsq")).map_err(|e| format!("read query: {e}"))
}

/// Verdict of `openssl ts -verify`.
#[derive(Clone, Debug)]
pub struct TsVerdict {
    pub ok: bool,
    pub detail: String,
}

/// `openssl ts -verify -digest <hex> -in <resp|token> [-token_in] -CAfile anchors [-untrusted x] [-attime t]`.
/// `anchors` empty → verdict "not ok" without running the tool.
pub fn cli_ts_verify(
    resp_or_token: &[u8],
    is_token: bool,
    digest_bytes: &[u8],
    anchors: &[Vec<u8>],
    untrusted: &[Vec<u8>],
    attime: Option<i64>,
) -> Result<TsVerdict, String> {
    if anchors.is_empty() {
        return Ok(TsVerdict { ok: false, detail: "no anchors".into() });
    }
    let dir = tempfile::tempdir().map_err(|e| format!("tempdir: {e}"))?;
    write(dir.path(), "in.der", resp_or_token)?;
    write(dir.path(), "anchors.pem", pki::pem_bundle(anchors).as_bytes())?;
    let hexd = hex::encode(digest_bytes);
    let mut args: Vec<String> =
        ["ts", "-verify", "-digest", hexd.as_str(), "-in", "in.der", "-CAfile", "anchors.pem"].iter().map(|s| s.to_string()).collect();
    if is_token {
        args.push("-token_in".into());
    }
    if !untrusted.is_empty() {
        write(dir.path(), "untrusted.pem", pki::pem_bundle(untrusted).as_bytes())?;
        args.push("-untrusted".into());
        args.push("untrusted.pem".into());
    }
    if let Some(t) = attime {
        args.push("-attime".into());
        args.push(t.to_string());
    }
    let argv: Vec<&str> = args.iter().map(|s| s.as_str()).collect();
    let o = cli(&argv, dir.path())?;
    let text = o.text();
    if o.ok() && text.contains("Verification: OK") {
        return Ok(TsVerdict { ok: true, detail: String::new() });
    }
    if text.contains("Verification: FAILED") || o.status == Some(1) {
        let detail: Vec<&str> = text.lines().filter(|l| l.contains("error") || l.contains("FAILED")).take(3).collect();
        return Ok(TsVerdict { ok: false, detail: detail.join("; ") });
    }
    Err(format!("openssl ts -verify: unexpected result {:?}: {}", o.status, text.trim()))
}

// ------------------------------------------------------------------------------------------------
// Own RFC 3161 token encoder
// ------------------------------------------------------------------------------------------------
#[derive(Clone)]
pub struct TokenSpec<'a> {
    pub imprint_md: Md,
    /// hashedMessage as written (any length)
    pub imprint: Vec<u8>,
    pub gen_time: i64,
    /// signingTime signed attribute; None = same as gen_time; Some(None) is not expressible: use `omit_signing_time`
    pub signing_time_attr: Option<i64>,
    pub omit_signing_time: bool,
    pub tsa_cert: &'a Cert,
    pub tsa_key: &'a Key,
    /// certificates put into SignedData.certificates (signer first is conventional); empty = field absent
    pub certs: Vec<Vec<u8>>,
    /// accuracy seconds (None = absent)
    pub accuracy_secs: Option<u64>,
    pub nonce: Option<u64>,
}

pub struct Token {
    /// TimeStampResp DER (status granted + token): the `sigTst` wire form
    pub resp: Vec<u8>,
    /// TimeStampToken (ContentInfo) DER: the `sigTst2` wire form
    pub token: Vec<u8>,
    pub tst_info: Vec<u8>,
}

pub fn tst_info_der(s: &TokenSpec) -> Vec<u8> {
    let mut parts = vec![
        der::uint_u64(1),
        der::oid("1.3.6.1.4.1.57264.99.36"),
        der::seq(&[md_alg_id(s.imprint_md), der::octet(&s.imprint)]),
        der::uint_u64(next_serial()),
        der::generalized_time(s.gen_time),
    ];
    if let Some(a) = s.accuracy_secs {
        parts.push(der::seq(&[der::uint_u64(a)]));
    }
    if let Some(n) = s.nonce {
        parts.push(der::uint_u64(n));
    }
    der::seq(&parts)
}

fn attribute(oid: &str, value: Vec<u8>) -> Vec<u8> {
    der::seq(&[der::oid(oid), der::set(&[value])])
}

/// CMS signature algorithm + signature value for `key` over `data` (digest sha256).
fn cms_sign(key: &Key, data: &[u8]) -> (Vec<u8>, Vec<u8>) {
    let alg = SigAlg::Auto.resolve(key.kind);
    let alg = match alg {
        SigAlg::Ecdsa(_) => SigAlg::Ecdsa(Md::Sha256),
        SigAlg::RsaPkcs1(_) => SigAlg::RsaPkcs1(Md::Sha256),
        other => other,
    };
    (alg.alg_id(), alg.sign(key, data))
}

/// Builds a complete time-stamp token (CMS SignedData over TSTInfo with ESS signing-certificate-v2).
pub fn make_token(s: &TokenSpec) -> Token {
    let tst = tst_info_der(s);
    let mut attrs = vec![
        attribute(OID_ATTR_CONTENT_TYPE, der::oid(OID_CT_TSTINFO)),
        attribute(OID_ATTR_MESSAGE_DIGEST, der::octet(&digest(Md::Sha256, &tst))),
        attribute(
            OID_ATTR_SIGNING_CERT_V2,
            der::seq(&[der::seq(&[der::seq(&[der::octet(&digest(Md::Sha256, &s.tsa_cert.der))])])]),
        ),
    ];
    if !s.omit_signing_time {
        attrs.push(attribute(OID_ATTR_SIGNING_TIME, der::time(s.signing_time_attr.unwrap_or(s.gen_time))));
    }
    attrs.sort(); // DER SET OF ordering
    let signed_attrs_set = der::set(&attrs); // what is signed (tag 0x31)
    let (sig_alg, sig) = cms_sign(s.tsa_key, &signed_attrs_set);
    let mut signed_attrs_field = signed_attrs_set.clone();
    signed_attrs_field[0] = 0xA0; // [0] IMPLICIT
    let signer_info = der::seq(&[
        der::uint_u64(1),
        der::seq(&[s.tsa_cert.issuer.der(), der::uint(&s.tsa_cert.spec.serial)]),
        md_alg_id(Md::Sha256),
        signed_attrs_field,
        sig_alg,
        der::octet(&sig),
    ]);
    let mut sd = vec![
        der::uint_u64(3),
        der::set(&[md_alg_id(Md::Sha256)]),
        der::seq(&[der::oid(OID_CT_TSTINFO), der::ctx(0, true, &der::octet(&tst))]),
    ];
    if !s.certs.is_empty() {
        let mut c = s.certs.clone();
        c.sort();
        sd.push(der::ctx(0, true, &der::cat(&c)));
    }
    sd.push(der::set(&[signer_info]));
    let token = der::seq(&[der::oid(OID_SIGNED_DATA), der::ctx(0, true, &der::seq(&sd))]);
    let resp = der::seq(&[der::seq(&[der::uint_u64(0)]), token.clone()]);
    Token { resp, token, tst_info: tst }
}

/// Extracts the TimeStampToken (ContentInfo DER) from a TimeStampResp.
pub fn token_of_resp(resp: &[u8]) -> Option<Vec<u8>> {
    let (tag, body, _) = der::read(resp)?;
    if tag != 0x30 {
        return None;
    }
    let kids = der::children(body);
    kids.get(1).map(|k| k.to_vec())
}

/// Byte range (start, len) of the TSTInfo DER inside a token / response, found structurally.
pub fn locate_tst_info(buf: &[u8]) -> Option<(usize, usize)> {
    // the encapsulated content: OID id-ct-TSTInfo, then [0] { OCTET STRING { TSTInfo } }
    let oid = der::oid(OID_CT_TSTINFO);
    let pos = buf.windows(oid.len()).position(|w| w == oid.as_slice())?;
    let after = pos + oid.len();
    let (tag, c0, _) = der::read(&buf[after..])?;
    if tag != 0xA0 {
        return None;
    }
    // offsets by subtraction of slice pointers
    let off = |inner: &[u8]| inner.as_ptr() as usize - buf.as_ptr() as usize;
    let (t2, oct, _) = der::read(c0)?;
    if t2 != 0x04 {
        return None;
    }
    Some((off(oct), oct.len()))
}

/// genTime (unix seconds) and byte offset of the last seconds digit of genTime inside `buf`.
pub fn locate_gen_time(buf: &[u8]) -> Option<(i64, usize)> {
    let (start, len) = locate_tst_info(buf)?;
    let tst = &buf[start..start + len];
    let (_, body, _) = der::read(tst)?;
    for kid in der::children(body) {
        if kid[0] == 0x18 {
            let (_, c, _) = der::read(kid)?;
            let s = std::str::from_utf8(c).ok()?;
            let base = &s[..14];
            let dt = chrono::NaiveDateTime::parse_from_str(base, "%Y%m%d%H%M%S").ok()?;
            let off = c.as_ptr() as usize - buf.as_ptr() as usize + 13;
            return Some((dt.and_utc().timestamp(), off));
        }
    }
    None
}

// ------------------------------------------------------------------------------------------------
// OCSP
// ------------------------------------------------------------------------------------------------
#[derive(Clone, Debug, PartialEq)]
pub enum OcspStatus {
    Good,
    /// revocationTime, optional CRLReason
    Revoked(i64, Option<u8>),
    Unknown,
}

impl OcspStatus {
    pub fn name(&self) -> &'static str {
        match self {
            OcspStatus::Good => "good",
            OcspStatus::Revoked(..) => "revoked",
            OcspStatus::Unknown => "unknown",
        }
    }
}

/// CertID (SHA-1) for serial `serial` issued by `issuer` (key `issuer_key`).
pub fn cert_id(issuer: &Cert, issuer_key: &Key, serial: &[u8]) -> Vec<u8> {
    der::seq(&[
        md_alg_id(Md::Sha1),
        der::octet(&digest(Md::Sha1, &issuer.spec.subject.der())),
        der::octet(&digest(Md::Sha1, &issuer_key.public_key_bits())),
        der::uint(serial),
    ])
}

pub struct OcspSpec<'a> {
    /// (certID DER, status, thisUpdate, nextUpdate)
    pub singles: Vec<(Vec<u8>, OcspStatus, i64, Option<i64>)>,
    pub produced_at: i64,
    pub responder_cert: &'a Cert,
    pub responder_key: &'a Key,
    /// certificates embedded in the response (DER); empty = field absent
    pub certs: Vec<Vec<u8>>,
    /// responderID byKey instead of byName
    pub by_key: bool,
}

pub fn make_ocsp_response(s: &OcspSpec) -> Vec<u8> {
    let responses: Vec<Vec<u8>> = s
        .singles
        .iter()
        .map(|(cid, st, this_upd, next_upd)| {
            let status = match st {
                OcspStatus::Good => vec![0x80, 0x00],
                OcspStatus::Unknown => vec![0x82, 0x00],
                OcspStatus::Revoked(t, reason) => {
                    let mut c = der::generalized_time(*t);
                    if let Some(r) = reason {
                        c.extend(der::ctx(0, true, &der::tlv(0x0A, &[*r])));
                    }
                    der::tlv(0xA1, &c)
                }
            };
            let mut parts = vec![cid.clone(), status, der::generalized_time(*this_upd)];
            if let Some(n) = next_upd {
                parts.push(der::ctx(0, true, &der::generalized_time(*n)));
            }
            der::seq(&parts)
        })
        .collect();
    let responder_id = if s.by_key {
        der::ctx(2, true, &der::octet(&s.responder_key.key_id()))
    } else {
        der::ctx(1, true, &s.responder_cert.spec.subject.der())
    };
    let tbs = der::seq(&[responder_id, der::generalized_time(s.produced_at), der::seq(&responses)]);
    let (alg, sig) = cms_sign(s.responder_key, &tbs);
    let mut basic = vec![tbs, alg, der::bitstring(&sig, 0)];
    if !s.certs.is_empty() {
        basic.push(der::ctx(0, true, &der::seq(&s.certs)));
    }
    let basic = der::seq(&basic);
    der::seq(&[
        der::tlv(0x0A, &[0]),
        der::ctx(0, true, &der::seq(&[der::oid(OID_OCSP_BASIC), der::octet(&basic)])),
    ])
}

/// One line of an OpenSSL CA database (`index.txt`).
pub fn index_line(status: &OcspStatus, cert: &Cert) -> String {
    let fmt = |t: i64| chrono::DateTime::<chrono::Utc>::from_timestamp(t, 0).unwrap().format("%y%m%d%H%M%SZ").to_string();
    let serial = {
        let h = hex::encode_upper(&cert.spec.serial);
        let h = h.trim_start_matches('0').to_string();
        if h.len() % 2 == 1 { format!("0{h}") } else if h.is_empty() { "00".into() } else { h }
    };
    let subj = "/O=verif/CN=x";
    match status {
        OcspStatus::Good => format!("V\t{}\t\t{}\tunknown\t{}\n", fmt(cert.spec.not_after), serial, subj),
        OcspStatus::Revoked(t, reason) => {
            let r = match reason {
                Some(1) => ",keyCompromise",
                Some(4) => ",superseded",
                Some(5) => ",cessationOfOperation",
                _ => "",
            };
            format!("R\t{}\t{}{}\t{}\tunknown\t{}\n", fmt(cert.spec.not_after), fmt(*t), r, serial, subj)
        }
        OcspStatus::Unknown => String::new(),
    }
}

/// `openssl ocsp -index … -CA ca -rsigner r -rkey k -reqin req -respout resp -ndays n`:
/// response for `subject` (issued by `ca`), status taken from `index` (a cert that is not in the
/// index is answered "unknown").  thisUpdate = now.
pub fn cli_ocsp_response(
    index: &str,
    ca: &Cert,
    subject: &Cert,
    rsigner: &Cert,
    rkey: &Key,
    ndays: u32,
    no_certs: bool,
) -> Result<Vec<u8>, String> {
    let dir = tempfile::tempdir().map_err(|e| format!("tempdir: {e}"))?;
    let d = dir.path();
    write(d, "index.txt", index.as_bytes())?;
    write(d, "ca.pem", ca.pem().as_bytes())?;
    write(d, "ee.pem", subject.pem().as_bytes())?;
    write(d, "r.pem", rsigner.pem().as_bytes())?;
    write(d, "r.key", &rkey.private_pem())?;
    let o = cli(&["ocsp", "-issuer", "ca.pem", "-cert", "ee.pem", "-no_nonce", "-reqout", "req.der"], d)?;
    if !o.ok() {
        return Err(format!("openssl ocsp -reqout failed: {}", o.text().trim()));
    }
    let nd = ndays.to_string();
    let mut args = vec![
        "ocsp", "-index", "index.txt", "-CA", "ca.pem", "-rsigner", "r.pem", "-rkey", "r.key", "-reqin", "req.der", "-respout",
        "resp.der", "-ndays", nd.as_str(),
    ];
    if no_certs {
        args.push("-resp_no_certs");
    }
    let o = cli(&args, d)?;
    if !o.ok() {
        return Err(format!("openssl ocsp responder failed: {}", o.text().trim()));
    }
    std::fs::read(d.join("resp.der")).map_err(|e| format!("read resp: {e}"))
}

#[derive(Clone, Debug)]
pub struct OcspVerdict {
    /// "Response verify OK"
    pub signature_and_responder_ok: bool,
    /// status line for the certificate asked about: "good" | "revoked" | "unknown" | "" (no matching single response)
    pub status: String,
    /// thisUpdate/nextUpdate acceptable at `attime`
    pub times_ok: bool,
    pub text: String,
}

/// `openssl ocsp -respin resp -issuer ca -cert ee -CAfile anchors [-attime t]`: the independent verdict.
pub fn cli_ocsp_verify(resp: &[u8], ca: &Cert, subject: &Cert, anchors: &[Vec<u8>], attime: Option<i64>) -> Result<OcspVerdict, String> {
    let dir = tempfile::tempdir().map_err(|e| format!("tempdir: {e}"))?;
    let d = dir.path();
    write(d, "resp.der", resp)?;
    write(d, "ca.pem", ca.pem().as_bytes())?;
    write(d, "ee.pem", subject.pem().as_bytes())?;
    write(d, "anchors.pem", pki::pem_bundle(anchors).as_bytes())?;
    let mut args: Vec<String> = ["ocsp", "-respin", "resp.der", "-issuer", "ca.pem", "-cert", "ee.pem", "-CAfile", "anchors.pem", "-no_nonce"]
        .iter()
        .map(|s| s.to_string())
        .collect();
    if let Some(t) = attime {
        args.push("-attime".into());
        args.push(t.to_string());
    }
    let argv: Vec<&str> = args.iter().map(|s| s.as_str()).collect();
    let o = cli(&argv, d)?;
    let text = o.text();
    // "ee.pem: good" | "ee.pem: WARNING: Status times invalid." followed by a bare status line | "ee.pem: ERROR: No Status found."
    let first = text
        .lines()
        .find_map(|l| l.strip_prefix("ee.pem: "))
        .map(|s| s.split_whitespace().next().unwrap_or("").to_lowercase())
        .unwrap_or_default();
    let status = if first == "good" || first == "revoked" || first == "unknown" {
        first
    } else if first.starts_with("warning") {
        text.lines().map(|l| l.trim().to_lowercase()).find(|l| l == "good" || l == "revoked" || l == "unknown").unwrap_or_default()
    } else {
        String::new()
    };
    Ok(OcspVerdict {
        signature_and_responder_ok: text.contains("Response verify OK"),
        times_ok: !text.contains("Status times invalid") && !text.contains("status expired") && !text.contains("status not yet valid"),
        status,
        text,
    })
}
