//! C33 — CAWG identity assertions bind exactly the referenced assertions.
//!
//! Statement: an X.509 identity assertion created by the SDK validates, and any change to a
//! referenced assertion, to the signer payload, to the identity signature or to its padding is
//! reported with a cawg failure code.  CAWG failures never make the C2PA manifest itself Invalid.
//!
//! Workload: manifests are signed with the `cawg_x509_signer` settings signer (fixture keys) over a
//! generated set of referenced assertions (hard binding + 0..5 custom assertions out of 5) on tiny
//! JPEG / PNG / MP4 assets.  Mutations are injected *before C2PA signing* by a `Signer` wrapper whose
//! `dynamic_assertions()` wraps the SDK's identity assertion builder: the CBOR it returns is decoded
//! (ciborium), mutated, re-padded to the reserved size and handed to the SDK, so the C2PA claim
//! hashes the mutated assertion and stays self-consistent.  Post-signing mutations flip one byte of
//! a referenced assertion inside the finished asset.
//!
//! Oracle (from the statement, per reader mode x CAWG trust mode):
//!   control (no mutation): a `cawg.identity.*` / `cawg.x509.*validated` success, no `cawg.*` failure
//!           (trust mode "no-anchor": the only failure allowed is cawg.x509.credential.untrusted);
//!   mutant: at least one failure code starting with `cawg.` that the control does not have;
//!   state:  a pre-signing mutant whose only additional failures are CAWG codes is never Invalid
//!           (Trusted -> Valid downgrades are counted, not judged: the statement only forbids Invalid);
//!   post-signing mutants: a cawg failure OR state Invalid.
use c2pa::dynamic_assertion::{DynamicAssertion, DynamicAssertionContent, PartialClaim};
use c2pa::identity::validator::CawgValidator;
use c2pa::{Builder, Context, Reader, Signer, SigningAlg};
use ciborium::value::Value as Cv;
use serde_json::json;
use std::collections::{BTreeMap, BTreeSet};
use std::io::Cursor;
use std::sync::{Arc, Mutex};
use vmon::assets;
use vmon::{par, report, signers, Rng, Run};

const CUSTOM: &[&str] = &["org.verif.a0", "org.verif.a1", "org.verif.a2", "org.verif.a3", "org.verif.a4"];

#[derive(Clone, Debug, PartialEq)]
enum Mutation {
    None,
    RefHashFlip(usize),
    RefUrlAbsent(usize),
    RefUrlSwap(usize),
    DropRef(usize),
    DropHardBinding,
    AddRef,
    DupRef(usize),
    SigValFlip(usize),
    ProtectedFlip(usize),
    SigType(&'static str),
    Pad1NonZero,
    Pad2NonZero,
    PadRedistribute,
    SwapChain,
    AddRole,
    SigTruncate,
    /// after signing: flip a byte inside the stored content of a referenced custom assertion
    PostEditReferenced(usize),
    /// the inner signer-payload mutation, followed by a fresh, valid identity signature over the mutated
    /// payload (X509CredentialHolder + the ed25519 fixture credential): only the comparison of the
    /// references with the claim can notice it
    Resigned(Box<Mutation>),
}

impl Mutation {
    fn name(&self) -> String {
        match self {
            Mutation::None => "control".into(),
            Mutation::RefHashFlip(_) => "ref-hash-flip".into(),
            Mutation::RefUrlAbsent(_) => "ref-url-absent".into(),
            Mutation::RefUrlSwap(_) => "ref-url-swap".into(),
            Mutation::DropRef(_) => "drop-ref".into(),
            Mutation::DropHardBinding => "drop-hard-binding".into(),
            Mutation::AddRef => "add-ref".into(),
            Mutation::DupRef(_) => "dup-ref".into(),
            Mutation::SigValFlip(_) => "cose-sigval-flip".into(),
            Mutation::ProtectedFlip(_) => "cose-protected-flip".into(),
            Mutation::SigType(s) => format!("sig-type:{s}"),
            Mutation::Pad1NonZero => "pad1-nonzero".into(),
            Mutation::Pad2NonZero => "pad2-nonzero".into(),
            Mutation::PadRedistribute => "pad-redistribute".into(),
            Mutation::SwapChain => "swap-chain".into(),
            Mutation::AddRole => "add-role".into(),
            Mutation::SigTruncate => "cose-truncate".into(),
            Mutation::PostEditReferenced(_) => "post-edit-referenced".into(),
            Mutation::Resigned(m) => format!("resigned+{}", m.name()),
        }
    }
    fn component(&self) -> &'static str {
        match self {
            Mutation::None => "none",
            Mutation::RefHashFlip(_) | Mutation::RefUrlAbsent(_) | Mutation::RefUrlSwap(_) | Mutation::DropRef(_) | Mutation::DropHardBinding | Mutation::AddRef | Mutation::DupRef(_) | Mutation::AddRole | Mutation::SigType(_) => {
                "signer_payload"
            }
            Mutation::SigValFlip(_) | Mutation::ProtectedFlip(_) | Mutation::SwapChain | Mutation::SigTruncate => "signature",
            Mutation::Pad1NonZero | Mutation::Pad2NonZero | Mutation::PadRedistribute => "padding",
            Mutation::PostEditReferenced(_) => "referenced_assertion",
            Mutation::Resigned(_) => "signer_payload",
        }
    }
    /// coarse cause class used in signatures
    fn cause_group(&self) -> &'static str {
        match self {
            Mutation::RefHashFlip(_) | Mutation::RefUrlSwap(_) => "ref-hash-mismatch",
            Mutation::RefUrlAbsent(_) => "ref-not-in-claim",
            Mutation::DropRef(_) | Mutation::DropHardBinding | Mutation::AddRef | Mutation::DupRef(_) | Mutation::AddRole => "payload-edited-after-identity-signing",
            Mutation::SigType("cawg.identity_claims_aggregation") => "sig-type-other-known",
            Mutation::SigType(_) => "sig-type-unknown",
            Mutation::SigValFlip(_) => "cose-signature-value",
            Mutation::ProtectedFlip(_) | Mutation::SwapChain | Mutation::SigTruncate => "cose-structure-or-credential",
            Mutation::Pad1NonZero | Mutation::Pad2NonZero | Mutation::PadRedistribute => "padding",
            Mutation::PostEditReferenced(_) => "referenced-assertion-content",
            Mutation::None => "control",
            Mutation::Resigned(m) => match **m {
                Mutation::RefHashFlip(_) | Mutation::RefUrlSwap(_) => "ref-hash-mismatch",
                Mutation::RefUrlAbsent(_) => "ref-not-in-claim",
                _ => "reference-set-invalid",
            },
        }
    }
    fn selector(&self) -> usize {
        match self {
            Mutation::RefHashFlip(n) | Mutation::RefUrlAbsent(n) | Mutation::RefUrlSwap(n) | Mutation::DropRef(n) | Mutation::DupRef(n) | Mutation::SigValFlip(n) | Mutation::ProtectedFlip(n) | Mutation::PostEditReferenced(n) => *n,
            Mutation::Resigned(m) => m.selector(),
            _ => 0,
        }
    }
    fn from_name(name: &str, n: usize) -> Option<Mutation> {
        if let Some(inner) = name.strip_prefix("resigned+") {
            return Mutation::from_name(inner, n).map(|m| Mutation::Resigned(Box::new(m)));
        }
        Some(match name {
            "control" => Mutation::None,
            "ref-hash-flip" => Mutation::RefHashFlip(n),
            "ref-url-absent" => Mutation::RefUrlAbsent(n),
            "ref-url-swap" => Mutation::RefUrlSwap(n),
            "drop-ref" => Mutation::DropRef(n),
            "drop-hard-binding" => Mutation::DropHardBinding,
            "add-ref" => Mutation::AddRef,
            "dup-ref" => Mutation::DupRef(n),
            "cose-sigval-flip" => Mutation::SigValFlip(n),
            "cose-protected-flip" => Mutation::ProtectedFlip(n),
            "sig-type:cawg.x509.cose2" => Mutation::SigType("cawg.x509.cose2"),
            "sig-type:cawg.identity_claims_aggregation" => Mutation::SigType("cawg.identity_claims_aggregation"),
            "pad1-nonzero" => Mutation::Pad1NonZero,
            "pad2-nonzero" => Mutation::Pad2NonZero,
            "pad-redistribute" => Mutation::PadRedistribute,
            "swap-chain" => Mutation::SwapChain,
            "add-role" => Mutation::AddRole,
            "cose-truncate" => Mutation::SigTruncate,
            "post-edit-referenced" => Mutation::PostEditReferenced(n),
            _ => return None,
        })
    }
    /// statement says a change must be reported
    fn judged(&self) -> bool {
        match self {
            Mutation::None | Mutation::PadRedistribute => false,
            Mutation::Resigned(m) => **m != Mutation::None,
            _ => true,
        }
    }
}

// ------------------------------------------------------------------------------------------------
// CBOR helpers (ciborium)

fn map_get_mut<'a>(v: &'a mut Cv, key: &str) -> Option<&'a mut Cv> {
    if let Cv::Map(m) = v {
        for (k, x) in m.iter_mut() {
            if k.as_text() == Some(key) {
                return Some(x);
            }
        }
    }
    None
}

fn map_remove(v: &mut Cv, key: &str) {
    if let Cv::Map(m) = v {
        m.retain(|(k, _)| k.as_text() != Some(key));
    }
}

fn map_set(v: &mut Cv, key: &str, val: Cv) {
    if let Cv::Map(m) = v {
        for (k, x) in m.iter_mut() {
            if k.as_text() == Some(key) {
                *x = val;
                return;
            }
        }
        m.push((Cv::Text(key.to_string()), val));
    }
}

fn enc(v: &Cv) -> Vec<u8> {
    let mut out = Vec::new();
    ciborium::ser::into_writer(v, &mut out).expect("cbor encode");
    out
}

fn dec(b: &[u8]) -> Option<Cv> {
    ciborium::de::from_reader(b).ok()
}

/// Sets pad1 / pad2 (all zero) so that the encoding has exactly `size` bytes; false if impossible.
fn repad(ia: &mut Cv, size: usize, prefer_pad2: usize) -> bool {
    map_set(ia, "pad1", Cv::Bytes(vec![]));
    map_remove(ia, "pad2");
    let mut options: Vec<Option<usize>> = vec![Some(prefer_pad2), None];
    options.extend((0..40).map(Some));
    for p2 in options {
        let mut t = ia.clone();
        if let Some(n) = p2 {
            map_set(&mut t, "pad2", Cv::Bytes(vec![0u8; n]));
        }
        let base = enc(&t).len(); // pad1 empty: 1-byte header
        if base > size {
            continue;
        }
        let need = size - base; // extra bytes to add through pad1 (payload + header growth)
        for (hdr_extra, lo, hi) in [(0usize, 0usize, 23usize), (1, 24, 255), (2, 256, 65535), (4, 65536, usize::MAX / 2)] {
            if need < hdr_extra {
                continue;
            }
            let x = need - hdr_extra;
            if x >= lo && x <= hi {
                map_set(&mut t, "pad1", Cv::Bytes(vec![0u8; x]));
                if enc(&t).len() == size {
                    *ia = t;
                    return true;
                }
            }
        }
    }
    false
}

fn hashed_uri_cv(url: &str, alg: Option<String>, hash: &[u8]) -> Cv {
    let mut m = vec![(Cv::Text("url".into()), Cv::Text(url.to_string()))];
    if let Some(a) = alg {
        m.push((Cv::Text("alg".into()), Cv::Text(a)));
    }
    m.push((Cv::Text("hash".into()), Cv::Bytes(hash.to_vec())));
    Cv::Map(m)
}

/// COSE_Sign1 (possibly tagged 18) -> the 4-element array
fn cose_array(v: &mut Cv) -> Option<&mut Vec<Cv>> {
    match v {
        Cv::Tag(_, inner) => cose_array(inner),
        Cv::Array(a) if a.len() == 4 => Some(a),
        _ => None,
    }
}

fn other_chain_der() -> Vec<Vec<u8>> {
    // certificate chain of a different fixture credential (es384)
    pem_chain_der("es384")
}

fn replace_x5chain(hdr: &mut Cv, chain: &[Vec<u8>]) -> bool {
    if let Cv::Map(m) = hdr {
        for (k, v) in m.iter_mut() {
            let is = k.as_integer().map(|i| i128::from(i) == 33).unwrap_or(false) || k.as_text() == Some("x5chain");
            if is {
                *v = if chain.len() == 1 { Cv::Bytes(chain[0].clone()) } else { Cv::Array(chain.iter().map(|c| Cv::Bytes(c.clone())).collect()) };
                return true;
            }
        }
    }
    false
}

/// What the wrapper did (for the evidence and to discard mutants that could not be applied).
#[derive(Default, Clone, Debug)]
struct Applied {
    applied: bool,
    note: String,
    refs_before: usize,
    refs_after: usize,
    size: usize,
    pad1: usize,
    pad2: Option<usize>,
    referenced_urls: Vec<String>,
}

/// Raw Ed25519 signer over the fixture key (openssl), for re-signing mutated signer payloads.
struct EdRaw(openssl::pkey::PKey<openssl::pkey::Private>);

impl c2pa::RawSigner for EdRaw {
    fn sign(&self, data: &[u8]) -> Result<Vec<u8>, c2pa::RawSignerError> {
        let mut s = openssl::sign::Signer::new_without_digest(&self.0).map_err(|e| c2pa::RawSignerError::CryptoLibraryError(e.to_string()))?;
        s.sign_oneshot_to_vec(data).map_err(|e| c2pa::RawSignerError::CryptoLibraryError(e.to_string()))
    }
    fn alg(&self) -> SigningAlg {
        SigningAlg::Ed25519
    }
    fn max_signature_size(&self) -> usize {
        64
    }
}

fn pem_chain_der(alg: &str) -> Vec<Vec<u8>> {
    let pem = String::from_utf8(signers::cert_pem(alg)).unwrap_or_default();
    let mut out = Vec::new();
    let mut cur = String::new();
    let mut inside = false;
    for line in pem.lines() {
        if line.starts_with("-----BEGIN CERTIFICATE") {
            inside = true;
            cur.clear();
        } else if line.starts_with("-----END CERTIFICATE") {
            inside = false;
            use base64::Engine;
            if let Ok(d) = base64::engine::general_purpose::STANDARD.decode(cur.as_bytes()) {
                out.push(d);
            }
        } else if inside {
            cur.push_str(line.trim());
        }
    }
    out
}

/// A valid X.509 identity signature (ed25519 fixture credential) over `sp`.
fn resign(sp: &Cv) -> Option<Vec<u8>> {
    use c2pa::identity::builder::CredentialHolder;
    let payload: c2pa::identity::SignerPayload = sp.deserialized().ok()?;
    let key = openssl::pkey::PKey::private_key_from_pem(&signers::key_pem("ed25519")).ok()?;
    let holder = c2pa::identity::x509::X509CredentialHolder::from_raw_signer(Box::new(EdRaw(key)), pem_chain_der("ed25519"));
    holder.sign(&payload).ok()
}

fn apply_mutation(m: &Mutation, bytes: &[u8], size: Option<usize>, claim: &PartialClaim, applied: &mut Applied) -> Option<Vec<u8>> {
    let (m, do_resign) = match m {
        Mutation::Resigned(inner) => (&**inner, true),
        other => (other, false),
    };
    let mut ia = dec(bytes)?;
    let orig_pad2 = match map_get_mut(&mut ia, "pad2") {
        Some(Cv::Bytes(b)) => Some(b.len()),
        _ => None,
    };
    applied.size = bytes.len();
    let claim_uris: Vec<(String, Option<String>, Vec<u8>)> = claim.assertions().map(|h| (h.url(), h.alg(), h.hash())).collect();
    let mut need_repad = false;
    {
        let sp = map_get_mut(&mut ia, "signer_payload")?;
        let refs_len = match map_get_mut(sp, "referenced_assertions") {
            Some(Cv::Array(a)) => a.len(),
            _ => return None,
        };
        applied.refs_before = refs_len;
        let ref_url = |r: &Cv| -> String {
            if let Cv::Map(m) = r {
                for (k, v) in m {
                    if k.as_text() == Some("url") {
                        return v.as_text().unwrap_or("").to_string();
                    }
                }
            }
            String::new()
        };
        let referenced: Vec<String> = match map_get_mut(sp, "referenced_assertions") {
            Some(Cv::Array(a)) => a.iter().map(ref_url).collect(),
            _ => vec![],
        };
        applied.referenced_urls = referenced.clone();
        let is_hard = |u: &str| u.rsplit('/').next().map(|l| l.starts_with("c2pa.hash.")).unwrap_or(false);
        let soft_idx: Vec<usize> = (0..refs_len).filter(|i| !is_hard(&referenced[*i])).collect();
        let unreferenced: Vec<&(String, Option<String>, Vec<u8>)> = claim_uris
            .iter()
            .filter(|c| !referenced.iter().any(|r| *r == c.0 || c.0.ends_with(r.as_str())) && !c.0.contains("cawg.identity") && !is_hard(&c.0))
            .collect();
        match m {
            Mutation::None => {
                applied.applied = true;
            }
            Mutation::RefHashFlip(sel) => {
                if let Some(Cv::Array(a)) = map_get_mut(sp, "referenced_assertions") {
                    let i = sel % a.len();
                    if let Some(Cv::Bytes(h)) = map_get_mut(&mut a[i], "hash") {
                        let k = sel % h.len();
                        h[k] ^= 0x01;
                        applied.applied = true;
                        applied.note = format!("hash of reference {i} ({})", referenced[i]);
                    }
                }
            }
            Mutation::RefUrlAbsent(sel) => {
                if let Some(Cv::Array(a)) = map_get_mut(sp, "referenced_assertions") {
                    let i = sel % a.len();
                    // same length so that the reserved size still fits exactly
                    let old = referenced[i].clone();
                    let mut new = old.clone();
                    let last = new.pop().unwrap_or('x');
                    new.push(if last == 'z' { 'y' } else { 'z' });
                    map_set(&mut a[i], "url", Cv::Text(new.clone()));
                    applied.applied = true;
                    applied.note = format!("url {old} -> {new}");
                }
            }
            Mutation::RefUrlSwap(sel) => {
                if let (Some(other), false) = (unreferenced.first(), soft_idx.is_empty()) {
                    let i = soft_idx[sel % soft_idx.len()];
                    let other_url = other.0.clone();
                    if let Some(Cv::Array(a)) = map_get_mut(sp, "referenced_assertions") {
                        map_set(&mut a[i], "url", Cv::Text(other_url.clone()));
                        applied.applied = true;
                        need_repad = true;
                        applied.note = format!("url of reference {i} -> {other_url} (hash kept)");
                    }
                }
            }
            Mutation::DropRef(sel) => {
                if !soft_idx.is_empty() {
                    let i = soft_idx[sel % soft_idx.len()];
                    if let Some(Cv::Array(a)) = map_get_mut(sp, "referenced_assertions") {
                        a.remove(i);
                        applied.applied = true;
                        need_repad = true;
                        applied.note = format!("dropped {}", referenced[i]);
                    }
                }
            }
            Mutation::DropHardBinding => {
                if let Some(i) = (0..refs_len).find(|i| is_hard(&referenced[*i])) {
                    if let Some(Cv::Array(a)) = map_get_mut(sp, "referenced_assertions") {
                        a.remove(i);
                        applied.applied = true;
                        need_repad = true;
                        applied.note = format!("dropped {}", referenced[i]);
                    }
                }
            }
            Mutation::AddRef => {
                if let Some(o) = unreferenced.first() {
                    let cv = hashed_uri_cv(&o.0, o.1.clone(), &o.2);
                    if let Some(Cv::Array(a)) = map_get_mut(sp, "referenced_assertions") {
                        a.push(cv);
                        applied.applied = true;
                        need_repad = true;
                        applied.note = format!("added correct reference to {}", o.0);
                    }
                }
            }
            Mutation::DupRef(sel) => {
                if let Some(Cv::Array(a)) = map_get_mut(sp, "referenced_assertions") {
                    let i = sel % a.len();
                    let c = a[i].clone();
                    a.push(c);
                    applied.applied = true;
                    need_repad = true;
                    applied.note = format!("duplicated {}", referenced[i]);
                }
            }
            Mutation::SigType(t) => {
                map_set(sp, "sig_type", Cv::Text(t.to_string()));
                applied.applied = true;
                need_repad = true;
            }
            Mutation::AddRole => {
                map_set(sp, "role", Cv::Array(vec![Cv::Text("cawg.editor".into())]));
                applied.applied = true;
                need_repad = true;
            }
            _ => {}
        }
        if let Some(Cv::Array(a)) = map_get_mut(sp, "referenced_assertions") {
            applied.refs_after = a.len();
        }
    }
    if do_resign && applied.applied {
        let sp = map_get_mut(&mut ia, "signer_payload")?.clone();
        match resign(&sp) {
            Some(sig) => {
                map_set(&mut ia, "signature", Cv::Bytes(sig));
                need_repad = true;
                applied.note.push_str(" + fresh valid identity signature over the mutated payload");
            }
            None => {
                applied.applied = false;
                applied.note.push_str(" (re-signing failed)");
                return None;
            }
        }
    }
    match m {
        Mutation::SigValFlip(sel) | Mutation::ProtectedFlip(sel) => {
            if let Some(Cv::Bytes(sig)) = map_get_mut(&mut ia, "signature") {
                if let Some(mut cose) = dec(sig) {
                    if let Some(arr) = cose_array(&mut cose) {
                        let idx = if matches!(m, Mutation::SigValFlip(_)) { 3 } else { 0 };
                        if let Cv::Bytes(b) = &mut arr[idx] {
                            if !b.is_empty() {
                                let k = sel % b.len();
                                b[k] ^= 0x04;
                                applied.applied = true;
                                applied.note = format!("byte {k} of COSE element {idx} ({} bytes)", b.len());
                            }
                        }
                    }
                    let new = enc(&cose);
                    if new.len() == sig.len() {
                        *sig = new;
                    } else {
                        applied.note.push_str(" (COSE re-encoding changed length)");
                        *sig = new;
                        need_repad = true;
                    }
                }
            }
        }
        Mutation::SigTruncate => {
            if let Some(Cv::Bytes(sig)) = map_get_mut(&mut ia, "signature") {
                let n = sig.len();
                sig.truncate(n - n / 3);
                applied.applied = true;
                need_repad = true;
            }
        }
        Mutation::SwapChain => {
            if let Some(Cv::Bytes(sig)) = map_get_mut(&mut ia, "signature") {
                if let Some(mut cose) = dec(sig) {
                    let chain = other_chain_der();
                    if let Some(arr) = cose_array(&mut cose) {
                        let mut done = false;
                        if let Cv::Bytes(p) = &mut arr[0] {
                            if let Some(mut ph) = dec(p) {
                                if replace_x5chain(&mut ph, &chain) {
                                    *p = enc(&ph);
                                    done = true;
                                    applied.note = "x5chain in protected header replaced by the es384 fixture chain".into();
                                }
                            }
                        }
                        if !done && replace_x5chain(&mut arr[1], &chain) {
                            done = true;
                            applied.note = "x5chain in unprotected header replaced by the es384 fixture chain".into();
                        }
                        applied.applied = done && !chain.is_empty();
                    }
                    *sig = enc(&cose);
                    need_repad = true;
                }
            }
        }
        _ => {}
    }
    let target = size.unwrap_or(bytes.len());
    if need_repad || matches!(m, Mutation::Pad1NonZero | Mutation::Pad2NonZero | Mutation::PadRedistribute) {
        let prefer = match m {
            Mutation::PadRedistribute => orig_pad2.map(|n| n + 7).unwrap_or(9),
            Mutation::Pad2NonZero => orig_pad2.unwrap_or(0).max(3),
            _ => orig_pad2.unwrap_or(0),
        };
        if !repad(&mut ia, target, prefer) {
            applied.applied = false;
            applied.note.push_str(" (could not re-pad to the reserved size)");
            return None;
        }
    }
    match m {
        Mutation::Pad1NonZero => {
            if let Some(Cv::Bytes(p)) = map_get_mut(&mut ia, "pad1") {
                if !p.is_empty() {
                    let k = p.len() / 2;
                    p[k] = 0x01;
                    applied.applied = true;
                }
            }
        }
        Mutation::Pad2NonZero => {
            if let Some(Cv::Bytes(p)) = map_get_mut(&mut ia, "pad2") {
                if !p.is_empty() {
                    let k = p.len() - 1;
                    p[k] = 0x80;
                    applied.applied = true;
                }
            }
        }
        Mutation::PadRedistribute => applied.applied = true,
        _ => {}
    }
    applied.pad1 = match map_get_mut(&mut ia, "pad1") {
        Some(Cv::Bytes(b)) => b.len(),
        _ => 0,
    };
    applied.pad2 = match map_get_mut(&mut ia, "pad2") {
        Some(Cv::Bytes(b)) => Some(b.len()),
        _ => None,
    };
    let out = enc(&ia);
    if out.len() != target {
        applied.applied = false;
        applied.note.push_str(&format!(" (size {} != reserved {})", out.len(), target));
        return None;
    }
    Some(out)
}

// ------------------------------------------------------------------------------------------------
// signer wrapper

struct MutAssertion {
    inner: Box<dyn DynamicAssertion>,
    mutation: Mutation,
    applied: Arc<Mutex<Applied>>,
}

impl DynamicAssertion for MutAssertion {
    fn label(&self) -> String {
        self.inner.label()
    }
    fn reserve_size(&self) -> c2pa::Result<usize> {
        self.inner.reserve_size()
    }
    fn content(&self, label: &str, size: Option<usize>, claim: &PartialClaim) -> c2pa::Result<DynamicAssertionContent> {
        let c = self.inner.content(label, size, claim)?;
        match c {
            DynamicAssertionContent::Cbor(bytes) => {
                let mut a = Applied::default();
                let out = apply_mutation(&self.mutation, &bytes, size, claim, &mut a);
                *self.applied.lock().unwrap() = a;
                match out {
                    Some(o) => Ok(DynamicAssertionContent::Cbor(o)),
                    None => Ok(DynamicAssertionContent::Cbor(bytes)),
                }
            }
            other => Ok(other),
        }
    }
}

struct MutSigner<'a> {
    inner: &'a dyn Signer,
    mutation: Mutation,
    applied: Arc<Mutex<Applied>>,
}

impl Signer for MutSigner<'_> {
    fn sign(&self, data: &[u8]) -> c2pa::Result<Vec<u8>> {
        self.inner.sign(data)
    }
    fn alg(&self) -> SigningAlg {
        self.inner.alg()
    }
    fn certs(&self) -> c2pa::Result<Vec<Vec<u8>>> {
        self.inner.certs()
    }
    fn reserve_size(&self) -> usize {
        self.inner.reserve_size()
    }
    fn time_authority_url(&self) -> Option<String> {
        None
    }
    fn ocsp_val(&self) -> Option<Vec<u8>> {
        self.inner.ocsp_val()
    }
    fn dynamic_assertions(&self) -> Vec<Box<dyn DynamicAssertion>> {
        self.inner
            .dynamic_assertions()
            .into_iter()
            .map(|d| Box::new(MutAssertion { inner: d, mutation: self.mutation.clone(), applied: self.applied.clone() }) as Box<dyn DynamicAssertion>)
            .collect()
    }
}

// ------------------------------------------------------------------------------------------------
// cases

#[derive(Clone, Debug)]
struct Case {
    asset: &'static str,
    fmt: &'static str,
    /// indices into CUSTOM that the identity assertion references (besides the hard binding)
    refs: Vec<usize>,
    c2pa_alg: &'static str,
    cawg_alg: &'static str,
    mutation: Mutation,
}

fn asset_bytes(name: &str) -> Vec<u8> {
    match name {
        "tiny.jpg" => assets::tiny_jpeg(None, false, &[]),
        "tiny.png" => assets::tiny_png(true, &[]),
        _ => assets::tiny_mp4(assets::Mp4Layout::MoovFirst, 64, false, false),
    }
}

fn sign_settings(c: &Case) -> String {
    let pem = |alg: &str| (String::from_utf8(signers::cert_pem(alg)).unwrap(), String::from_utf8(signers::key_pem(alg)).unwrap());
    let (c_cert, c_key) = pem(c.c2pa_alg);
    let (i_cert, i_key) = pem(c.cawg_alg);
    json!({
        "builder": {"thumbnail": {"enabled": false}},
        "verify": {"verify_trust": true, "verify_after_sign": false},
        "trust": {"trust_anchors": signers::trust_anchors_pem()},
        "signer": {"local": {"alg": c.c2pa_alg, "sign_cert": c_cert, "private_key": c_key}},
        "cawg_x509_signer": {"local": {"alg": c.cawg_alg, "sign_cert": i_cert, "private_key": i_key, "referenced_assertions": c.refs.iter().map(|i| CUSTOM[*i]).collect::<Vec<_>>()}},
    })
    .to_string()
}

const TRUST_MODES: &[&str] = &["anchor", "user-anchor", "no-anchor", "verify-off"];
const READ_MODES: &[&str] = &["inline", "post-validate"];

fn read_settings(trust: &str, read_mode: &str) -> String {
    let store_cfg = std::fs::read_to_string(signers::certs_dir().join("trust/store.cfg")).unwrap_or_default();
    let cawg_trust = match trust {
        "anchor" => json!({"verify_trust_list": true, "trust_anchors": signers::trust_anchors_pem(), "trust_config": store_cfg}),
        // the CAWG signer's root configured as a *user* anchor of the CAWG trust settings only
        "user-anchor" => json!({"verify_trust_list": true, "user_anchors": signers::trust_anchors_pem(), "trust_config": store_cfg}),
        "no-anchor" => json!({"verify_trust_list": true}),
        _ => json!({"verify_trust_list": false}),
    };
    json!({
        "verify": {"verify_trust": true},
        "trust": {"trust_anchors": signers::trust_anchors_pem()},
        "core": {"decode_identity_assertions": read_mode == "inline"},
        "cawg_trust": cawg_trust,
    })
    .to_string()
}

#[derive(Clone, Debug, Default)]
struct Obs {
    state: String,
    cawg_fail: BTreeSet<String>,
    cawg_ok: BTreeSet<String>,
    other_fail: BTreeSet<String>,
    err: Option<String>,
}

fn observe(fmt: &str, bytes: &[u8], trust: &str, read_mode: &str, rt: &tokio::runtime::Runtime) -> Result<Obs, String> {
    report::catch_sdk(|| {
        let ctx = match Context::new().with_settings(read_settings(trust, read_mode).as_str()) {
            Ok(c) => c.into_shared(),
            Err(e) => return Obs { state: "Err".into(), err: Some(format!("settings: {e:?}")), ..Default::default() },
        };
        let reader = Reader::from_shared_context(&ctx).with_stream(fmt, Cursor::new(bytes.to_vec()));
        let mut reader = match reader {
            Ok(r) => r,
            Err(e) => return Obs { state: "Err".into(), err: Some(report::err_kind(&e)), ..Default::default() },
        };
        let mut err = None;
        if read_mode == "post-validate" {
            let v = CawgValidator::new(&ctx);
            if let Err(e) = rt.block_on(reader.post_validate_async(&v)) {
                err = Some(format!("post_validate: {}", report::err_kind(&e)));
            }
        }
        let mut o = Obs { state: format!("{:?}", reader.validation_state()), err, ..Default::default() };
        for (scope, kind, code, _url) in report::codes_of(&reader) {
            if scope != "active" {
                continue;
            }
            if code.starts_with("cawg.") {
                if kind == "failure" {
                    o.cawg_fail.insert(code);
                } else if kind == "success" {
                    o.cawg_ok.insert(code);
                }
            } else if kind == "failure" {
                o.other_fail.insert(code);
            }
        }
        o
    })
}

fn obs_json(o: &Obs) -> serde_json::Value {
    json!({"state": o.state, "cawg_failures": o.cawg_fail, "cawg_successes": o.cawg_ok, "other_failures": o.other_fail, "error": o.err})
}

struct Signed {
    bytes: Vec<u8>,
    applied: Applied,
}

fn sign_case(c: &Case) -> Result<Result<Signed, String>, String> {
    report::catch_sdk(|| {
        let ctx = Context::new().with_settings(sign_settings(c).as_str()).map_err(|e| format!("settings: {e:?}"))?.into_shared();
        let inner = ctx.signer().map_err(|e| format!("signer: {e:?}"))?;
        let applied = Arc::new(Mutex::new(Applied::default()));
        let pre = match c.mutation {
            Mutation::PostEditReferenced(_) => Mutation::None,
            ref m => m.clone(),
        };
        let signer = MutSigner { inner, mutation: pre, applied: applied.clone() };
        let assertions: Vec<serde_json::Value> = CUSTOM.iter().enumerate().map(|(i, l)| json!({"label": l, "data": {"k": i, "text": format!("verif-custom-assertion-{i}-payload")}})).collect();
        let mut b = Builder::from_shared_context(&ctx).with_definition(json!({"title": "c33", "assertions": assertions})).map_err(|e| format!("definition: {e:?}"))?;
        b.set_intent(c2pa::BuilderIntent::Create(c2pa::DigitalSourceType::DigitalCapture));
        let mut src = Cursor::new(asset_bytes(c.asset));
        let mut dst = Cursor::new(Vec::new());
        b.sign(&signer, c.fmt, &mut src, &mut dst).map_err(|e| format!("sign: {e:?}"))?;
        let mut bytes = dst.into_inner();
        let mut a = applied.lock().unwrap().clone();
        if let Mutation::PostEditReferenced(sel) = c.mutation {
            a.applied = false;
            if !c.refs.is_empty() {
                let i = c.refs[sel % c.refs.len()];
                let needle = format!("verif-custom-assertion-{i}-payload");
                if let Some(p) = bytes.windows(needle.len()).position(|w| w == needle.as_bytes()) {
                    bytes[p + 6] ^= 0x20; // 'c' -> 'C' inside the stored assertion content
                    a.applied = true;
                    a.note = format!("byte {} of the asset (content of {})", p + 6, CUSTOM[i]);
                }
            }
        }
        Ok(Signed { bytes, applied: a })
    })
}

#[derive(Default)]
struct Res {
    classes: Vec<String>,
    violations: Vec<(String, String, serde_json::Value)>,
    unjudged: Vec<String>,
    trivial: Option<String>,
    counters: Vec<(String, u64)>,
    sample: Option<serde_json::Value>,
}

fn case_json(c: &Case) -> serde_json::Value {
    json!({"asset": c.asset, "format": c.fmt, "referenced_custom": c.refs.iter().map(|i| CUSTOM[*i]).collect::<Vec<_>>(), "c2pa_alg": c.c2pa_alg, "cawg_alg": c.cawg_alg, "mutation": c.mutation.name(), "selector": c.mutation.selector()})
}

fn run_case(c: &Case, controls: &BTreeMap<String, Obs>, rt: &tokio::runtime::Runtime) -> (Res, BTreeMap<String, Obs>) {
    let mut res = Res::default();
    let mut seen = BTreeMap::new();
    let signed = match sign_case(c) {
        Err(p) => {
            res.violations.push((format!("{}|{}|sign|panic", c.mutation.component(), c.mutation.name()), format!("panic while signing: {p}"), json!({})));
            return (res, seen);
        }
        Ok(Err(e)) => {
            if c.mutation == Mutation::None {
                res.violations.push(("none|control|sign|error".into(), format!("signing with the CAWG settings signer failed: {e}"), json!({})));
            } else {
                res.trivial = Some(format!("sign-error:{}:{}", c.mutation.name(), e.chars().take(80).collect::<String>()));
            }
            return (res, seen);
        }
        Ok(Ok(s)) => s,
    };
    if !signed.applied.applied {
        res.trivial = Some(format!("mutation-not-applicable:{}:{}", c.mutation.name(), signed.applied.note));
        return (res, seen);
    }
    res.counters.push((format!("referenced_assertions:{}", signed.applied.refs_before), 1));
    let expected_refs = c.refs.len() + 1;
    if c.mutation == Mutation::None && signed.applied.refs_before != expected_refs {
        res.violations.push((
            "signer_payload|control|any|wrong-reference-set".into(),
            format!("identity assertion references {} assertions {:?}, expected the hard binding + {:?}", signed.applied.refs_before, signed.applied.referenced_urls, c.refs.iter().map(|i| CUSTOM[*i]).collect::<Vec<_>>()),
            json!({}),
        ));
    }
    for trust in TRUST_MODES {
        for rm in READ_MODES {
            let key = format!("{}|{}|{:?}|{}|{}|{trust}|{rm}", c.asset, c.cawg_alg, c.refs, c.c2pa_alg, "ctl");
            let o = match observe(c.fmt, &signed.bytes, trust, rm, rt) {
                Ok(o) => o,
                Err(p) => {
                    res.violations.push((format!("{}|{}|{trust}|panic-{rm}", c.mutation.component(), c.mutation.name()), format!("panic while validating: {p}"), json!({})));
                    continue;
                }
            };
            let mname = c.mutation.name();
            let comp = c.mutation.component();
            let w = |extra: serde_json::Value| json!({"observed": obs_json(&o), "read_mode": rm, "trust_mode": trust, "applied": format!("{:?}", signed.applied), "extra": extra});
            res.classes.push(format!("{}|{}|{}|{}|refs{}|{}|{}|cawg-fail:{}|ok:{}", c.fmt, comp, mname.split(':').next().unwrap_or(""), trust, signed.applied.refs_before, rm, o.state, o.cawg_fail.iter().cloned().collect::<Vec<_>>().join("+"), o.cawg_ok.len()));
            if let Some(e) = &o.err {
                res.violations.push((format!("{comp}|{mname}|{trust}|reader-error-{rm}"), format!("reader failed: {e}"), w(json!({}))));
                continue;
            }
            if c.mutation == Mutation::None {
                seen.insert(key, o.clone());
                let allowed: BTreeSet<String> = if *trust == "no-anchor" { ["cawg.x509.credential.untrusted".to_string()].into_iter().collect() } else { BTreeSet::new() };
                let bad: Vec<&String> = o.cawg_fail.iter().filter(|f| !allowed.contains(*f)).collect();
                if !bad.is_empty() {
                    res.violations.push((format!("none|control|{trust}|cawg-failure-on-unmutated"), format!("unmutated identity assertion reported {:?} ({rm})", bad), w(json!({}))));
                }
                if *trust != "no-anchor" && !o.cawg_ok.iter().any(|s| s.starts_with("cawg.identity.") || s == "cawg.x509.signature.validated") {
                    res.violations.push((format!("none|control|{trust}|no-cawg-success"), format!("unmutated identity assertion produced no cawg success code ({rm}); successes {:?}", o.cawg_ok), w(json!({}))));
                }
                if o.state == "Invalid" {
                    res.violations.push((format!("none|control|{trust}|manifest-invalid"), format!("unmutated manifest is Invalid ({rm}): {:?} {:?}", o.other_fail, o.cawg_fail), w(json!({}))));
                }
                continue;
            }
            if !c.mutation.judged() {
                res.unjudged.push(format!("{mname}:{}:{}", if o.cawg_fail.is_empty() { "accepted" } else { "rejected" }, trust));
                continue;
            }
            let ctl = controls.get(&key);
            let post = matches!(c.mutation, Mutation::PostEditReferenced(_));
            let has_fail = !o.cawg_fail.is_empty();
            if post {
                if !(has_fail || o.state == "Invalid") {
                    res.violations.push((format!("{comp}|{mname}|{trust}|undetected"), format!("referenced assertion edited after signing: no cawg failure and state {} ({rm})", o.state), w(json!({}))));
                }
                continue;
            }
            // a change is "reported" when the mutant shows a cawg failure code the unmutated control does not
            let ctl_fail: BTreeSet<String> = match ctl {
                Some(c) => c.cawg_fail.clone(),
                None if *trust == "no-anchor" => ["cawg.x509.credential.untrusted".to_string()].into_iter().collect(),
                None => BTreeSet::new(),
            };
            let new_fail: BTreeSet<String> = o.cawg_fail.difference(&ctl_fail).cloned().collect();
            if new_fail.is_empty() {
                res.violations.push((
                    format!("{comp}|{}|no-cawg-failure", c.mutation.cause_group()),
                    format!(
                        "mutated identity assertion ({mname}: {}) produced no cawg failure code beyond the control's {:?} (trust mode {trust}, reader mode {rm}); cawg successes {:?}, state {} (control {})",
                        signed.applied.note,
                        ctl_fail,
                        o.cawg_ok,
                        o.state,
                        ctl.map(|c| c.state.as_str()).unwrap_or("?")
                    ),
                    w(json!({})),
                ));
            }
            match ctl {
                Some(ctl) => {
                    let only_cawg_new = o.other_fail.is_subset(&ctl.other_fail);
                    if o.state == "Invalid" && ctl.state != "Invalid" && only_cawg_new {
                        let mut fams: BTreeSet<String> = new_fail.iter().map(|f| f.split('.').take(2).collect::<Vec<_>>().join(".")).collect();
                        if fams.len() > 1 {
                            fams.remove("cawg.x509");
                        }
                        res.violations.push((
                            format!("any|manifest-invalid-by-cawg-code|{}", fams.into_iter().collect::<Vec<_>>().join("+")),
                            format!("manifest state Invalid (control {}) although the only failures the control lacks are CAWG codes {:?} ({mname}, trust mode {trust}, reader mode {rm})", ctl.state, new_fail),
                            w(json!({"control": obs_json(ctl)})),
                        ));
                    } else if o.state != ctl.state && only_cawg_new {
                        res.counters.push((format!("state-change-not-invalid:{}->{}", ctl.state, o.state), 1));
                    } else if o.state != ctl.state {
                        res.unjudged.push(format!("state-differs-with-non-cawg-failures:{mname}:{:?}", o.other_fail));
                    }
                }
                None => res.unjudged.push("no-control".into()),
            }
        }
    }
    res.sample = Some(json!({"case": case_json(c), "applied": format!("{:?}", signed.applied)}));
    (res, seen)
}

fn main() {
    let mut run = Run::from_args("C33", "exploration");
    report::quiet_panics();
    run.rule = "cases = (tiny jpg/png/mp4) x (subset of 5 custom assertions referenced by the identity assertion, sizes 0..5 => 1..6 references incl. the hard binding) x (CAWG credential ed25519/es256/ps256) x mutation (17 kinds over signer payload / COSE signature / padding / referenced assertion, with a seeded position selector) ; every signed asset is validated in 3 CAWG trust modes x 2 reader modes (inline decode, post_validate_async with CawgValidator). Non-trivial = the mutation was applied (wrapper confirms) and the asset signed; distinct = (format, component, mutation, trust mode, #references, reader mode, state, cawg failure codes).".into();
    run.assumptions = vec![
        "mutations are applied to the CBOR the SDK's identity builder returns and re-padded to the reserved size; the C2PA claim is then computed by the SDK over the mutated assertion".into(),
        "trust mode no-anchor: the control is allowed cawg.x509.credential.untrusted; a mutant is detected if it has a cawg failure code the control lacks".into(),
        "a Trusted -> Valid change caused by tolerated CAWG failures is counted, not judged (the statement forbids only Invalid)".into(),
        "moving zero bytes between pad1 and pad2 keeps a valid assertion: generated, reported, not judged".into(),
        "state comparison is judged only when the mutant has no non-CAWG failure the control lacks".into(),
    ];
    let rt = tokio::runtime::Builder::new_current_thread().enable_all().build().expect("tokio");
    drop(rt);

    let mut rng = Rng::new(run.seed, "c33");
    let assets_l: &[(&str, &str)] = &[("tiny.jpg", "jpg"), ("tiny.png", "png"), ("tiny.mp4", "mp4")];
    let cawg_algs = ["ed25519", "es256", "ps256"];
    // configurations (asset, refs, algs)
    let mut configs: Vec<(usize, Vec<usize>, &'static str, &'static str)> = Vec::new();
    let subsets: Vec<Vec<usize>> = vec![vec![], vec![0], vec![1, 3], vec![0, 2, 4], vec![0, 1, 2, 3], vec![0, 1, 2, 3, 4]];
    for (ai, _) in assets_l.iter().enumerate() {
        for (si, s) in subsets.iter().enumerate() {
            if run.quick() && !(ai == 0 || si == 2 || si == 5) {
                continue;
            }
            let cawg = cawg_algs[(ai + si) % cawg_algs.len()];
            let c2pa = if (ai + si) % 2 == 0 { "es256" } else { "ed25519" };
            configs.push((ai, s.clone(), c2pa, cawg));
        }
    }
    let n_extra = run.tier.pick(2, 30);
    for _ in 0..n_extra {
        let mut s: Vec<usize> = (0..5).filter(|_| rng.bool()).collect();
        s.sort();
        configs.push((rng.usize(3), s, *rng.pick(&["es256", "ed25519", "ps256"]), *rng.pick(&cawg_algs)));
    }
    let mut controls_cases: Vec<Case> = Vec::new();
    let mut mutant_cases: Vec<Case> = Vec::new();
    for (ai, refs, c2pa, cawg) in &configs {
        let base = Case { asset: assets_l[*ai].0, fmt: assets_l[*ai].1, refs: refs.clone(), c2pa_alg: c2pa, cawg_alg: cawg, mutation: Mutation::None };
        controls_cases.push(base.clone());
        let mut muts = vec![
            Mutation::Pad1NonZero,
            Mutation::Pad2NonZero,
            Mutation::RefHashFlip(rng.usize(1000)),
            Mutation::RefHashFlip(0),
            Mutation::RefUrlAbsent(rng.usize(1000)),
            Mutation::RefUrlSwap(rng.usize(1000)),
            Mutation::DropRef(rng.usize(1000)),
            Mutation::DropHardBinding,
            Mutation::AddRef,
            Mutation::DupRef(rng.usize(1000)),
            Mutation::SigValFlip(rng.usize(100_000)),
            Mutation::ProtectedFlip(rng.usize(100_000)),
            Mutation::SigType("cawg.x509.cose2"),
            Mutation::SigType("cawg.identity_claims_aggregation"),
            Mutation::Resigned(Box::new(Mutation::None)),
            Mutation::Resigned(Box::new(Mutation::RefHashFlip(rng.usize(1000)))),
            Mutation::Resigned(Box::new(Mutation::RefUrlAbsent(rng.usize(1000)))),
            Mutation::Resigned(Box::new(Mutation::RefUrlSwap(rng.usize(1000)))),
            Mutation::Resigned(Box::new(Mutation::DropHardBinding)),
            Mutation::Resigned(Box::new(Mutation::DupRef(rng.usize(1000)))),
            Mutation::PadRedistribute,
            Mutation::SwapChain,
            Mutation::AddRole,
            Mutation::SigTruncate,
            Mutation::PostEditReferenced(rng.usize(1000)),
        ];
        if !run.quick() {
            for _ in 0..6 {
                muts.push(Mutation::SigValFlip(rng.usize(100_000)));
                muts.push(Mutation::ProtectedFlip(rng.usize(100_000)));
                muts.push(Mutation::RefHashFlip(rng.usize(100_000)));
            }
        }
        for m in muts {
            let mut c = base.clone();
            c.mutation = m;
            mutant_cases.push(c);
        }
    }

    if let Some(p) = run.replay.clone() {
        let v: serde_json::Value = serde_json::from_slice(&std::fs::read(&p).expect("replay file")).expect("json");
        let w = &v["witness"]["case"];
        let leak = |s: &str| -> &'static str { Box::leak(s.to_string().into_boxed_str()) };
        let refs: Vec<usize> = w["referenced_custom"].as_array().map(|a| a.iter().filter_map(|l| CUSTOM.iter().position(|c| Some(*c) == l.as_str())).collect()).unwrap_or_default();
        let mutation = Mutation::from_name(w["mutation"].as_str().unwrap_or(""), w["selector"].as_u64().unwrap_or(0) as usize).expect("mutation name");
        let base = Case { asset: leak(w["asset"].as_str().unwrap_or("tiny.jpg")), fmt: leak(w["format"].as_str().unwrap_or("jpg")), refs, c2pa_alg: leak(w["c2pa_alg"].as_str().unwrap_or("es256")), cawg_alg: leak(w["cawg_alg"].as_str().unwrap_or("ed25519")), mutation: Mutation::None };
        let rt = tokio::runtime::Builder::new_current_thread().enable_all().build().expect("tokio");
        let (_, controls) = run_case(&base, &BTreeMap::new(), &rt);
        let mut c = base.clone();
        c.mutation = mutation;
        let (r, _) = run_case(&c, &controls, &rt);
        println!("replay: classes={:?} trivial={:?}", r.classes, r.trivial);
        for (sig, what, _) in &r.violations {
            println!("replay: violation sig={sig} {what}");
        }
        std::process::exit(if r.violations.is_empty() { 0 } else { 1 });
    }

    // phase 1: controls
    let ctl_results = par::par_map_watch(controls_cases.len(), 600, |i| eprintln!("INCONCLUSIVE: control {i} stalled"), |i| {
        let rt = tokio::runtime::Builder::new_current_thread().enable_all().build().expect("tokio");
        run_case(&controls_cases[i], &BTreeMap::new(), &rt)
    });
    let mut controls: BTreeMap<String, Obs> = BTreeMap::new();
    let mut all: Vec<(Case, Res)> = Vec::new();
    for (i, (r, seen)) in ctl_results.into_iter().enumerate() {
        controls.extend(seen);
        all.push((controls_cases[i].clone(), r));
    }
    // phase 2: mutants
    let mut_results = par::par_map_watch(mutant_cases.len(), 600, |i| eprintln!("INCONCLUSIVE: mutant {i} stalled"), |i| {
        let rt = tokio::runtime::Builder::new_current_thread().enable_all().build().expect("tokio");
        run_case(&mutant_cases[i], &controls, &rt).0
    });
    for (i, r) in mut_results.into_iter().enumerate() {
        all.push((mutant_cases[i].clone(), r));
    }

    let mut unjudged: BTreeMap<String, u64> = BTreeMap::new();
    let mut trivial: BTreeMap<String, u64> = BTreeMap::new();
    for (c, r) in &all {
        run.eval();
        for (k, n) in &r.counters {
            run.count(k, *n);
        }
        if let Some(t) = &r.trivial {
            *trivial.entry(t.clone()).or_insert(0) += 1;
        }
        for u in &r.unjudged {
            *unjudged.entry(u.clone()).or_insert(0) += 1;
        }
        for cl in &r.classes {
            run.nontrivial(cl.clone());
            run.count("validations", 1);
        }
        if let Some(s) = &r.sample {
            run.sample(&c.mutation.name(), 1, s.clone());
        }
        for (sig, what, extra) in &r.violations {
            let mut w = json!({"case": case_json(c)});
            w["detail"] = extra.clone();
            run.violation(sig, what, w);
        }
    }
    run.set("configurations", json!(configs.len()));
    run.set("mutants", json!(mutant_cases.len()));
    run.set("unjudged", json!(unjudged));
    run.set("trivial", json!(trivial));
    run.engine("release", true, json!({"threads": par::workers()}));
    run.finish(40);
}
