//! HTTP-layer monitor helpers shared by C26 / C27 / C28:
//!   * `Mock`: a scripted, recording transport implementing both `SyncHttpResolver` and
//!     `AsyncHttpResolver` (records every request it receives, answers from a script/closure);
//!   * `split_uri`: the harness's own RFC-3986 split of a URI string (no `http`/`url` code);
//!   * `classify_host`: reference classifier of a URI host (names `localhost`/`*.localhost`, WHATWG
//!     IPv4 number parser for 1–4 parts in dec/octal/hex, own IPv6 parser incl. `::ffff:a.b.c.d`),
//!     written from the address-space definitions, not from the SDK;
//!   * `block_on`: polls an immediately-ready future (the mock never suspends).
use async_trait::async_trait;
use c2pa::http::http::{Request, Response};
use c2pa::http::{AsyncHttpResolver, HttpResolverError, SyncHttpResolver};
use std::io::Read;
use std::sync::{Arc, Mutex};

// ---------------------------------------------------------------------------------------------
// recording mock transport

#[derive(Clone, Debug)]
pub struct Rec {
    pub uri: String,
    pub method: String,
    /// (lower-cased name as stored by `http`, value bytes lossily decoded)
    pub headers: Vec<(String, String)>,
    pub body_len: usize,
    pub via_async: bool,
}

#[derive(Clone, Debug)]
pub struct Reply {
    pub status: u16,
    pub headers: Vec<(String, Vec<u8>)>,
    pub body: Vec<u8>,
}

impl Reply {
    pub fn ok(body: &[u8]) -> Reply {
        Reply { status: 200, headers: vec![], body: body.to_vec() }
    }
    pub fn status(status: u16) -> Reply {
        Reply { status, headers: vec![], body: vec![] }
    }
    pub fn redirect(status: u16, location: &[u8]) -> Reply {
        Reply { status, headers: vec![("location".into(), location.to_vec())], body: vec![] }
    }
    pub fn with_header(mut self, k: &str, v: &[u8]) -> Reply {
        self.headers.push((k.to_string(), v.to_vec()));
        self
    }
}

pub type Responder = Arc<dyn Fn(usize, &Rec) -> Result<Reply, String> + Send + Sync>;

/// Scripted recording transport.  `log` is shared between clones.
#[derive(Clone)]
pub struct Mock {
    pub log: Arc<Mutex<Vec<Rec>>>,
    responder: Responder,
}

impl Mock {
    /// The k-th request received (0-based) is answered by `f(k, &rec)`; `Err(s)` becomes a transport error.
    pub fn new(f: impl Fn(usize, &Rec) -> Result<Reply, String> + Send + Sync + 'static) -> Mock {
        Mock { log: Arc::new(Mutex::new(Vec::new())), responder: Arc::new(f) }
    }
    /// Answers request k with `script[k]`; 200 with a small body once the script is exhausted.
    pub fn scripted(script: Vec<Reply>) -> Mock {
        Mock::new(move |k, _| Ok(script.get(k).cloned().unwrap_or_else(|| Reply::ok(b"final"))))
    }
    pub fn records(&self) -> Vec<Rec> {
        self.log.lock().map(|l| l.clone()).unwrap_or_default()
    }
    pub fn count(&self) -> usize {
        self.log.lock().map(|l| l.len()).unwrap_or(0)
    }
    fn handle(&self, request: Request<Vec<u8>>, via_async: bool) -> Result<Response<Box<dyn Read>>, HttpResolverError> {
        let rec = Rec {
            uri: request.uri().to_string(),
            method: request.method().as_str().to_string(),
            headers: request
                .headers()
                .iter()
                .map(|(k, v)| (k.as_str().to_string(), String::from_utf8_lossy(v.as_bytes()).to_string()))
                .collect(),
            body_len: request.body().len(),
            via_async,
        };
        let k = {
            let mut l = self.log.lock().map_err(|_| HttpResolverError::Other("mock lock".into()))?;
            l.push(rec.clone());
            l.len() - 1
        };
        match (self.responder)(k, &rec) {
            Err(s) => Err(HttpResolverError::Other(format!("mock transport error: {s}").into())),
            Ok(rep) => {
                let mut b = Response::builder().status(rep.status);
                for (k, v) in &rep.headers {
                    b = b.header(k.as_str(), v.as_slice());
                }
                let body: Box<dyn Read> = Box::new(std::io::Cursor::new(rep.body));
                b.body(body).map_err(HttpResolverError::Http)
            }
        }
    }
}

impl SyncHttpResolver for Mock {
    fn http_resolve(&self, request: Request<Vec<u8>>) -> Result<Response<Box<dyn Read>>, HttpResolverError> {
        self.handle(request, false)
    }
}

#[async_trait]
impl AsyncHttpResolver for Mock {
    async fn http_resolve_async(&self, request: Request<Vec<u8>>) -> Result<Response<Box<dyn Read>>, HttpResolverError> {
        self.handle(request, true)
    }
}

/// Variant name of an `HttpResolverError`.
pub fn http_err_kind(e: &HttpResolverError) -> String {
    let d = format!("{e:?}");
    d.split(|c| c == '(' || c == '{' || c == ' ').next().unwrap_or("").to_string()
}

/// Drives a future that never suspends on anything external (the mock is always ready).
pub fn block_on<F: std::future::Future>(f: F) -> F::Output {
    let mut f = std::pin::pin!(f);
    let waker = std::task::Waker::noop();
    let mut cx = std::task::Context::from_waker(waker);
    loop {
        if let std::task::Poll::Ready(v) = f.as_mut().poll(&mut cx) {
            return v;
        }
        std::thread::yield_now();
    }
}

// ---------------------------------------------------------------------------------------------
// RFC-3986 split

#[derive(Clone, Debug, PartialEq, Default)]
pub struct UriParts {
    pub scheme: Option<String>,
    pub userinfo: Option<String>,
    /// raw host text (brackets kept for IP-literals); None when there is no authority
    pub host: Option<String>,
    /// raw port text after the last ':' outside brackets (may be empty or non-numeric)
    pub port: Option<String>,
    pub rest: String,
}

/// Splits `scheme://userinfo@host:port/rest` per RFC 3986 §3 (authority ends at the first of `/ ? #`;
/// userinfo ends at the *last* `@`; port follows the last `:` outside an IP-literal).  A string with
/// no scheme that does not start with `/` is taken as authority-form (`host[:port]`), which is the only
/// other shape the `http` crate accepts with a host.
pub fn split_uri(s: &str) -> UriParts {
    let mut p = UriParts::default();
    let (auth, rest): (&str, &str);
    if let Some(i) = s.find("://") {
        let sch = &s[..i];
        let valid = !sch.is_empty()
            && sch.as_bytes()[0].is_ascii_alphabetic()
            && sch.bytes().all(|b| b.is_ascii_alphanumeric() || b == b'+' || b == b'-' || b == b'.');
        if valid {
            p.scheme = Some(sch.to_string());
            let after = &s[i + 3..];
            let end = after.find(|c| c == '/' || c == '?' || c == '#').unwrap_or(after.len());
            auth = &after[..end];
            rest = &after[end..];
        } else {
            auth = "";
            rest = s;
        }
    } else if s.starts_with('/') || s == "*" || s.is_empty() {
        p.rest = s.to_string();
        return p;
    } else {
        let end = s.find(|c| c == '/' || c == '?' || c == '#').unwrap_or(s.len());
        auth = &s[..end];
        rest = &s[end..];
    }
    p.rest = rest.to_string();
    let hostport = match auth.rfind('@') {
        Some(i) => {
            p.userinfo = Some(auth[..i].to_string());
            &auth[i + 1..]
        }
        None => auth,
    };
    if hostport.starts_with('[') {
        if let Some(j) = hostport.find(']') {
            p.host = Some(hostport[..=j].to_string());
            let tail = &hostport[j + 1..];
            if let Some(t) = tail.strip_prefix(':') {
                p.port = Some(t.to_string());
            } else if !tail.is_empty() {
                // garbage after the literal: keep it visible in the host so nothing matches it
                p.host = Some(hostport.to_string());
            }
        } else {
            p.host = Some(hostport.to_string());
        }
    } else if let Some(i) = hostport.rfind(':') {
        p.host = Some(hostport[..i].to_string());
        p.port = Some(hostport[i + 1..].to_string());
    } else {
        p.host = Some(hostport.to_string());
    }
    p
}

pub fn pct_decode(s: &str) -> (String, bool) {
    let b = s.as_bytes();
    let mut out = Vec::with_capacity(b.len());
    let mut any = false;
    let mut i = 0;
    while i < b.len() {
        if b[i] == b'%' && i + 2 < b.len() {
            let h = |c: u8| (c as char).to_digit(16);
            if let (Some(a), Some(c)) = (h(b[i + 1]), h(b[i + 2])) {
                out.push((a * 16 + c) as u8);
                any = true;
                i += 3;
                continue;
            }
        }
        out.push(b[i]);
        i += 1;
    }
    (String::from_utf8_lossy(&out).to_string(), any)
}

// ---------------------------------------------------------------------------------------------
// reference host classifier

#[derive(Clone, Debug, PartialEq)]
pub struct HostInfo {
    /// "name" | "ipv4" | "ipv6" | "none"
    pub kind: &'static str,
    /// internal class the *statement* lists (judged): localhost, loopback, private, link-local,
    /// unspecified, multicast, broadcast, documentation, shared
    pub judged: Option<&'static str>,
    /// class the statement does not list (reported only)
    pub unjudged: Option<&'static str>,
    /// notation class of the literal ("dotted4-dec", "1part-hex", "v6-mapped-dotted", "name+tdot"…)
    pub encoding: String,
    pub v4: Option<u32>,
    pub v6: Option<u128>,
}

/// Parses one WHATWG IPv4 number: `0x`/`0X` hex, leading `0` octal, else decimal.  "0x" alone is 0.
fn v4_number(s: &str) -> Option<(u64, &'static str)> {
    if s.is_empty() {
        return None;
    }
    let (digits, radix, name) = if s.len() >= 2 && (s.starts_with("0x") || s.starts_with("0X")) {
        (&s[2..], 16, "hex")
    } else if s.len() >= 2 && s.starts_with('0') {
        (&s[1..], 8, "oct")
    } else {
        (s, 10, "dec")
    };
    if digits.is_empty() {
        return Some((0, name));
    }
    let mut v: u64 = 0;
    for c in digits.chars() {
        let d = c.to_digit(radix)? as u64;
        v = v.checked_mul(radix as u64)?.checked_add(d)?;
        if v > u32::MAX as u64 * 4 {
            return None;
        }
    }
    Some((v, name))
}

/// WHATWG host→IPv4: 1–4 dot-separated numbers (one trailing empty label ignored), each but the
/// last ≤ 255, the last filling the remaining bytes.  Returns (address, notation class).
pub fn parse_ipv4_whatwg(host: &str) -> Option<(u32, String)> {
    let mut parts: Vec<&str> = host.split('.').collect();
    let mut tdot = false;
    if parts.len() > 1 && parts.last() == Some(&"") {
        parts.pop();
        tdot = true;
    }
    if parts.is_empty() || parts.len() > 4 {
        return None;
    }
    let mut nums = Vec::new();
    let mut radices: Vec<&'static str> = Vec::new();
    for p in &parts {
        let (v, r) = v4_number(p)?;
        nums.push(v);
        radices.push(r);
    }
    let n = nums.len();
    for v in &nums[..n - 1] {
        if *v > 255 {
            return None;
        }
    }
    let last = nums[n - 1];
    let limit: u64 = 256u64.pow((5 - n) as u32);
    if last >= limit {
        return None;
    }
    let mut addr: u64 = last;
    for (i, v) in nums[..n - 1].iter().enumerate() {
        addr += v * 256u64.pow((3 - i) as u32);
    }
    let mut rs = radices.clone();
    rs.sort();
    rs.dedup();
    let radix = if rs.len() == 1 { rs[0].to_string() } else { "mixed".to_string() };
    let padded = parts.iter().any(|p| {
        let d = p.trim_start_matches("0x").trim_start_matches("0X");
        (p.starts_with("0x") || p.starts_with("0X")) && d.len() > 1 && d.starts_with('0')
            || (!p.starts_with("0x") && !p.starts_with("0X") && p.len() > 2 && p.starts_with("00"))
    });
    let mut enc = if n == 4 { format!("dotted4-{radix}") } else { format!("{n}part-{radix}") };
    if padded {
        enc.push_str("+pad");
    }
    if tdot {
        enc.push_str("+tdot");
    }
    Some((addr as u32, enc))
}

/// Own IPv6 text parser (RFC 4291 §2.2 forms incl. `::` compression and a dotted-quad tail).
pub fn parse_ipv6(s: &str) -> Option<(u128, bool)> {
    // returns (address, had dotted tail)
    if s.is_empty() || s.contains('%') {
        return None;
    }
    let (head, tail, compressed) = match s.find("::") {
        Some(i) => {
            if s[i + 2..].contains("::") {
                return None;
            }
            (&s[..i], &s[i + 2..], true)
        }
        None => (s, "", false),
    };
    let mut dotted = false;
    let mut groups = |part: &str, allow_v4_tail: bool| -> Option<Vec<u16>> {
        let mut out = Vec::new();
        if part.is_empty() {
            return Some(out);
        }
        let items: Vec<&str> = part.split(':').collect();
        for (i, it) in items.iter().enumerate() {
            if it.contains('.') {
                if !(allow_v4_tail && i == items.len() - 1) {
                    return None;
                }
                let q: Vec<&str> = it.split('.').collect();
                if q.len() != 4 {
                    return None;
                }
                let mut b = [0u8; 4];
                for (j, x) in q.iter().enumerate() {
                    if x.is_empty() || x.len() > 3 || !x.bytes().all(|c| c.is_ascii_digit()) {
                        return None;
                    }
                    let v: u32 = x.parse().ok()?;
                    if v > 255 {
                        return None;
                    }
                    b[j] = v as u8;
                }
                out.push(((b[0] as u16) << 8) | b[1] as u16);
                out.push(((b[2] as u16) << 8) | b[3] as u16);
                dotted = true;
            } else {
                if it.is_empty() || it.len() > 4 {
                    return None;
                }
                out.push(u16::from_str_radix(it, 16).ok()?);
            }
        }
        Some(out)
    };
    let h = groups(head, !compressed)?;
    let t = if compressed { groups(tail, true)? } else { Vec::new() };
    let total = h.len() + t.len();
    let mut all: Vec<u16> = Vec::new();
    if compressed {
        if total > 7 {
            return None;
        }
        all.extend(&h);
        all.extend(std::iter::repeat(0).take(8 - total));
        all.extend(&t);
    } else {
        if total != 8 {
            return None;
        }
        all.extend(&h);
    }
    let mut v: u128 = 0;
    for g in all {
        v = (v << 16) | g as u128;
    }
    Some((v, dotted))
}

/// Address classes of the statement for an IPv4 address (judged) or reported-only classes.
pub fn classify_v4(a: u32) -> (Option<&'static str>, Option<&'static str>) {
    let o = a.to_be_bytes();
    let judged = if a == 0 {
        Some("unspecified")
    } else if o[0] == 127 {
        Some("loopback")
    } else if o[0] == 10 || (o[0] == 172 && (16..=31).contains(&o[1])) || (o[0] == 192 && o[1] == 168) {
        Some("private")
    } else if o[0] == 169 && o[1] == 254 {
        Some("link-local")
    } else if o[0] == 100 && (64..=127).contains(&o[1]) {
        Some("shared")
    } else if (o[0] == 192 && o[1] == 0 && o[2] == 2) || (o[0] == 198 && o[1] == 51 && o[2] == 100) || (o[0] == 203 && o[1] == 0 && o[2] == 113) {
        Some("documentation")
    } else if a == u32::MAX {
        Some("broadcast")
    } else if (224..=239).contains(&o[0]) {
        Some("multicast")
    } else {
        None
    };
    if judged.is_some() {
        return (judged, None);
    }
    let unj = if o[0] == 0 {
        Some("this-network-0/8")
    } else if o[0] >= 240 {
        Some("reserved-240/4")
    } else if o[0] == 192 && o[1] == 0 && o[2] == 0 {
        Some("ietf-192.0.0/24")
    } else if o[0] == 198 && (o[1] == 18 || o[1] == 19) {
        Some("benchmark-198.18/15")
    } else if o[0] == 192 && o[1] == 88 && o[2] == 99 {
        Some("6to4-relay-192.88.99/24")
    } else {
        None
    };
    (None, unj)
}

/// Classes for an IPv6 address.  Returns (judged, unjudged, form).
pub fn classify_v6(a: u128) -> (Option<&'static str>, Option<&'static str>, &'static str) {
    let seg0 = (a >> 112) as u16;
    if a == 0 {
        return (Some("unspecified"), None, "v6");
    }
    if a == 1 {
        return (Some("loopback"), None, "v6");
    }
    if (a >> 32) == 0xffff {
        let (j, u) = classify_v4(a as u32);
        return (j, u, "v6-mapped");
    }
    if seg0 & 0xff00 == 0xff00 {
        return (Some("multicast"), None, "v6");
    }
    if seg0 & 0xfe00 == 0xfc00 {
        return (Some("private"), None, "v6-ula");
    }
    if seg0 & 0xffc0 == 0xfe80 {
        return (Some("link-local"), None, "v6");
    }
    // forms the statement does not list: reported, not judged
    if (a >> 32) == 0 {
        let (j, _) = classify_v4(a as u32);
        return (None, Some(if j.is_some() { "v4-compatible-internal" } else { "v4-compatible" }), "v6-compat");
    }
    if (a >> 32) == 0x0064_ff9b_0000_0000_0000_0000 {
        let (j, _) = classify_v4(a as u32);
        return (None, Some(if j.is_some() { "nat64-internal" } else { "nat64" }), "v6-nat64");
    }
    if seg0 == 0x2002 {
        let v4 = (a >> 80) as u32;
        let (j, _) = classify_v4(v4);
        return (None, Some(if j.is_some() { "6to4-internal" } else { "6to4" }), "v6-6to4");
    }
    if (a >> 32) == 0xffff_0000 {
        let (j, _) = classify_v4(a as u32);
        return (None, Some(if j.is_some() { "siit-translated-internal" } else { "siit-translated" }), "v6-siit");
    }
    if seg0 & 0xffc0 == 0xfec0 {
        return (None, Some("site-local-deprecated"), "v6");
    }
    if (a >> 96) as u32 == 0x2001_0db8 {
        return (None, Some("v6-documentation"), "v6");
    }
    (None, None, "v6")
}

/// Classifies the raw host text of a URI (brackets kept for IPv6).
pub fn classify_host(raw: &str) -> HostInfo {
    let none = |kind: &'static str, enc: &str| HostInfo { kind, judged: None, unjudged: None, encoding: enc.to_string(), v4: None, v6: None };
    if raw.is_empty() {
        return none("none", "empty");
    }
    let (dec, had_pct) = pct_decode(raw);
    let pct = if had_pct { "+pct" } else { "" };
    if dec.starts_with('[') {
        let Some(inner) = dec.strip_prefix('[').and_then(|x| x.strip_suffix(']')) else {
            return none("name", "bad-bracket");
        };
        return match parse_ipv6(inner) {
            Some((a, dotted)) => {
                let (j, u, form) = classify_v6(a);
                let mut enc = form.to_string();
                if dotted {
                    enc.push_str("-dotted");
                }
                let canonical = std::net::Ipv6Addr::from(a).to_string();
                if inner != canonical {
                    enc.push_str(if inner.eq_ignore_ascii_case(&canonical) { "+case" } else { "+noncanon" });
                }
                enc.push_str(pct);
                HostInfo { kind: "ipv6", judged: j, unjudged: u, encoding: enc, v4: None, v6: Some(a) }
            }
            None => none("name", "bad-ipv6"),
        };
    }
    let lower = dec.to_ascii_lowercase();
    let (stripped, tdot) = match lower.strip_suffix('.') {
        Some(x) => (x.to_string(), true),
        None => (lower.clone(), false),
    };
    if stripped == "localhost" || stripped.ends_with(".localhost") {
        let mut enc = String::from(if stripped == "localhost" { "name" } else { "subname" });
        if dec != lower {
            enc.push_str("+case");
        }
        if tdot {
            enc.push_str("+tdot");
        }
        enc.push_str(pct);
        return HostInfo { kind: "name", judged: Some("localhost"), unjudged: None, encoding: enc, v4: None, v6: None };
    }
    if let Some((a, mut enc)) = parse_ipv4_whatwg(&dec) {
        let (j, u) = classify_v4(a);
        enc.push_str(pct);
        return HostInfo { kind: "ipv4", judged: j, unjudged: u, encoding: enc, v4: Some(a), v6: None };
    }
    let mut h = none("name", "name");
    let s2 = stripped.trim_end_matches('.');
    if tdot && (s2 == "localhost" || s2.ends_with(".localhost")) {
        h.unjudged = Some("localhost-multi-trailing-dot");
    }
    h.encoding.push_str(pct);
    h
}

#[cfg(test)]
mod tests {
    use super::*;
    #[test]
    fn v4_forms() {
        for s in ["127.0.0.1", "127.1", "2130706433", "017700000001", "0x7f.1", "0x7f000001", "0177.0.0.1", "127.0.0.1.", "0X7F.0.0.0x1", "127.0.1"] {
            let (a, _) = parse_ipv4_whatwg(s).unwrap();
            assert_eq!(a >> 24, 127, "{s}");
        }
        assert!(parse_ipv4_whatwg("1.2.3.4.5").is_none());
        assert!(parse_ipv4_whatwg("256.1.1.1").is_none());
        assert!(parse_ipv4_whatwg("a.b").is_none());
        assert!(parse_ipv4_whatwg("08").is_none());
    }
    #[test]
    fn v6_forms() {
        assert_eq!(parse_ipv6("::1").unwrap().0, 1);
        assert_eq!(parse_ipv6("::").unwrap().0, 0);
        assert_eq!(parse_ipv6("::ffff:127.0.0.1").unwrap().0, 0xffff_7f00_0001);
        assert_eq!(parse_ipv6("0:0:0:0:0:ffff:7f00:1").unwrap().0, 0xffff_7f00_0001);
        assert_eq!(parse_ipv6("fe80::1").unwrap().0 >> 112, 0xfe80);
        assert!(parse_ipv6("1:2:3:4:5:6:7").is_none());
        assert!(parse_ipv6("1::2::3").is_none());
    }
    #[test]
    fn split() {
        let p = split_uri("http://a:b@[::1]:80/x?y");
        assert_eq!(p.host.as_deref(), Some("[::1]"));
        assert_eq!(p.port.as_deref(), Some("80"));
        assert_eq!(p.userinfo.as_deref(), Some("a:b"));
        let p = split_uri("example.com:8080");
        assert_eq!(p.scheme, None);
        assert_eq!(p.host.as_deref(), Some("example.com"));
    }
}
