#!/usr/bin/env python3
"""Evaluates seeded changes (/verif/seeded/<name>/patch.diff) against the checks.

usage: tools/run_seeded.py [--worktree DIR] [--build DIR] [--in-repo] [--tier quick] [--checks C01,C02] NAME...

Default mode works in a scratch git worktree of /repo (created on demand outside /repo and /verif,
evaluated through `VERIF_REPO=<worktree> VERIF_BUILD=<dir>` so that /repo is never touched and other
work can go on).  `--in-repo` instead applies the patch to /repo itself (`git -C /repo apply`), runs
the registered commands unchanged and undoes it straight afterwards (`git -C /repo checkout -- .`).
The checks run for a seeded change default to the property named in its meta.json ("property").
Result: /verif/seeded/<name>/result.json  {check: {exit, violation_lines, summary}}.
"""
import json, os, subprocess, sys, time

ROOT = os.path.dirname(os.path.dirname(os.path.abspath(__file__)))

def sh(cmd, **kw):
    return subprocess.run(cmd, shell=True, capture_output=True, text=True, **kw)

def main():
    a = sys.argv[1:]
    wt, build, in_repo, tier, checks = "/tmp/wt-eval", "/tmp/wt-eval-build", False, "quick", None
    names = []
    i = 0
    while i < len(a):
        if a[i] == "--worktree": wt = a[i+1]; i += 2
        elif a[i] == "--build": build = a[i+1]; i += 2
        elif a[i] == "--in-repo": in_repo = True; i += 1
        elif a[i] == "--tier": tier = a[i+1]; i += 2
        elif a[i] == "--checks": checks = a[i+1].split(","); i += 2
        else: names.append(a[i]); i += 1
    if not in_repo and not os.path.isdir(wt):
        r = sh(f"git -C /repo worktree add -q --detach {wt} HEAD")
        if r.returncode: print(r.stderr); return 2
    target = "/repo" if in_repo else wt
    for name in names:
        d = os.path.join(ROOT, "seeded", name)
        patch = os.path.join(d, "patch.diff")
        meta = json.load(open(os.path.join(d, "meta.json")))
        todo = checks or [meta["property"]]
        if not in_repo:
            sh(f"git -C {wt} checkout -q --detach $(git -C /repo rev-parse HEAD) && git -C {wt} checkout -- .")
        r = sh(f"git -C {target} apply --whitespace=nowarn {patch}")
        if r.returncode:
            print(f"{name}: patch does not apply: {r.stderr.strip()[:300]}")
            json.dump({"error": "patch does not apply", "stderr": r.stderr}, open(os.path.join(d, "result.json"), "w"), indent=1)
            continue
        res = {"mode": "in-repo" if in_repo else "scratch-worktree", "repo_head": sh("git -C /repo rev-parse --short HEAD").stdout.strip(), "tier": tier, "checks": {}}
        try:
            for c in todo:
                env = dict(os.environ)
                if not in_repo:
                    env.update(VERIF_REPO=wt, VERIF_BUILD=build, VERIF_ROOT=build + "-root", VERIF_KNOWN_FILE=os.path.join(ROOT, "KNOWN_FINDINGS.txt"))
                t0 = time.time()
                p = subprocess.run([os.path.join(ROOT, "check"), c, "--tier", tier], cwd=ROOT, env=env, capture_output=True, text=True)
                out = p.stdout + p.stderr
                vio = [l for l in out.splitlines() if l.startswith("VIOLATION")]
                sigs = [l.strip() for l in out.splitlines() if l.strip().startswith("sig=")]
                summ = [l for l in out.splitlines() if l.startswith("SUMMARY")]
                res["checks"][c] = {"exit": p.returncode, "violation_lines": vio[:10], "sigs": sigs[:10], "summary": summ[-1] if summ else out[-400:], "wall_s": round(time.time() - t0, 1)}
                print(f"{name}: {c} exit={p.returncode} violations={len(vio)} {sigs[:2]}")
        finally:
            sh(f"git -C {target} checkout -- .")
            if in_repo:
                st = sh("git -C /repo status --short").stdout.strip()
                if st: print("WARNING /repo not clean after undo:", st)
        res["caught"] = any(v["exit"] == 1 for v in res["checks"].values())
        json.dump(res, open(os.path.join(d, "result.json"), "w"), indent=1)
    return 0

if __name__ == "__main__":
    sys.exit(main())
