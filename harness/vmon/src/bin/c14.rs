//! C14 — reserved-size padding is exact and signing succeeds for any ample reserve.
//!
//! Three observation points, all judged from the statement only:
//!  (a) `c2pa::cose_sign::sign_claim(claim, signer, R, settings)` for every R in [min-8, min+70 000]
//!      per signing algorithm (claim CBOR taken from a signed tiny asset with the harness's own
//!      JUMBF walker);
//!  (b) `DataHash::pad_to_size(T)` for dense windows of targets above the unpadded size;
//!  (c) `Builder::sign` with a signer reporting reserve R, stratified around the CBOR header steps.
//! Oracle: Ok => output length == R (resp. encoded size == T; signature box payload == R and the
//! asset reads back Valid); the set of succeeding sizes must be upward closed from its minimum;
//! never a panic / abort / runaway recursion.  Everything that calls the padding routines runs in
//! child processes on a 512 KiB stack so that an abort or stack overflow is a clean witness.
use c2pa::{assertions::DataHash, Builder, Context, HashRange, Signer};
use serde_json::{json, Value};
use std::collections::BTreeMap;
use std::io::{Cursor, Write};
use std::path::{Path, PathBuf};
use vmon::{assets, jumbf, par, report, signers, Rng, Run};

const WINDOW: usize = 70_000;

fn settings_json() -> String {
    json!({
        "verify": {"verify_trust": true},
        "trust": {"trust_anchors": signers::trust_anchors_pem()},
        "builder": {"thumbnail": {"enabled": false}}
    })
    .to_string()
}

fn definition() -> Value {
    json!({
        "claim_generator_info": [{"name": "verif_c14", "version": "1.0"}],
        "title": "c14",
        "assertions": [{"label": "c2pa.actions", "data": {"actions": [{"action": "c2pa.created", "digitalSourceType": "http://c2pa.org/digitalsourcetype/empty"}]}}]
    })
}

/// Band of a size relative to the smallest succeeding size (cause class used in signatures).
fn band(d: i64) -> &'static str {
    match d {
        i64::MIN..=-1 => "below-min",
        0 => "min",
        1..=511 => "d<512",
        512..=65_535 => "512<=d<65536",
        _ => "d>=65536",
    }
}

/// Finer class for the evidence (CBOR length-header steps of the distance).
fn fine(d: i64) -> &'static str {
    match d {
        i64::MIN..=-1 => "below-min",
        0 => "d=0",
        1..=23 => "d<24",
        24..=255 => "d<256",
        256..=511 => "d<512",
        512..=65_535 => "d<65536",
        _ => "d>=65536",
    }
}

// ------------------------------------------------------------------------------------------
// child side

#[derive(Debug, Clone)]
enum Obs {
    /// (output length, pad length, pad2 length, extra: state for builder_sign)
    Ok(usize, i64, i64, String),
    Err(String),
    Panic(String),
}

fn cose_pad_lens(cose: &[u8]) -> (i64, i64) {
    let v: Result<ciborium::Value, _> = ciborium::from_reader(cose);
    let mut pad = -1i64;
    let mut pad2 = -1i64;
    if let Ok(ciborium::Value::Tag(_, inner)) = v {
        if let ciborium::Value::Array(items) = *inner {
            if let Some(ciborium::Value::Map(m)) = items.get(1) {
                for (k, val) in m {
                    if let (ciborium::Value::Text(t), ciborium::Value::Bytes(b)) = (k, val) {
                        if t == "pad" {
                            pad = b.len() as i64;
                        } else if t == "pad2" {
                            pad2 = b.len() as i64;
                        }
                    }
                }
            } else {
                pad = -2; // not a COSE_Sign1 shape
            }
        }
    } else {
        pad = -2;
    }
    (pad, pad2)
}

fn child_main(args: &[String]) -> ! {
    // c14 --child <mode> <alg> <listfile> [claimfile]
    let mode = args[0].clone();
    let alg = args[1].clone();
    let list: Vec<usize> = std::fs::read_to_string(&args[2]).expect("list").lines().filter_map(|l| l.trim().parse().ok()).collect();
    let claim: Vec<u8> = if args.len() > 3 { std::fs::read(&args[3]).expect("claim") } else { Vec::new() };
    report::quiet_panics();
    let h = std::thread::Builder::new()
        .stack_size(512 * 1024)
        .spawn(move || {
            let out = std::io::stdout();
            let ctx = Context::new().with_settings(settings_json().as_str()).expect("settings");
            let signer = signers::TestSigner::new(&alg);
            for r in list {
                let line = match mode.as_str() {
                    "sign_claim" => {
                        match report::catch_sdk(|| c2pa::cose_sign::sign_claim(&claim, &signer, r, ctx.settings())) {
                            Ok(Ok(v)) => {
                                let (p, p2) = cose_pad_lens(&v);
                                format!("{r} ok {} {p} {p2} -", v.len())
                            }
                            Ok(Err(e)) => format!("{r} err {}", report::err_kind(&e)),
                            Err(p) => format!("{r} panic {}", p.replace('\n', " ")),
                        }
                    }
                    _ => {
                        // builder_sign: full flow on a tiny JPEG, signer reports reserve r
                        let res = report::catch_sdk(|| -> Result<(usize, String), String> {
                            let signer = signers::TestSigner::new(&alg).with_reserve(r);
                            let c = Context::new().with_settings(settings_json().as_str()).map_err(|e| format!("harness:{e:?}"))?;
                            let mut b = Builder::from_context(c).with_definition(definition()).map_err(|e| format!("harness:{e:?}"))?;
                            let mut src = Cursor::new(assets::tiny_jpeg(None, false, &[]));
                            let mut dst = Cursor::new(Vec::new());
                            let store = b.sign(&signer, "jpg", &mut src, &mut dst).map_err(|e| report::err_kind(&e))?;
                            let root = jumbf::parse_store(&store).ok_or("harness:store-unparseable")?;
                            let (s, e) = jumbf::content_range(&root, "c2pa.signature").ok_or("harness:no-signature-box")?;
                            let c = Context::new().with_settings(settings_json().as_str()).map_err(|e| format!("harness:{e:?}"))?;
                            let o = report::read_bytes(c, "jpg", &dst.into_inner());
                            Ok((e - s, o.state))
                        });
                        match res {
                            Ok(Ok((n, st))) => format!("{r} ok {n} -1 -1 {st}"),
                            Ok(Err(e)) => format!("{r} err {e}"),
                            Err(p) => format!("{r} panic {}", p.replace('\n', " ")),
                        }
                    }
                };
                let mut o = out.lock();
                let _ = writeln!(o, "{line}");
                let _ = o.flush();
            }
        })
        .expect("spawn");
    let _ = h.join();
    std::process::exit(0);
}

// ------------------------------------------------------------------------------------------
// parent side

struct Shard {
    results: BTreeMap<usize, Obs>,
    /// the size the child was working on when it died, with a description of how it died
    died: Option<(usize, String)>,
    oom_or_unknown: Option<String>,
}

fn run_child(dir: &Path, tag: &str, mode: &str, alg: &str, list: &[usize], claim: Option<&Path>) -> Shard {
    let lf = dir.join(format!("{tag}.list"));
    std::fs::write(&lf, list.iter().map(|r| r.to_string()).collect::<Vec<_>>().join("\n")).expect("write list");
    let exe = std::env::current_exe().expect("exe");
    let mut cmd = std::process::Command::new(exe);
    cmd.arg("--child").arg(mode).arg(alg).arg(&lf);
    if let Some(c) = claim {
        cmd.arg(c);
    }
    let out = cmd.stderr(std::process::Stdio::piped()).output();
    let mut sh = Shard { results: BTreeMap::new(), died: None, oom_or_unknown: None };
    let out = match out {
        Ok(o) => o,
        Err(e) => {
            sh.oom_or_unknown = Some(format!("cannot spawn child: {e}"));
            return sh;
        }
    };
    for line in String::from_utf8_lossy(&out.stdout).lines() {
        let mut it = line.splitn(3, ' ');
        let (Some(r), Some(kind), rest) = (it.next(), it.next(), it.next().unwrap_or("")) else { continue };
        let Ok(r) = r.parse::<usize>() else { continue };
        let obs = match kind {
            "ok" => {
                let f: Vec<&str> = rest.split(' ').collect();
                Obs::Ok(f.first().and_then(|x| x.parse().ok()).unwrap_or(usize::MAX), f.get(1).and_then(|x| x.parse().ok()).unwrap_or(-1), f.get(2).and_then(|x| x.parse().ok()).unwrap_or(-1), f.get(3).unwrap_or(&"-").to_string())
            }
            "err" => Obs::Err(rest.to_string()),
            _ => Obs::Panic(rest.to_string()),
        };
        sh.results.insert(r, obs);
    }
    if !out.status.success() || sh.results.len() < list.len() {
        let next = list.iter().find(|r| !sh.results.contains_key(r)).copied();
        let how = {
            #[cfg(unix)]
            {
                use std::os::unix::process::ExitStatusExt;
                match out.status.signal() {
                    Some(s) => format!("signal {s}"),
                    None => format!("exit {:?}", out.status.code()),
                }
            }
            #[cfg(not(unix))]
            {
                format!("{:?}", out.status)
            }
        };
        let err_tail: String = String::from_utf8_lossy(&out.stderr).chars().rev().take(300).collect::<String>().chars().rev().collect();
        match next {
            Some(r) if how != "signal 9" => sh.died = Some((r, format!("{how}; stderr: {}", err_tail.replace('\n', " ")))),
            Some(r) => sh.oom_or_unknown = Some(format!("child killed (signal 9) while working on size {r}")),
            None => {}
        }
    }
    sh
}

fn extract_claim() -> Result<Vec<u8>, String> {
    let ctx = Context::new().with_settings(settings_json().as_str()).map_err(|e| format!("{e:?}"))?;
    let mut b = Builder::from_context(ctx).with_definition(definition()).map_err(|e| format!("{e:?}"))?;
    let signer = signers::test_signer("ed25519");
    let mut src = Cursor::new(assets::tiny_jpeg(None, false, &[]));
    let mut dst = Cursor::new(Vec::new());
    let store = b.sign(signer.as_ref(), "jpg", &mut src, &mut dst).map_err(|e| format!("{e:?}"))?;
    let root = jumbf::parse_store(&store).ok_or("store does not parse")?;
    let (s, e) = jumbf::content_range(&root, "c2pa.claim.v2").or_else(|| jumbf::content_range(&root, "c2pa.claim")).ok_or("no claim box")?;
    Ok(store[s..e].to_vec())
}

fn cbor_hdr(n: usize) -> usize {
    match n {
        0..=23 => 1,
        24..=255 => 2,
        256..=65_535 => 3,
        65_536..=4_294_967_295 => 5,
        _ => 9,
    }
}

/// Judges one sweep (sizes -> observations).  Returns the smallest succeeding size.
#[allow(clippy::too_many_arguments)]
fn judge_sweep(run: &mut Run, routine: &str, alg: &str, res: &BTreeMap<usize, Obs>, died: &[(usize, String)], exact_len: bool, want_state: bool, witness: &dyn Fn(usize) -> Value) -> Option<usize> {
    let min_ok = res.iter().find(|(_, o)| matches!(o, Obs::Ok(..))).map(|(r, _)| *r);
    for (r, o) in res {
        run.eval();
        let d = match min_ok {
            Some(m) => *r as i64 - m as i64,
            None => -1,
        };
        let (outcome, viol): (String, Option<(String, String)>) = match o {
            Obs::Ok(len, pad, pad2, state) => {
                let shape = if *pad2 >= 0 { "pad+pad2" } else if *pad >= 0 { "pad" } else { "nopad" };
                if exact_len && *len != *r {
                    ("ok-wrong-length".into(), Some((format!("{routine}|{}|wrong-length", band(d)), format!("{routine} with reserve {r} ({alg}) returned {len} bytes"))))
                } else if *pad == -2 {
                    ("ok-unparseable".into(), Some((format!("{routine}|{}|unparseable-cose", band(d)), format!("{routine} with reserve {r} ({alg}): output is not a tagged COSE_Sign1 array"))))
                } else if want_state && state != "Valid" && state != "Trusted" {
                    ("ok-not-valid".into(), Some((format!("{routine}|{}|readback-not-valid", band(d)), format!("{routine} with reserve {r} ({alg}) signed but the asset reads back {state}"))))
                } else {
                    (format!("ok-exact:{shape}"), None)
                }
            }
            Obs::Err(k) => {
                if d > 0 {
                    (format!("err:{k}"), Some((format!("{routine}|{}|err-above-success:{k}", band(d)), format!("{routine} ({alg}) fails with {k} at reserve {r} although reserve {} succeeds (distance {d})", min_ok.unwrap_or(0)))))
                } else {
                    (format!("err:{k}"), None)
                }
            }
            Obs::Panic(p) => ("panic".into(), Some((format!("{routine}|{}|panic", band(d)), format!("{routine} ({alg}) panicked at reserve {r}: {p}")))),
        };
        // below-min errors are the expected rejection; everything else is a judged observation
        if d >= 0 || !matches!(o, Obs::Err(_)) {
            run.nontrivial(format!("{routine}|{alg}|{}|{outcome}", fine(d)));
        } else {
            run.count("below_min_rejections", 1);
        }
        run.count(&format!("{routine}:{}", outcome.split(':').next().unwrap_or("")), 1);
        run.sample(&format!("{routine}:{}:{outcome}", fine(d)), 1, json!({"alg": alg, "reserve": r, "min_ok": min_ok, "observed": format!("{o:?}")}));
        if let Some((sig, what)) = viol {
            run.violation(&sig, &what, witness(*r));
        }
    }
    for (r, how) in died {
        let d = match min_ok {
            Some(m) => *r as i64 - m as i64,
            None => -1,
        };
        run.eval();
        run.nontrivial(format!("{routine}|{alg}|{}|abort", fine(d)));
        run.violation(&format!("{routine}|{}|abort", band(d)), &format!("{routine} ({alg}) killed the process at reserve {r}: {how}"), witness(*r));
    }
    min_ok
}

// ---- (b) DataHash::pad_to_size ---------------------------------------------------------------
fn dh_shape(shape: usize) -> DataHash {
    let mut dh = DataHash::new("jumbf manifest", "sha256");
    dh.set_hash(vec![0xAB; 32]);
    match shape {
        0 => {}
        1 => dh.add_exclusion(HashRange::new(20, 3000)),
        2 => {
            for _ in 0..10 {
                dh.add_exclusion(HashRange::new(0, 2));
            }
        }
        3 => {
            for i in 0..12u64 {
                dh.add_exclusion(HashRange::new(70_000 + i * 5_000_000_000, 1 + i * 300));
            }
        }
        _ => {
            // 23 exclusions: the array header is at its own 23/24 step
            for i in 0..23u64 {
                dh.add_exclusion(HashRange::new(i * 10, 3));
            }
        }
    }
    dh
}

/// Encoded size of a DataHash by the harness's own CBOR arithmetic.
fn dh_size_model(dh: &DataHash) -> usize {
    let uint = |v: u64| cbor_hdr(v as usize);
    let mut n = 0usize;
    let mut fields = 2; // hash, pad
    if let Some(ex) = &dh.exclusions {
        fields += 1;
        n += 1 + 10 + cbor_hdr(ex.len());
        for r in ex {
            n += 1 + 6 + uint(r.start()) + 7 + uint(r.length());
        }
    }
    if let Some(s) = &dh.name {
        fields += 1;
        n += 1 + 4 + cbor_hdr(s.len()) + s.len();
    }
    if let Some(s) = &dh.alg {
        fields += 1;
        n += 1 + 3 + cbor_hdr(s.len()) + s.len();
    }
    n += 1 + 4 + cbor_hdr(dh.hash.len()) + dh.hash.len();
    n += 1 + 3 + cbor_hdr(dh.pad.len()) + dh.pad.len();
    if let Some(p) = &dh.pad2 {
        fields += 1;
        n += 1 + 4 + cbor_hdr(p.len()) + p.len();
    }
    cbor_hdr(fields) + n
}

enum PadObs {
    Ok { size: usize, model: usize, pad: usize, pad2: Option<usize> },
    Err(String),
    Panic(String),
}

fn pad_case(shape: usize, target: usize) -> PadObs {
    let mut dh = dh_shape(shape);
    match report::catch_sdk(|| dh.pad_to_size(target)) {
        Err(p) => PadObs::Panic(p),
        Ok(Err(e)) => PadObs::Err(report::err_kind(&e)),
        Ok(Ok(())) => PadObs::Ok { size: c2pa_cbor::to_vec(&dh).map(|v| v.len()).unwrap_or(usize::MAX), model: dh_size_model(&dh), pad: dh.pad.len(), pad2: dh.pad2.as_ref().map(|p| p.len()) },
    }
}

fn main() {
    let args: Vec<String> = std::env::args().collect();
    if args.len() > 1 && args[1] == "--child" {
        child_main(&args[2..]);
    }
    if args.len() > 2 && args[1] == "--dump-claim" {
        std::fs::write(&args[2], extract_claim().expect("claim")).expect("write");
        return;
    }
    let mut run = Run::from_args("C14", "exploration");
    report::quiet_panics();
    run.rule = "(a) sign_claim for every reserve R in [min-8, min+70000] (quick: all R for ed25519 and es256, every 97th R plus dense windows at the CBOR header steps for the other five algorithms; thorough: all R for all seven); (b) DataHash::pad_to_size for every target in [cur, cur+700], cur+65536+-w and a stratified sample up to +70000 over five exclusion-list shapes; (c) Builder::sign on a tiny JPEG with a signer reporting reserve R on a stratified sample around each step. Non-trivial+distinct = (routine, alg/shape, fine distance class, outcome).".into();
    run.assumptions = vec![
        "min = the smallest size for which the routine succeeds in the sweep (an exact-fit reserve counts as a success)".into(),
        "claim CBOR for sign_claim is taken from a tiny JPEG signed with the fixture Ed25519 key (independent JUMBF walker)".into(),
        "DataHash encoded size is measured with c2pa_cbor::to_vec (the encoder the assertion uses) and cross-checked with the harness's own CBOR size arithmetic".into(),
        "errors below min are the expected rejection and are not judged; any error kind above a succeeding size is judged".into(),
    ];
    let quick = run.quick();
    let dir = tempfile::tempdir().expect("tempdir");
    let dpath: PathBuf = dir.path().to_path_buf();

    if let Some(p) = run.replay.clone() {
        let v: Value = serde_json::from_slice(&std::fs::read(&p).expect("replay file")).expect("json");
        let w = &v["witness"];
        let routine = w["routine"].as_str().unwrap_or("sign_claim").to_string();
        let r = w["reserve"].as_u64().unwrap_or(0) as usize;
        if routine == "pad_to_size" {
            let o = pad_case(w["shape"].as_u64().unwrap_or(0) as usize, r);
            let bad = !matches!(o, PadObs::Ok { size, .. } if size == r);
            println!("replay: pad_to_size shape={} target={} failed={bad}", w["shape"], r);
            std::process::exit(if bad { 1 } else { 0 });
        }
        let alg = w["alg"].as_str().unwrap_or("ed25519").to_string();
        let claim = extract_claim().expect("claim");
        let cf = dpath.join("claim.cbor");
        std::fs::write(&cf, &claim).unwrap();
        let sh = run_child(&dpath, "replay", if routine == "builder_sign" { "builder_sign" } else { "sign_claim" }, &alg, &[r], Some(&cf));
        println!("replay: {routine} alg={alg} reserve={r} -> {:?} died={:?}", sh.results.get(&r), sh.died);
        let ok = matches!(sh.results.get(&r), Some(Obs::Ok(len, ..)) if *len == r);
        std::process::exit(if ok { 0 } else { 1 });
    }

    // ---------------- (a) sign_claim sweep -------------------------------------------------
    let t_a = std::time::Instant::now();
    let claim = match extract_claim() {
        Ok(c) => c,
        Err(e) => {
            run.inconclusive(format!("cannot obtain claim bytes: {e}"));
            run.finish(10);
        }
    };
    let cf = dpath.join("claim.cbor");
    std::fs::write(&cf, &claim).expect("write claim");
    run.set("claim_len", json!(claim.len()));
    let mut s0_by_alg: BTreeMap<String, usize> = BTreeMap::new();
    let mut plan: Vec<(String, Vec<usize>)> = Vec::new();
    for (alg, _) in signers::ALGS {
        // probe at the signer's default reserve to locate the unpadded size
        let def = signers::TestSigner::new(alg).reserve_size();
        let sh = run_child(&dpath, &format!("probe-{alg}"), "sign_claim", alg, &[def], Some(&cf));
        let s0 = match sh.results.get(&def) {
            Some(Obs::Ok(len, pad, _, _)) if *pad >= 0 => len - (4 + cbor_hdr(*pad as usize) + *pad as usize),
            Some(Obs::Ok(len, _, _, _)) => *len,
            other => {
                run.inconclusive(format!("sign_claim probe for {alg} at default reserve {def} did not succeed: {other:?} {:?}", sh.died));
                continue;
            }
        };
        s0_by_alg.insert(alg.to_string(), s0);
        let lo = s0.saturating_sub(8);
        let hi = s0 + WINDOW;
        let full = !quick || *alg == "ed25519" || *alg == "es256";
        let list: Vec<usize> = if full {
            (lo..=hi).collect()
        } else {
            let mut v: Vec<usize> = (lo..=hi).step_by(97).collect();
            for c in [0usize, 24, 256, 512, 65_536, WINDOW - 20] {
                v.extend((s0 + c).saturating_sub(12)..=(s0 + c + 20).min(hi));
            }
            v.sort();
            v.dedup();
            v
        };
        plan.push((alg.to_string(), list));
    }
    run.set("unpadded_cose_size_by_alg", json!(s0_by_alg));
    // shards of <= 1500 sizes each, all algorithms in one pool
    let mut shards: Vec<(String, Vec<usize>)> = Vec::new();
    for (alg, list) in &plan {
        for ch in list.chunks(1500) {
            shards.push((alg.clone(), ch.to_vec()));
        }
    }
    let shard_res = par::par_map(shards.len(), |i| run_child(&dpath, &format!("a{i}"), "sign_claim", &shards[i].0, &shards[i].1, Some(&cf)));
    let mut by_alg: BTreeMap<String, (BTreeMap<usize, Obs>, Vec<(usize, String)>)> = BTreeMap::new();
    for (i, sh) in shard_res.into_iter().enumerate() {
        let e = by_alg.entry(shards[i].0.clone()).or_default();
        run.count("child_processes", 1);
        e.0.extend(sh.results);
        if let Some(d) = sh.died {
            e.1.push(d);
        }
        if let Some(m) = sh.oom_or_unknown {
            run.inconclusive(format!("sign_claim shard {} ({}): {m}", i, shards[i].0));
        }
    }
    let mut min_by_alg: BTreeMap<String, usize> = BTreeMap::new();
    for (alg, (res, died)) in &by_alg {
        let a = alg.clone();
        let m = judge_sweep(&mut run, "sign_claim", alg, res, died, true, false, &|r| json!({"routine": "sign_claim", "alg": a, "reserve": r}));
        if let Some(m) = m {
            min_by_alg.insert(alg.clone(), m);
        }
        run.count("sign_claim_calls", res.len() as u64);
    }
    run.set("min_succeeding_reserve_by_alg", json!(min_by_alg));

    run.set("seconds_part_a", json!(t_a.elapsed().as_secs_f64()));
    let t_c = std::time::Instant::now();
    // ---------------- (c) Builder::sign with chosen reserve ---------------------------------
    let c_algs: Vec<&str> = if quick { vec!["ed25519", "es256", "ps256"] } else { signers::ALGS.iter().map(|a| a.0).collect() };
    let mut c_shards: Vec<(String, Vec<usize>)> = Vec::new();
    for alg in &c_algs {
        let Some(&m) = min_by_alg.get(*alg) else { continue };
        let mut v: Vec<usize> = Vec::new();
        for c in [0usize, 24, 256, 512, 4096, 65_536, WINDOW - 10] {
            v.extend((m + c).saturating_sub(if c == 0 { 3 } else { 10 })..=(m + c + 12).min(m + WINDOW));
        }
        v.extend((m..=m + WINDOW).step_by(if quick { 2311 } else { 499 }));
        let mut rng = Rng::new(run.seed, &format!("c14c-{alg}"));
        for _ in 0..(if quick { 30 } else { 300 }) {
            v.push(m + rng.usize(WINDOW + 1));
        }
        v.sort();
        v.dedup();
        for ch in v.chunks(40) {
            c_shards.push((alg.to_string(), ch.to_vec()));
        }
    }
    let c_res = par::par_map(c_shards.len(), |i| run_child(&dpath, &format!("c{i}"), "builder_sign", &c_shards[i].0, &c_shards[i].1, None));
    let mut c_by_alg: BTreeMap<String, (BTreeMap<usize, Obs>, Vec<(usize, String)>)> = BTreeMap::new();
    for (i, sh) in c_res.into_iter().enumerate() {
        let e = c_by_alg.entry(c_shards[i].0.clone()).or_default();
        run.count("child_processes", 1);
        e.0.extend(sh.results);
        if let Some(d) = sh.died {
            e.1.push(d);
        }
        if let Some(m) = sh.oom_or_unknown {
            run.inconclusive(format!("builder_sign shard {} ({}): {m}", i, c_shards[i].0));
        }
    }
    for (alg, (res, died)) in &c_by_alg {
        let a = alg.clone();
        judge_sweep(&mut run, "builder_sign", alg, res, died, true, true, &|r| json!({"routine": "builder_sign", "alg": a, "reserve": r}));
        run.count("builder_sign_calls", res.len() as u64);
    }

    run.set("seconds_part_c", json!(t_c.elapsed().as_secs_f64()));
    let t_b = std::time::Instant::now();
    // ---------------- (b) DataHash::pad_to_size ---------------------------------------------
    let mut pad_cases: Vec<(usize, usize)> = Vec::new();
    let mut cur_by_shape: Vec<usize> = Vec::new();
    for shape in 0..5usize {
        let cur = c2pa_cbor::to_vec(&dh_shape(shape)).map(|v| v.len()).unwrap_or(0);
        cur_by_shape.push(cur);
        if dh_size_model(&dh_shape(shape)) != cur {
            run.inconclusive(format!("harness CBOR size model disagrees with c2pa_cbor on shape {shape}"));
        }
        for t in cur.saturating_sub(3)..=cur + 700 {
            pad_cases.push((shape, t));
        }
        let w = if quick {
            if shape == 0 { 40 } else { 6 }
        } else {
            300
        };
        for t in cur + 65_536 - w..=cur + 65_536 + w {
            pad_cases.push((shape, t));
        }
        let step = if quick { 9973 } else { 1499 };
        for t in (cur + 701..=cur + WINDOW).step_by(step) {
            pad_cases.push((shape, t));
        }
        pad_cases.push((shape, cur + WINDOW));
    }
    let pad_res = par::par_map(pad_cases.len(), |i| pad_case(pad_cases[i].0, pad_cases[i].1));
    for (i, o) in pad_res.iter().enumerate() {
        run.eval();
        let (shape, t) = pad_cases[i];
        let cur = cur_by_shape[shape];
        let d = t as i64 - cur as i64;
        let wit = json!({"routine": "pad_to_size", "shape": shape, "reserve": t, "unpadded": cur});
        let (outcome, viol): (String, Option<(String, String)>) = match o {
            PadObs::Ok { size, model, pad, pad2 } => {
                if size != model {
                    run.inconclusive(format!("pad_to_size shape {shape} target {t}: c2pa_cbor size {size} != model {model}"));
                    ("ok-unmeasurable".into(), None)
                } else if d < 0 {
                    ("ok-below-unpadded".into(), Some((format!("pad_to_size|{}|ok-below-unpadded", band(d)), format!("pad_to_size accepted target {t} below the unpadded size {cur}"))))
                } else if *size != t {
                    ("ok-wrong-size".into(), Some((format!("pad_to_size|{}|wrong-size", band(d)), format!("pad_to_size({t}) returned Ok but the assertion encodes to {size} bytes (pad {pad}, pad2 {pad2:?})"))))
                } else {
                    (format!("ok-exact:{}", if pad2.is_some() { "pad+pad2" } else { "pad" }), None)
                }
            }
            PadObs::Err(k) => {
                if d >= 0 {
                    (format!("err:{k}"), Some((format!("pad_to_size|{}|err-at-or-above-unpadded:{k}", band(d)), format!("pad_to_size({t}) fails with {k} although the target is {d} bytes above the unpadded size {cur}"))))
                } else {
                    (format!("err:{k}"), None)
                }
            }
            PadObs::Panic(p) => ("panic".into(), Some((format!("pad_to_size|{}|panic", band(d)), format!("pad_to_size({t}) panicked: {p}")))),
        };
        if d >= 0 || !matches!(o, PadObs::Err(_)) {
            run.nontrivial(format!("pad_to_size|shape{shape}|{}|{outcome}", fine(d)));
        } else {
            run.count("below_min_rejections", 1);
        }
        run.count(&format!("pad_to_size:{}", outcome.split(':').next().unwrap_or("")), 1);
        run.sample(&format!("pad_to_size:{}:{outcome}", fine(d)), 1, wit.clone());
        if let Some((sig, what)) = viol {
            run.violation(&sig, &what, wit);
        }
    }
    run.count("pad_to_size_calls", pad_cases.len() as u64);
    run.set("seconds_part_b", json!(t_b.elapsed().as_secs_f64()));
    run.engine("release", true, json!({"threads": par::workers(), "child_stack_bytes": 512 * 1024}));
    run.finish(30);
}
