//! JPEG XL container (ISO/IEC 18181-2): a sequence of ISOBMFF-style boxes, first the 12-byte
//! signature box `JXL ` then `ftyp`.  The C2PA manifest store *is* a top-level `jumb` box (the whole
//! box, header included) whose first child is a `jumd` with the C2PA manifest-store UUID.
use super::bmff::top_boxes;
use super::{is_c2pa_superbox, Container, Elem, Parsed};

pub const MAGIC: [u8; 12] = [0, 0, 0, 0x0C, b'J', b'X', b'L', b' ', 0x0D, 0x0A, 0x87, 0x0A];

pub fn parse(data: &[u8]) -> Result<Parsed, String> {
    if data.len() < 12 || data[..12] != MAGIC {
        return Err("not a JPEG XL container (signature box missing)".into());
    }
    let boxes = top_boxes(data)?;
    if boxes.len() < 2 || &boxes[1].typ != b"ftyp" {
        return Err("second box is not ftyp".into());
    }
    let mut p = Parsed::default();
    for b in &boxes {
        let mut e = Elem::new(String::from_utf8_lossy(&b.typ).to_string(), b.start, b.len, b.start + b.hdr, b.len - b.hdr);
        if &b.typ == b"jumb" && is_c2pa_superbox(&data[b.start + b.hdr..b.start + b.len], true) {
            e.is_c2pa = true;
            p.containers.push(Container { ranges: vec![(b.start, b.len)], store: data[b.start..b.start + b.len].to_vec(), store_ranges: vec![(b.start, b.len)], encoded: false, label: "jumb".into() });
        }
        p.elems.push(e);
    }
    Ok(p)
}
