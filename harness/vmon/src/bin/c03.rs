//! probe stage
use c2pa::{Context, Reader};
use serde_json::{json, Value};
use std::io::Cursor;
use vmon::{assets, defgen, report, signers, Rng};

fn main() {
    report::quiet_panics();
    let pool = defgen::ingredient_pool();
    println!("pool: {:?}", pool.items.iter().map(|i| (&i.name, i.bytes.len(), &i.active_label)).collect::<Vec<_>>());
    let mut rng = Rng::new(1, "probe");
    let tiny = assets::tiny_assets();
    let n: usize = std::env::args().nth(1).and_then(|s| s.parse().ok()).unwrap_or(6);
    for i in 0..n {
        let mut opts = defgen::GenOpts::default();
        opts.big_payloads = false;
        opts.max_assertions = 4;
        opts.claim_version = if i % 3 == 2 { Some(1) } else { None };
        opts.hash_alg = defgen::HASH_ALGS[i % 4];
        let mut d = defgen::gen_def(&mut rng, &opts, pool.items.len());
        if i % 2 == 1 {
            for k in 0..d.ingredients.len() {
                d.add_redaction(k, &pool);
            }
        }
        let a = &tiny[i % tiny.len()];
        let thumbs = i % 4 == 3;
        let ctx = defgen::context(true, thumbs, i % 5 == 4, &json!({}));
        println!("==== case {i} asset={} def={}", a.name, d.definition_json());
        println!("   api-assertions={:?} actions_via_api={} actions={:?} ingredients={:?} intent={:?}", d.assertions.iter().filter(|a| a.via == defgen::Via::Api).map(|a| (&a.label, a.json_kind, a.data.to_string())).collect::<Vec<_>>(), d.actions_via_api, d.actions, d.ingredients, d.intent);
        let mut b = match d.build(ctx, &pool) {
            Ok(b) => b,
            Err(e) => {
                println!("BUILD ERR {e}");
                continue;
            }
        };
        let mode = i % 3;
        if mode == 1 {
            b.set_no_embed(true);
        }
        if mode == 2 {
            b.set_remote_url("https://verif.invalid/m.c2pa");
        }
        let signer = signers::test_signer(signers::ALGS[i % 7].0);
        let mut s = Cursor::new(a.bytes.clone());
        let mut o = Cursor::new(Vec::new());
        match report::catch_sdk(|| b.sign(signer.as_ref(), a.format, &mut s, &mut o)) {
            Ok(Ok(store)) => {
                let out = o.into_inner();
                let ctx = defgen::context(true, false, false, &json!({}));
                let r = if mode == 1 { Reader::from_context(ctx).with_manifest_data_and_stream(&store, a.format, Cursor::new(out.clone())) } else { Reader::from_context(ctx).with_stream(a.format, Cursor::new(out.clone())) };
                match r {
                    Ok(r) => {
                        let v: Value = serde_json::from_str(&r.json()).unwrap();
                        let am = v["active_manifest"].as_str().unwrap_or("").to_string();
                        println!("state={:?} mode={mode} store={} out={} remote={:?} embedded={}", r.validation_state(), store.len(), out.len(), r.remote_url(), r.is_embedded());
                        println!("{}", serde_json::to_string_pretty(&v["manifests"][&am]).unwrap());
                        let o = report::outcome_of(Ok(r));
                        println!("failures={:?}", o.failure_codes());
                    }
                    Err(e) => println!("READ ERR {e:?}"),
                }
            }
            Ok(Err(e)) => println!("SIGN ERR {e:?}"),
            Err(p) => println!("SIGN PANIC {p}"),
        }
    }
}
