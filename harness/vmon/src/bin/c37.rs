//! C37 — revocation evidence is bound to the signing certificate.
//!
//! A test PKI is generated per run in two topologies (root issues the signer directly; root →
//! issuing CA → signer).  OCSP responses are produced by two independent responders: `openssl ocsp
//! -index …` (thisUpdate = now) and a DER encoder in `vmon::pki_tsa` (any thisUpdate/nextUpdate, any
//! responder certificate, several single responses, no embedded certificates, …); one
//! representative of every (status, binding, responder, validity) class is cross-checked with
//! `openssl ocsp -respin … -issuer … -cert … -CAfile …`.  Responses are stapled in the COSE
//! unprotected header (`rVals`/`ocspVals`, direct-COSE signer or `Signer::ocsp_val`), put into a
//! `c2pa.certificate-status` assertion of the same manifest, or both.  `verify.ocsp_fetch` is false
//! throughout (no network).
//!
//! Oracle (from the statement; ground truth is the generator's label):
//!   * effective := the response has a single response for the signer's certId ∧ it is signed (signature
//!     verifies) by the issuing CA or by a certificate issued by that CA with EKU OCSPSigning;
//!   * effective ∧ revoked ∧ inside thisUpdate..nextUpdate ∧ signing time not proven earlier than the
//!     revocation ⇒ never Valid/Trusted;
//!   * ¬effective (other serial, other CA, unauthorised responder, bad signature) or a good/unknown
//!     response outside thisUpdate..nextUpdate ⇒ (state, failure codes) equal to the same asset signed
//!     without any OCSP (differential).
use c2pa::{Context, Signer, SigningAlg};
use coset::cbor::value::Value;
use serde::Serialize;
use serde_json::json;
use std::collections::BTreeMap;
use std::sync::{Arc, Mutex};
use vmon::cose_direct::{DirectCoseSigner, SignCtx};
use vmon::pki::{self, oids, Cert, CertSpec, Ext, Key, KeyKind, Md, DAY};
use vmon::pki_tsa::{self, OcspSpec, OcspStatus, TokenSpec};
use vmon::{assets, par, report, Run};

const HOUR: i64 = 3600;

// ------------------------------------------------------------------------------------------------
// PKI
// ------------------------------------------------------------------------------------------------
struct Ent {
    cert: Cert,
    key: Arc<Key>,
}

struct Pki {
    topo: &'static str,
    now: i64,
    root: Cert,
    /// the CA that issued the signer (== root in the two-level topology)
    ca: Ent,
    /// certificates between the signer and the root, signer's issuer first (x5chain tail)
    chain_tail: Vec<Vec<u8>>,
    ee: Ent,
    sibling: Ent,
    delegate: Ent,
    delegate_no_eku: Ent,
    /// second CA under the same root and a responder issued by it (trusted chain, wrong issuer)
    ca2: Ent,
    cross_delegate: Ent,
    /// unrelated root (not an anchor), a responder and an end-entity with the signer's serial under it
    other_ca: Ent,
    /// a second CA under the same root with the SAME subject DN as `ca` but another key, and its delegate
    twin_ca: Ent,
    twin_delegate: Ent,
    other_delegate: Ent,
    self_signed_responder: Ent,
    wrong_key: Arc<Key>,
    tsa: Ent,
}

fn build_pki(topo: &'static str, slot: usize) -> Pki {
    let now = pki::now_unix();
    let k = |kind: KeyKind, i: usize| Key::pooled(kind, slot + i);
    let old = now - 1000 * DAY;
    let root_k = k(KeyKind::P256, 0);
    let mut rs = CertSpec::ca(&format!("c37 {topo} Root"), None);
    rs.not_before = old;
    let root = pki::issue(&rs, &root_k, None);
    let sub_ca = |cn: &str, key: &Arc<Key>| -> Cert {
        let mut s = CertSpec::ca(cn, Some(0));
        s.not_before = old;
        pki::issue(&s, key, Some((&root, &root_k)))
    };
    let (ca, chain_tail) = if topo == "3-level" {
        let ck = k(KeyKind::P256, 1);
        let c = sub_ca(&format!("c37 {topo} Issuing CA"), &ck);
        // x5chain = signer, issuing CA, root: three certificates, so that "the signer's issuer" (chain[1])
        // and "the last certificate of the chain" are different certificates
        let tail = vec![c.der.clone(), root.der.clone()];
        (Ent { cert: c, key: ck }, tail)
    } else {
        (Ent { cert: root.clone(), key: root_k.clone() }, vec![root.der.clone()])
    };
    let twin_k = k(KeyKind::P256, 19);
    let twin_cn = if topo == "3-level" { format!("c37 {topo} Issuing CA") } else { format!("c37 {topo} Root") };
    let twin_ca = Ent { cert: sub_ca(&twin_cn, &twin_k), key: twin_k };
    let ca2_k = k(KeyKind::P256, 2);
    let ca2 = Ent { cert: sub_ca(&format!("c37 {topo} Second CA"), &ca2_k), key: ca2_k };
    let other_k = k(KeyKind::P256, 3);
    let mut os = CertSpec::ca(&format!("c37 {topo} Unrelated Root"), None);
    os.not_before = old;
    let other_ca = Ent { cert: pki::issue(&os, &other_k, None), key: other_k };

    let window = (now - 60 * DAY, now + 300 * DAY);
    let issue_ee = |cn: &str, key: Arc<Key>, issuer: &Ent, edit: &dyn Fn(&mut CertSpec)| -> Ent {
        let mut s = CertSpec::ee(cn);
        s.not_before = window.0;
        s.not_after = window.1;
        edit(&mut s);
        Ent { cert: pki::issue(&s, &key, Some((&issuer.cert, &issuer.key))), key }
    };
    let responder = |s: &mut CertSpec| {
        s.set_ext(Ext::eku(&[oids::EKU_OCSP_SIGNING]));
        s.push_ext(Ext::OcspNoCheck);
    };
    let ee = issue_ee("c37 signer", k(KeyKind::Ed25519, 10), &ca, &|s| {
        s.push_ext(Ext::AiaOcsp("http://ocsp.invalid/".into()));
    });
    let sibling = issue_ee("c37 sibling signer", k(KeyKind::P256, 11), &ca, &|_| {});
    let delegate = issue_ee("c37 OCSP responder", k(KeyKind::P256, 12), &ca, &responder);
    let delegate_no_eku = issue_ee("c37 responder without OCSPSigning", k(KeyKind::P256, 13), &ca, &|s| {
        s.set_ext(Ext::eku(&[oids::EKU_SERVER_AUTH]));
    });
    let cross_delegate = issue_ee("c37 responder of the second CA", k(KeyKind::P256, 14), &ca2, &responder);
    let other_delegate = issue_ee("c37 responder of an unrelated root", k(KeyKind::P256, 15), &other_ca, &responder);
    let twin_delegate = issue_ee("c37 responder of the same-named CA", k(KeyKind::P256, 20), &twin_ca, &responder);
    let ss_k = k(KeyKind::P256, 16);
    let mut ss = CertSpec::ee("c37 self-signed responder");
    responder(&mut ss);
    ss.not_before = window.0;
    let self_signed_responder = Ent { cert: pki::issue(&ss, &ss_k, None), key: ss_k };
    let tsa_k = k(KeyKind::P256, 17);
    let mut ts = CertSpec::tsa("c37 TSA");
    ts.not_before = now - 400 * DAY;
    ts.not_after = now + 400 * DAY;
    let tsa = Ent { cert: pki::issue(&ts, &tsa_k, Some((&root, &root_k))), key: tsa_k };
    Pki {
        topo,
        now,
        root,
        ca,
        chain_tail,
        ee,
        sibling,
        delegate,
        delegate_no_eku,
        ca2,
        cross_delegate,
        other_ca,
        twin_ca,
        twin_delegate,
        other_delegate,
        self_signed_responder,
        wrong_key: k(KeyKind::P256, 18),
        tsa,
    }
}

// ------------------------------------------------------------------------------------------------
// Response classes
// ------------------------------------------------------------------------------------------------
#[derive(Clone, Copy, Debug, PartialEq, Eq, PartialOrd, Ord)]
enum Status {
    Good,
    Revoked,
    Unknown,
}
#[derive(Clone, Copy, Debug, PartialEq, Eq, PartialOrd, Ord)]
enum Binding {
    Right,
    OtherSerial,
    /// issuer hashes of the unrelated root, serial of the signer
    OtherCaSameSerial,
    /// issuer hashes of a CA with the same subject DN as the signer's issuer but another key (issuerNameHash
    /// equal, issuerKeyHash different), serial of the signer
    TwinCaSameSerial,
    /// two single responses: [sibling: `first`, signer: the case's status]
    MultiSignerSecond,
    /// two single responses: [signer: good, sibling: revoked]  (case status ignored → Good)
    MultiSiblingRevoked,
}
#[derive(Clone, Copy, Debug, PartialEq, Eq, PartialOrd, Ord)]
enum Responder {
    Ca,
    CaNoCerts,
    Delegate,
    DelegatePlusChain,
    DelegateByKey,
    SiblingEe,
    DelegateNoEku,
    CrossCaDelegate,
    OtherRootDelegate,
    SelfSigned,
    Corrupted,
    WrongKey,
    /// signed with the key of an unrelated self-made certificate, embedding [genuine delegate, that
    /// certificate]: the signature verifies only against the *second* embedded certificate
    ForgedSecondCert,
    /// delegate of the same-named CA (chains to the trusted root)
    TwinDelegate,
    /// produced by `openssl ocsp -index` (CA-signed / delegate)
    CliCa,
    CliDelegate,
}
#[derive(Clone, Copy, Debug, PartialEq, Eq, PartialOrd, Ord)]
enum Validity {
    Current,
    Expired,
    Future,
}
#[derive(Clone, Copy, Debug, PartialEq, Eq, PartialOrd, Ord)]
enum Carrier {
    Stapled,
    Assertion,
    Both,
    /// assertion with `ocspVals` as CBOR byte strings (the C2PA specification's shape) instead of the
    /// base64 text strings this SDK writes and reads
    AssertionBstr,
    /// `Signer::ocsp_val` on the SDK's own signing path
    SdkStapled,
}
#[derive(Clone, Copy, Debug, PartialEq, Eq, PartialOrd, Ord)]
enum Time {
    None,
    /// trusted time-stamp 5 days ago (after the revocation time, 10 days ago)
    TsaAfterRevocation,
    /// trusted time-stamp 20 days ago (before the revocation time)
    TsaBeforeRevocation,
}

#[derive(Clone, Copy, Debug, PartialEq, Eq, PartialOrd, Ord)]
struct Resp {
    status: Status,
    binding: Binding,
    responder: Responder,
    validity: Validity,
}

impl Resp {
    fn name(&self) -> String {
        format!("{:?}|{:?}|{:?}|{:?}", self.status, self.binding, self.responder, self.validity).to_lowercase()
    }
    fn authorised(&self) -> bool {
        use Responder::*;
        matches!(self.responder, Ca | CaNoCerts | Delegate | DelegatePlusChain | DelegateByKey | CliCa | CliDelegate)
    }
    fn sig_ok(&self) -> bool {
        !matches!(self.responder, Responder::Corrupted | Responder::WrongKey | Responder::ForgedSecondCert)
    }
    fn concerns_signer(&self) -> bool {
        matches!(self.binding, Binding::Right | Binding::MultiSignerSecond | Binding::MultiSiblingRevoked)
    }
    fn effective(&self) -> bool {
        self.concerns_signer() && self.authorised() && self.sig_ok()
    }
    /// status the response states for the *signer*
    fn signer_status(&self) -> Status {
        if self.binding == Binding::MultiSiblingRevoked {
            Status::Good
        } else {
            self.status
        }
    }
}

fn revocation_time(p: &Pki) -> i64 {
    p.now - 10 * DAY
}

fn make_response(p: &Pki, r: &Resp) -> Result<Vec<u8>, String> {
    use Responder::*;
    let st = |s: Status| match s {
        Status::Good => OcspStatus::Good,
        Status::Revoked => OcspStatus::Revoked(revocation_time(p), Some(4)),
        Status::Unknown => OcspStatus::Unknown,
    };
    if matches!(r.responder, CliCa | CliDelegate) {
        let idx = match r.status {
            Status::Unknown => String::new(),
            s => pki_tsa::index_line(&st(s), &p.ee.cert),
        };
        let (rs, rk) = if r.responder == CliCa { (&p.ca.cert, &p.ca.key) } else { (&p.delegate.cert, &p.delegate.key) };
        return pki_tsa::cli_ocsp_response(&idx, &p.ca.cert, &p.ee.cert, rs, rk, 7, false);
    }
    let (this_upd, next_upd) = match r.validity {
        Validity::Current => (p.now - HOUR, p.now + 7 * DAY),
        Validity::Expired => (p.now - 30 * DAY, p.now - 23 * DAY),
        Validity::Future => (p.now + 2 * DAY, p.now + 9 * DAY),
    };
    let id_signer = pki_tsa::cert_id(&p.ca.cert, &p.ca.key, &p.ee.cert.spec.serial);
    let id_sibling = pki_tsa::cert_id(&p.ca.cert, &p.ca.key, &p.sibling.cert.spec.serial);
    let id_other_ca = pki_tsa::cert_id(&p.other_ca.cert, &p.other_ca.key, &p.ee.cert.spec.serial);
    let id_twin_ca = pki_tsa::cert_id(&p.twin_ca.cert, &p.twin_ca.key, &p.ee.cert.spec.serial);
    let single = |id: &Vec<u8>, s: Status| (id.clone(), st(s), this_upd, Some(next_upd));
    let singles = match r.binding {
        Binding::Right => vec![single(&id_signer, r.status)],
        Binding::OtherSerial => vec![single(&id_sibling, r.status)],
        Binding::OtherCaSameSerial => vec![single(&id_other_ca, r.status)],
        Binding::TwinCaSameSerial => vec![single(&id_twin_ca, r.status)],
        Binding::MultiSignerSecond => vec![single(&id_sibling, Status::Good), single(&id_signer, r.status)],
        Binding::MultiSiblingRevoked => vec![single(&id_signer, Status::Good), single(&id_sibling, Status::Revoked)],
    };
    let (rc, rk, certs): (&Cert, &Key, Vec<Vec<u8>>) = match r.responder {
        Ca => (&p.ca.cert, &p.ca.key, vec![p.ca.cert.der.clone()]),
        CaNoCerts => (&p.ca.cert, &p.ca.key, vec![]),
        Delegate | DelegateByKey | Corrupted => (&p.delegate.cert, &p.delegate.key, vec![p.delegate.cert.der.clone()]),
        DelegatePlusChain => (&p.delegate.cert, &p.delegate.key, vec![p.delegate.cert.der.clone(), p.ca.cert.der.clone()]),
        WrongKey => (&p.delegate.cert, &p.wrong_key, vec![p.delegate.cert.der.clone()]),
        ForgedSecondCert => (&p.delegate.cert, &p.self_signed_responder.key, vec![p.delegate.cert.der.clone(), p.self_signed_responder.cert.der.clone()]),
        SiblingEe => (&p.sibling.cert, &p.sibling.key, vec![p.sibling.cert.der.clone()]),
        DelegateNoEku => (&p.delegate_no_eku.cert, &p.delegate_no_eku.key, vec![p.delegate_no_eku.cert.der.clone()]),
        CrossCaDelegate => (&p.cross_delegate.cert, &p.cross_delegate.key, vec![p.cross_delegate.cert.der.clone(), p.ca2.cert.der.clone()]),
        OtherRootDelegate => (&p.other_delegate.cert, &p.other_delegate.key, vec![p.other_delegate.cert.der.clone(), p.other_ca.cert.der.clone()]),
        TwinDelegate => (&p.twin_delegate.cert, &p.twin_delegate.key, vec![p.twin_delegate.cert.der.clone(), p.twin_ca.cert.der.clone()]),
        SelfSigned => (&p.self_signed_responder.cert, &p.self_signed_responder.key, vec![p.self_signed_responder.cert.der.clone()]),
        CliCa | CliDelegate => unreachable!(),
    };
    let mut der = pki_tsa::make_ocsp_response(&OcspSpec {
        singles,
        produced_at: this_upd,
        responder_cert: rc,
        responder_key: rk,
        certs,
        by_key: r.responder == DelegateByKey,
    });
    if r.responder == Corrupted {
        // the signature BIT STRING precedes the certs field: flip a byte of the tbsResponseData instead
        // (producedAt seconds digit), which equally invalidates the signature
        let needle = pki::der::generalized_time(this_upd);
        let pos = der.windows(needle.len()).position(|w| w == needle.as_slice()).ok_or("producedAt not found")?;
        let at = pos + needle.len() - 2;
        der[at] = if der[at] == b'9' { b'8' } else { der[at] + 1 };
    }
    Ok(der)
}

// ------------------------------------------------------------------------------------------------
// Signing / reading
// ------------------------------------------------------------------------------------------------
fn cbor(v: &Value) -> Vec<u8> {
    let mut out = Vec::new();
    coset::cbor::into_writer(v, &mut out).expect("cbor");
    out
}

/// message a sigTst2 token must cover: Sig_structure["CounterSignature", protected, h'', cbor(bstr(signature))]
fn tst2_message(ctx: &SignCtx) -> Vec<u8> {
    cbor(&Value::Array(vec![
        Value::Text("CounterSignature".into()),
        Value::Bytes(ctx.protected.to_vec()),
        Value::Bytes(Vec::new()),
        Value::Bytes(cbor(&Value::Bytes(ctx.signature.to_vec()))),
    ]))
}

#[derive(Serialize)]
struct CertStatusAssertion {
    #[serde(rename = "ocspVals")]
    ocsp_vals: Vec<serde_bytes::ByteBuf>,
}

#[derive(Serialize)]
struct CertStatusAssertionText {
    #[serde(rename = "ocspVals")]
    ocsp_vals: Vec<String>,
}

#[derive(Clone, Debug)]
struct Case {
    topo: usize,
    /// None = baseline (no OCSP anywhere)
    stapled: Option<Resp>,
    asserted: Option<Resp>,
    carrier: Carrier,
    time: Time,
}

fn sign_case(p: &Arc<Pki>, c: &Case, stapled: Option<Vec<u8>>, asserted: Option<Vec<u8>>, asset: &assets::Asset) -> Result<Vec<u8>, String> {
    let mut chain = vec![p.ee.cert.der.clone()];
    chain.extend(p.chain_tail.iter().cloned());
    let sdk_path = c.carrier == Carrier::SdkStapled;
    let settings = json!({
        "verify": {"verify_after_sign": sdk_path, "verify_trust": false, "verify_timestamp_trust": false, "ocsp_fetch": false},
        "builder": {"thumbnail": {"enabled": false}}
    });
    let ctx = Context::new().with_settings(settings.to_string().as_str()).map_err(|e| format!("{e:?}"))?;
    let mut b = c2pa::Builder::from_context(ctx)
        .with_definition(json!({"title": "verif", "assertions": [{"label": "org.verif.test", "data": {"k": 1}}]}))
        .map_err(|e| format!("{e:?}"))?;
    b.set_intent(c2pa::BuilderIntent::Edit);
    if let Some(a) = asserted {
        // the SDK's CBOR codec is "human readable" for serde, so its CertificateStatus type writes and expects
        // base64 text strings; the specification's shape (byte strings) is a directed carrier of its own
        if c.carrier == Carrier::AssertionBstr {
            b.add_assertion("c2pa.certificate-status", &CertStatusAssertion { ocsp_vals: vec![serde_bytes::ByteBuf::from(a)] })
        } else {
            b.add_assertion("c2pa.certificate-status", &CertStatusAssertionText { ocsp_vals: vec![b64(&a)] })
        }
        .map_err(|e| format!("add_assertion: {e:?}"))?;
    }
    let mut src = std::io::Cursor::new(asset.bytes.clone());
    let mut dst = std::io::Cursor::new(Vec::new());
    if sdk_path {
        struct OcspSigner {
            inner: c2pa::BoxedSigner,
            ocsp: Option<Vec<u8>>,
        }
        impl Signer for OcspSigner {
            fn sign(&self, d: &[u8]) -> c2pa::Result<Vec<u8>> {
                self.inner.sign(d)
            }
            fn alg(&self) -> SigningAlg {
                self.inner.alg()
            }
            fn certs(&self) -> c2pa::Result<Vec<Vec<u8>>> {
                self.inner.certs()
            }
            fn reserve_size(&self) -> usize {
                self.inner.reserve_size() + 8_000
            }
            fn ocsp_val(&self) -> Option<Vec<u8>> {
                self.ocsp.clone()
            }
        }
        let inner = c2pa::create_signer::from_keys(pki::pem_bundle(&chain).as_bytes(), &p.ee.key.private_pem(), SigningAlg::Ed25519, None)
            .map_err(|e| format!("create_signer:{}", report::err_kind(&e)))?;
        let s = OcspSigner { inner, ocsp: stapled };
        b.sign(&s, asset.format, &mut src, &mut dst).map_err(|e| format!("sdk-sign:{}", report::err_kind(&e)))?;
        return Ok(dst.into_inner());
    }
    let p2 = p.clone();
    let time = c.time;
    let err: Arc<Mutex<Option<String>>> = Arc::new(Mutex::new(None));
    let f = move |ctx: &SignCtx| -> Vec<(String, Value)> {
        let mut out = Vec::new();
        if let Some(o) = &stapled {
            out.push(("rVals".to_string(), Value::Map(vec![(Value::Text("ocspVals".into()), Value::Array(vec![Value::Bytes(o.clone())]))])));
        }
        let gen = match time {
            Time::None => None,
            Time::TsaAfterRevocation => Some(p2.now - 5 * DAY),
            Time::TsaBeforeRevocation => Some(p2.now - 20 * DAY),
        };
        if let Some(g) = gen {
            let tk = pki_tsa::make_token(&TokenSpec {
                imprint_md: Md::Sha256,
                imprint: pki_tsa::digest(Md::Sha256, &tst2_message(ctx)),
                gen_time: g,
                signing_time_attr: None,
                omit_signing_time: false,
                tsa_cert: &p2.tsa.cert,
                tsa_key: &p2.tsa.key,
                certs: vec![p2.tsa.cert.der.clone(), p2.root.der.clone()],
                accuracy_secs: Some(1),
                nonce: None,
            });
            out.push((
                "sigTst2".to_string(),
                Value::Map(vec![(
                    Value::Text("tstTokens".into()),
                    Value::Array(vec![Value::Map(vec![(Value::Text("val".into()), Value::Bytes(tk.token))])]),
                )]),
            ));
        }
        out
    };
    let signer = DirectCoseSigner::new(p.ee.key.clone(), chain).with_unprotected(Arc::new(f), 16_000);
    b.sign(&signer, asset.format, &mut src, &mut dst).map_err(|e| format!("{e:?}"))?;
    if let Some(e) = err.lock().unwrap().take() {
        return Err(e);
    }
    Ok(dst.into_inner())
}

#[derive(Clone, Debug, PartialEq)]
struct ReadObs {
    mode: &'static str,
    state: String,
    error: Option<String>,
    failures: Vec<String>,
    /// (kind, code) with prefix signingCredential. / timeStamp.
    cred_codes: Vec<(String, String)>,
}

const MODES: [&str; 3] = ["trust", "no-trust+anchors", "no-trust"];

fn read_all(p: &Pki, format: &str, signed: &[u8]) -> Vec<ReadObs> {
    let mut out = Vec::new();
    for mode in MODES {
        let settings = match mode {
            "trust" => json!({"verify": {"verify_trust": true, "verify_timestamp_trust": true, "ocsp_fetch": false}, "trust": {"trust_anchors": p.root.pem()}}),
            "no-trust+anchors" => json!({"verify": {"verify_trust": false, "verify_timestamp_trust": false, "ocsp_fetch": false}, "trust": {"trust_anchors": p.root.pem()}}),
            _ => json!({"verify": {"verify_trust": false, "verify_timestamp_trust": false, "ocsp_fetch": false}}),
        };
        let ctx = Context::new().with_settings(settings.to_string().as_str()).expect("settings");
        let o = report::read_bytes_catch(ctx, format, signed);
        let mut failures = o.failure_codes();
        failures.sort();
        failures.dedup();
        let cred_codes: Vec<(String, String)> = o
            .codes
            .iter()
            .filter(|c| c.0 == "active" && (c.2.starts_with("signingCredential.") || c.2.starts_with("timeStamp.")))
            .map(|c| (c.1.clone(), c.2.clone()))
            .collect();
        out.push(ReadObs { mode, state: o.state.clone(), error: o.error.clone(), failures, cred_codes });
    }
    out
}

struct Obs {
    case: Case,
    sign_err: Option<String>,
    reads: Vec<ReadObs>,
    stapled_b64: String,
    asserted_b64: String,
    cli: Vec<(String, Result<pki_tsa::OcspVerdict, String>, Resp)>,
}

fn b64(b: &[u8]) -> String {
    use base64::Engine;
    base64::engine::general_purpose::STANDARD.encode(b)
}

fn run_case(p: &Arc<Pki>, c: &Case, asset: &assets::Asset, cli_check: bool) -> Obs {
    let mut obs = Obs { case: c.clone(), sign_err: None, reads: vec![], stapled_b64: String::new(), asserted_b64: String::new(), cli: vec![] };
    let mk = |r: &Option<Resp>| -> Result<Option<Vec<u8>>, String> {
        match r {
            None => Ok(None),
            Some(r) => make_response(p, r).map(Some),
        }
    };
    let (st, asr) = match (mk(&c.stapled), mk(&c.asserted)) {
        (Ok(a), Ok(b)) => (a, b),
        (Err(e), _) | (_, Err(e)) => {
            obs.sign_err = Some(format!("responder:{e}"));
            return obs;
        }
    };
    if let Some(s) = &st {
        obs.stapled_b64 = b64(s);
    }
    if let Some(s) = &asr {
        obs.asserted_b64 = b64(s);
    }
    if cli_check {
        for (which, der, r) in [("stapled", &st, &c.stapled), ("asserted", &asr, &c.asserted)] {
            if let (Some(d), Some(r)) = (der, r) {
                let anchors = vec![p.root.der.clone(), p.ca.cert.der.clone(), p.ca2.cert.der.clone()];
                let v = pki_tsa::cli_ocsp_verify(d, &p.ca.cert, &p.ee.cert, &anchors, None);
                obs.cli.push((which.to_string(), v, *r));
            }
        }
    }
    match report::catch_sdk(|| sign_case(p, c, st, asr, asset)) {
        Ok(Ok(signed)) => obs.reads = read_all(p, asset.format, &signed),
        Ok(Err(e)) => obs.sign_err = Some(e),
        Err(pn) => obs.sign_err = Some(format!("panic:{pn}")),
    }
    obs
}

fn parts_kind(c: &Case) -> String {
    c.stapled.iter().chain(c.asserted.iter()).map(|r| format!("{:?}", r.responder)).collect::<Vec<_>>().join("+")
}

fn main() {
    let mut run = Run::from_args("C37", "exploration");
    report::quiet_panics();
    run.rule = "one case = OCSP response class (status x binding x responder x thisUpdate/nextUpdate window; own encoder or openssl ocsp -index) \
                x carrier (rVals stapled via direct COSE, c2pa.certificate-status assertion, both, Signer::ocsp_val on the SDK path) \
                x signing time (none, trusted time-stamp after / before the revocation time) x PKI topology (2-level, 3-level), \
                read with trust on, trust off + anchors, trust off without anchors, always compared with the same configuration signed without OCSP. \
                Non-trivial = signed, read produced a state, and the baseline exists; classes = topology|response|carrier|time|mode|state|credential codes"
        .into();
    run.assumptions = vec![
        "ground truth is the generator's label (which certId, which key and certificate signed, which window); one response per class is cross-checked with `openssl ocsp -respin -issuer -cert -CAfile`".into(),
        "authorised responder = the issuing CA itself or a certificate issued by that CA with EKU id-kp-OCSPSigning (RFC 6960 4.2.2.2); a responder under another CA of the same root is not authorised".into(),
        "verdict = (validation state, set of failure codes of the active manifest); informational/success codes are recorded in the classes but not compared".into(),
        "not judged: revoked responses outside thisUpdate..nextUpdate, revoked with a trusted signing time before the revocation time, status unknown from an authorised responder, effective good responses (only recorded), and the mode without any trust anchor for the 'revoked => not Valid' rule (no responder can be authenticated there)".into(),
    ];
    match pki::openssl_cli_version() {
        Ok(v) => run.set("openssl_cli", json!(v)),
        Err(e) => {
            run.inconclusive(format!("openssl cli unavailable: {e}"));
            run.finish(1);
        }
    }
    let debug = std::env::var("C37_DEBUG").is_ok();
    let pkis = [Arc::new(build_pki("3-level", 3700)), Arc::new(build_pki("2-level", 3750))];
    let asset = assets::tiny_assets().into_iter().find(|a| a.format == "png").expect("tiny png");
    let all_assets = assets::tiny_assets();
    let thorough = !run.quick();

    // ---- response classes --------------------------------------------------------------------
    use Binding as B;
    use Responder as R;
    use Validity as V;
    let shapes: Vec<(B, R, V)> = vec![
        (B::Right, R::Ca, V::Current),
        (B::Right, R::CaNoCerts, V::Current),
        (B::Right, R::Delegate, V::Current),
        (B::Right, R::DelegatePlusChain, V::Current),
        (B::Right, R::DelegateByKey, V::Current),
        (B::Right, R::Delegate, V::Expired),
        (B::Right, R::Delegate, V::Future),
        (B::Right, R::Ca, V::Expired),
        (B::OtherSerial, R::Delegate, V::Current),
        (B::OtherSerial, R::Ca, V::Current),
        (B::OtherCaSameSerial, R::OtherRootDelegate, V::Current),
        (B::OtherCaSameSerial, R::Delegate, V::Current),
        (B::TwinCaSameSerial, R::TwinDelegate, V::Current),
        (B::Right, R::SiblingEe, V::Current),
        (B::Right, R::DelegateNoEku, V::Current),
        (B::Right, R::CrossCaDelegate, V::Current),
        (B::Right, R::OtherRootDelegate, V::Current),
        (B::Right, R::SelfSigned, V::Current),
        (B::Right, R::Corrupted, V::Current),
        (B::Right, R::WrongKey, V::Current),
        (B::Right, R::ForgedSecondCert, V::Current),
        (B::MultiSignerSecond, R::Delegate, V::Current),
        (B::MultiSignerSecond, R::SiblingEe, V::Current),
        (B::Right, R::CliCa, V::Current),
        (B::Right, R::CliDelegate, V::Current),
    ];
    let mut cases: Vec<Case> = Vec::new();
    for topo in 0..pkis.len() {
        for time in [Time::None, Time::TsaAfterRevocation, Time::TsaBeforeRevocation] {
            // baselines
            cases.push(Case { topo, stapled: None, asserted: None, carrier: Carrier::Stapled, time });
            for carrier in [Carrier::Stapled, Carrier::Assertion] {
                if time == Time::TsaBeforeRevocation && carrier == Carrier::Assertion && !thorough {
                    continue;
                }
                for status in [Status::Good, Status::Revoked, Status::Unknown] {
                    for (binding, responder, validity) in &shapes {
                        let r = Resp { status, binding: *binding, responder: *responder, validity: *validity };
                        let (s, a) = if carrier == Carrier::Stapled { (Some(r), None) } else { (None, Some(r)) };
                        cases.push(Case { topo, stapled: s, asserted: a, carrier, time });
                    }
                }
                let r = Resp { status: Status::Good, binding: B::MultiSiblingRevoked, responder: R::Delegate, validity: V::Current };
                let (s, a) = if carrier == Carrier::Stapled { (Some(r), None) } else { (None, Some(r)) };
                cases.push(Case { topo, stapled: s, asserted: a, carrier, time });
            }
        }
        // both carriers
        let d = |status| Resp { status, binding: B::Right, responder: R::Delegate, validity: V::Current };
        let bad = |status| Resp { status, binding: B::Right, responder: R::OtherRootDelegate, validity: V::Current };
        for (s, a) in [
            (d(Status::Good), d(Status::Revoked)),
            (d(Status::Revoked), d(Status::Good)),
            (d(Status::Revoked), d(Status::Revoked)),
            (d(Status::Good), d(Status::Good)),
            (bad(Status::Revoked), d(Status::Good)),
            (d(Status::Good), bad(Status::Revoked)),
            (bad(Status::Revoked), bad(Status::Revoked)),
        ] {
            cases.push(Case { topo, stapled: Some(s), asserted: Some(a), carrier: Carrier::Both, time: Time::None });
        }
        for (status, binding) in [(Status::Good, B::Right), (Status::Good, B::OtherSerial), (Status::Revoked, B::Right)] {
            let r = Resp { status, binding, responder: R::Delegate, validity: V::Current };
            cases.push(Case { topo, stapled: None, asserted: Some(r), carrier: Carrier::AssertionBstr, time: Time::None });
        }
        // the SDK's own signing path with Signer::ocsp_val
        cases.push(Case { topo, stapled: None, asserted: None, carrier: Carrier::SdkStapled, time: Time::None });
        for status in [Status::Good, Status::Revoked, Status::Unknown] {
            for (binding, responder) in [(B::Right, R::Delegate), (B::Right, R::Ca), (B::OtherSerial, R::Delegate), (B::Right, R::OtherRootDelegate), (B::Right, R::Corrupted)] {
                let r = Resp { status, binding, responder, validity: V::Current };
                cases.push(Case { topo, stapled: Some(r), asserted: None, carrier: Carrier::SdkStapled, time: Time::None });
            }
        }
    }
    run.set("cases", json!(cases.len()));

    let results = par::par_map(cases.len(), |i| {
        let c = &cases[i];
        let a = if thorough { &all_assets[i % all_assets.len()] } else { &asset };
        // cross-check each response class once: first topology time none stapled / assertion
        let cli_check = c.time == Time::None && matches!(c.carrier, Carrier::Stapled | Carrier::Both);
        run_case(&pkis[c.topo], c, a, cli_check)
    });

    // ---- baselines ------------------------------------------------------------------------------
    // key: (topo, time, sdk path?, asset format is constant per tier → in thorough the baseline is re-read per format)
    let mut baseline: BTreeMap<(usize, Time, bool, &'static str), (String, Vec<String>)> = BTreeMap::new();
    for o in &results {
        if o.case.stapled.is_none() && o.case.asserted.is_none() && o.sign_err.is_none() {
            for r in &o.reads {
                baseline.insert((o.case.topo, o.case.time, o.case.carrier == Carrier::SdkStapled, r.mode), (r.state.clone(), r.failures.clone()));
            }
        }
    }
    for ((topo, time, sdk, mode), (state, fails)) in &baseline {
        if debug {
            println!("baseline topo={topo} {time:?} sdk={sdk} {mode}: {state} {fails:?}");
        }
        let want = if *mode == "trust" { "Trusted" } else { "Valid" };
        if state != want {
            run.inconclusive(format!("baseline ({} {time:?} sdk={sdk} {mode}) is {state} {fails:?}, expected {want}: harness problem", pkis[*topo].topo));
        }
    }

    let mut cli_disagree = 0u64;
    for o in &results {
        run.eval();
        let c = &o.case;
        let p = &pkis[c.topo];
        let is_baseline = c.stapled.is_none() && c.asserted.is_none();
        let name = match (&c.stapled, &c.asserted) {
            (Some(s), Some(a)) => format!("stapled[{}]+asserted[{}]", s.name(), a.name()),
            (Some(s), None) => s.name(),
            (None, Some(a)) => a.name(),
            (None, None) => "no-ocsp".into(),
        };
        if let Some(e) = &o.sign_err {
            if e.starts_with("panic:") {
                run.violation(&format!("{name}|{:?}|panic-while-signing", c.carrier).to_lowercase(), "SDK panicked while signing", json!({"case": format!("{c:?}"), "error": e}));
            } else if c.carrier == Carrier::SdkStapled {
                // the signing path refusing (e.g. a revoked response at verify-after-sign) is recorded, not judged
                run.count(&format!("sdk_sign_refused:{}", e.split(['(', ' ']).next().unwrap_or("")), 1);
                run.nontrivial(format!("{}|{name}|sdk-stapled|sign-refused:{}", p.topo, e.split(['(', ' ']).next().unwrap_or("")));
            } else {
                run.inconclusive(format!("{} {name} {:?} {:?}: could not produce the case: {e}", p.topo, c.carrier, c.time));
            }
            continue;
        }
        // generator vs openssl ocsp
        for (which, v, r) in &o.cli {
            match v {
                Err(e) => run.inconclusive(format!("openssl ocsp could not run: {e}")),
                Ok(v) => {
                    run.count("openssl_ocsp_verify_runs", 1);
                    let exp_auth = r.authorised() && r.sig_ok();
                    let exp_status = if r.concerns_signer() { format!("{:?}", r.signer_status()).to_lowercase() } else { String::new() };
                    let exp_times = r.validity == Validity::Current;
                    let status_seen = if v.signature_and_responder_ok { v.status.clone() } else { exp_status.clone() };
                    // openssl judges the responder against the issuer named in the certId; for a certId of another CA
                    // that is a different question from "may this responder speak for the signer's CA"
                    let auth_comparable = !matches!(r.binding, Binding::OtherCaSameSerial | Binding::TwinCaSameSerial);
                    if (auth_comparable && v.signature_and_responder_ok != exp_auth) || status_seen != exp_status || (v.signature_and_responder_ok && !exp_status.is_empty() && v.times_ok != exp_times) {
                        cli_disagree += 1;
                        run.inconclusive(format!(
                            "generator and `openssl ocsp` disagree on {} {which} {}: generator (authorised+signed={exp_auth}, status='{exp_status}', times_ok={exp_times}) openssl (verify_ok={}, status='{}', times_ok={}) :: {}",
                            p.topo,
                            r.name(),
                            v.signature_and_responder_ok,
                            v.status,
                            v.times_ok,
                            v.text.lines().take(4).collect::<Vec<_>>().join(" / ")
                        ));
                    } else {
                        run.count(if v.signature_and_responder_ok { "openssl_ocsp_accepts_responder" } else { "openssl_ocsp_rejects_responder" }, 1);
                    }
                }
            }
        }
        if is_baseline {
            for r in &o.reads {
                run.nontrivial(format!("{}|no-ocsp|{:?}|{:?}|{}|{}", p.topo, c.carrier, c.time, r.mode, r.state).to_lowercase());
            }
            continue;
        }
        for r in &o.reads {
            let Some((b_state, b_fail)) = baseline.get(&(c.topo, c.time, c.carrier == Carrier::SdkStapled, r.mode)) else {
                run.inconclusive(format!("no baseline for {} {:?} {}", p.topo, c.time, r.mode));
                continue;
            };
            let accepted = r.state == "Valid" || r.state == "Trusted";
            let mut codes: Vec<String> = r
                .cred_codes
                .iter()
                .filter(|c| c.1.starts_with("signingCredential.") && c.1 != "signingCredential.trusted")
                .map(|c| format!("{}:{}", &c.0[..1], c.1.trim_start_matches("signingCredential.")))
                .collect();
            codes.sort();
            codes.dedup();
            let state_s = match &r.error {
                Some(e) if r.state == "Err" => format!("Err:{e}"),
                _ => r.state.clone(),
            };
            let class = format!("{}|{name}|{:?}|{:?}|{}|{}|[{}]", p.topo, c.carrier, c.time, r.mode, state_s, codes.join(",")).to_lowercase();
            let witness = json!({
                "topology": p.topo, "stapled": c.stapled.map(|r| r.name()), "asserted": c.asserted.map(|r| r.name()),
                "carrier": format!("{:?}", c.carrier), "signing_time": format!("{:?}", c.time), "read_mode": r.mode,
                "observed": {"state": r.state, "error": r.error, "failure_codes": r.failures, "credential_codes": r.cred_codes},
                "baseline_without_ocsp": {"state": b_state, "failure_codes": b_fail},
                "stapled_response_der_b64": o.stapled_b64, "asserted_response_der_b64": o.asserted_b64,
                "signer_cert_pem": p.ee.cert.pem(), "issuer_cert_pem": p.ca.cert.pem(), "root_pem": p.root.pem(),
                "revocation_time": revocation_time(p), "now": p.now,
                "replay": "staple the response under rVals.ocspVals (or put it into a c2pa.certificate-status assertion {ocspVals:[bstr]}) of a manifest signed with signer_cert_pem's key; x5chain = signer + issuer; verify.ocsp_fetch=false",
            });
            if debug {
                println!("{:8} {:70} {:10?} {:20?} {:17} {:8} {:?} fail={:?}", p.topo, name, c.carrier, c.time, r.mode, state_s, codes, r.failures);
            }
            if r.state == "Panic" {
                run.violation(&format!("{name}|{:?}|panic-while-validating", c.carrier).to_lowercase(), "SDK panicked while validating", witness);
                continue;
            }
            run.nontrivial(class);
            run.sample(&format!("{:?}|{:?}", parts_kind(c), c.carrier), 1, witness.clone());

            // ---- what the statement demands for this case -------------------------------------
            let parts: Vec<&Resp> = c.stapled.iter().chain(c.asserted.iter()).collect();
            let time_allows = c.time != Time::TsaBeforeRevocation;
            let revoked_effective = parts.iter().any(|x| x.effective() && x.signer_status() == Status::Revoked && x.validity == Validity::Current);
            // every response is one the statement says must not matter
            // (a response for the signer, validly signed by an authorised responder, but outside its
            // thisUpdate..nextUpdate window is neither "not concerning the signing certificate" nor "not validly
            // signed": the statement does not say it must be inert, so it is generated but not judged)
            let all_inert = parts.iter().all(|x| !x.effective());
            // cause classes for signatures: carrier (stapled / assertion / assertion-bstr / both), responder family,
            // binding family; topology, signing-time variant and read mode are not part of a signature
            let carrier = match c.carrier {
                Carrier::Stapled | Carrier::SdkStapled => "stapled",
                Carrier::Assertion => "assertion",
                Carrier::AssertionBstr => "assertion-bstr-encoded",
                Carrier::Both => "both",
            };
            let resp_family = |x: &Resp| -> String {
                let base = match x.responder {
                    Responder::Ca | Responder::CaNoCerts | Responder::CliCa => "ca-signed".to_string(),
                    Responder::Delegate | Responder::DelegatePlusChain | Responder::DelegateByKey | Responder::CliDelegate => "delegate".to_string(),
                    other => format!("{other:?}").to_lowercase(),
                };
                if x.validity != Validity::Current { format!("{base}-{:?}", x.validity).to_lowercase() } else { base }
            };
            let bind_family = |x: &Resp| match x.binding {
                Binding::Right | Binding::MultiSignerSecond => "right",
                Binding::MultiSiblingRevoked => "right+sibling-revoked",
                Binding::OtherSerial => "other-serial",
                Binding::OtherCaSameSerial => "other-ca",
                Binding::TwinCaSameSerial => "same-named-ca",
            };
            // why the generator says a response must not matter (cause class of a differential alarm)
            let inert_reason = |x: &Resp| -> &'static str {
                if !x.concerns_signer() {
                    "not-for-signer"
                } else if !x.sig_ok() {
                    "bad-signature"
                } else {
                    match x.responder {
                        Responder::SiblingEe => "responder-is-sibling-ee-without-ocsp-eku",
                        Responder::CrossCaDelegate => "responder-of-another-ca-under-the-same-root",
                        Responder::DelegateNoEku | Responder::OtherRootDelegate | Responder::SelfSigned => "unauthorised-responder",
                        _ if x.validity != Validity::Current => "outside-thisupdate-nextupdate",
                        _ => "effective",
                    }
                }
            };
            let lead = parts[0];
            let inert_head = if parts.len() == 2 {
                format!("stapled-{:?}-{}+asserted-{:?}-{}", parts[0].status, inert_reason(parts[0]), parts[1].status, inert_reason(parts[1])).to_lowercase()
            } else {
                format!("{:?}|{}|{}", lead.status, bind_family(lead), inert_reason(lead)).to_lowercase()
            };
            let sig_head = if parts.len() == 2 {
                format!("stapled-{:?}-{}+asserted-{:?}-{}", parts[0].status, resp_family(parts[0]), parts[1].status, resp_family(parts[1])).to_lowercase()
            } else {
                format!("{:?}|{}|{}", lead.status, bind_family(lead), resp_family(lead)).to_lowercase()
            };
            if all_inert && r.cred_codes.iter().any(|c| c.1.ends_with("notRevoked")) {
                run.count("inert-response-reported-as-notRevoked", 1);
            }
            if revoked_effective && time_allows {
                if r.mode == "no-trust" {
                    run.count(&format!("unjudged:revoked-effective:no-anchors:{}", if accepted { "accepted" } else { "rejected" }), 1);
                } else if accepted {
                    run.violation(
                        &format!("{sig_head}|{carrier}|revoked-but-accepted"),
                        &format!("a correctly signed response from an authorised responder states the signing certificate revoked, manifest read as {} ({}, {:?})", r.state, r.mode, c.time),
                        witness.clone(),
                    );
                } else if r.state != "Err" && !r.cred_codes.iter().any(|c| c.1.contains("revoked") && c.1 != "signingCredential.ocsp.notRevoked" && c.1 != "signingCredential.notRevoked") {
                    run.violation(
                        &format!("{sig_head}|{carrier}|rejected-without-revoked-code"),
                        &format!("revoked certificate rejected ({}) but no signingCredential.*revoked code reported: {:?}", r.state, r.cred_codes),
                        witness.clone(),
                    );
                }
            } else if all_inert {
                if (&r.state, &r.failures) != (b_state, b_fail) {
                    run.violation(
                        &format!("{inert_head}|{carrier}|verdict-changed-by-inert-response"),
                        &format!(
                            "a response that must not matter ({name}) changed the verdict from {b_state} {b_fail:?} to {} {:?} ({}, {:?})",
                            r.state, r.failures, r.mode, c.time
                        ),
                        witness.clone(),
                    );
                }
            } else {
                run.count(
                    &format!(
                        "unjudged:{}:{}",
                        if revoked_effective { "revoked-before-proven-signing-time" } else { "effective-good-or-unknown-or-stale-revoked" },
                        if (&r.state, &r.failures) == (b_state, b_fail) { "same-as-baseline" } else { "differs-from-baseline" }
                    ),
                    1,
                );
            }
        }
    }
    run.set("generator_vs_openssl_disagreements", json!(cli_disagree));
    let min = if run.quick() { 400 } else { 800 };
    run.finish(min);
}
