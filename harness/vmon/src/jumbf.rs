//! Independent JUMBF (ISO 19566-5) superbox walker — shares no code with the SDK's parser.
//!
//! A JUMBF box: u32 BE size (1 => u64 largesize follows, 0 => to end), 4-byte type.
//! Superbox type `jumb` contains a description box `jumd` (16-byte UUID type, 1 toggle byte,
//! optional NUL-terminated label, optional id/hash/private fields) followed by content boxes.

#[derive(Clone, Debug)]
pub struct JBox {
    pub start: usize,
    pub header_len: usize,
    pub len: usize,
    pub typ: [u8; 4],
    pub label: Option<String>,
    pub uuid: Option<[u8; 16]>,
    pub toggles: Option<u8>,
    pub children: Vec<JBox>,
    /// slash-joined labels from the root ("c2pa/urn:c2pa:.../c2pa.assertions/c2pa.hash.data")
    pub path: String,
}

impl JBox {
    pub fn end(&self) -> usize {
        self.start + self.len
    }
    pub fn payload_start(&self) -> usize {
        self.start + self.header_len
    }
    pub fn typ_str(&self) -> String {
        String::from_utf8_lossy(&self.typ).to_string()
    }
    pub fn walk<'a>(&'a self, out: &mut Vec<&'a JBox>) {
        out.push(self);
        for c in &self.children {
            c.walk(out);
        }
    }
    pub fn find(&self, path_suffix: &str) -> Option<&JBox> {
        let mut all = Vec::new();
        self.walk(&mut all);
        all.into_iter().find(|b| b.typ == *b"jumb" && b.path.ends_with(path_suffix))
    }
}

fn be32(b: &[u8], o: usize) -> Option<u32> {
    b.get(o..o + 4).map(|s| u32::from_be_bytes([s[0], s[1], s[2], s[3]]))
}
fn be64(b: &[u8], o: usize) -> Option<u64> {
    b.get(o..o + 8).map(|s| u64::from_be_bytes([s[0], s[1], s[2], s[3], s[4], s[5], s[6], s[7]]))
}

/// Parses the boxes in data[start..end]; `depth` guards recursion.
pub fn parse_boxes(data: &[u8], start: usize, end: usize, parent_path: &str, depth: usize) -> Option<Vec<JBox>> {
    if depth > 64 {
        return None;
    }
    let mut out = Vec::new();
    let mut o = start;
    while o < end {
        let size32 = be32(data, o)? as u64;
        let typ: [u8; 4] = data.get(o + 4..o + 8)?.try_into().ok()?;
        let (hdr, len) = if size32 == 1 {
            (16usize, be64(data, o + 8)? as usize)
        } else if size32 == 0 {
            (8usize, end - o)
        } else {
            (8usize, size32 as usize)
        };
        if len < hdr || o.checked_add(len)? > end {
            return None;
        }
        let mut b = JBox {
            start: o,
            header_len: hdr,
            len,
            typ,
            label: None,
            uuid: None,
            toggles: None,
            children: Vec::new(),
            path: parent_path.to_string(),
        };
        if &typ == b"jumb" {
            // first child must be jumd
            let kids = parse_boxes(data, o + hdr, o + len, "", depth + 1)?;
            let mut label = None;
            let mut uuid = None;
            let mut toggles = None;
            if let Some(d) = kids.first() {
                if &d.typ == b"jumd" {
                    let p = d.payload_start();
                    let pe = d.end();
                    if pe >= p + 17 {
                        let mut u = [0u8; 16];
                        u.copy_from_slice(&data[p..p + 16]);
                        uuid = Some(u);
                        let t = data[p + 16];
                        toggles = Some(t);
                        if t & 0x02 != 0 {
                            let rest = &data[p + 17..pe];
                            if let Some(n) = rest.iter().position(|c| *c == 0) {
                                label = Some(String::from_utf8_lossy(&rest[..n]).to_string());
                            }
                        }
                    }
                }
            }
            let path = match (&label, parent_path.is_empty()) {
                (Some(l), true) => l.clone(),
                (Some(l), false) => format!("{parent_path}/{l}"),
                (None, _) => format!("{parent_path}/?"),
            };
            b.label = label;
            b.uuid = uuid;
            b.toggles = toggles;
            b.path = path.clone();
            b.children = parse_boxes(data, o + hdr, o + len, &path, depth + 1)?;
        }
        out.push(b);
        o += len;
    }
    Some(out)
}

/// Parses a whole manifest store (a single `jumb` superbox labelled "c2pa").
pub fn parse_store(data: &[u8]) -> Option<JBox> {
    let v = parse_boxes(data, 0, data.len(), "", 0)?;
    if v.len() == 1 && &v[0].typ == b"jumb" {
        v.into_iter().next()
    } else {
        None
    }
}

/// Returns the manifest superboxes (children of the store superbox).
pub fn manifests(store: &JBox) -> Vec<&JBox> {
    store.children.iter().filter(|c| &c.typ == b"jumb").collect()
}

/// Finds the payload (content box bytes range) of the first non-jumd child of the superbox at `path_suffix`.
pub fn content_range(store: &JBox, path_suffix: &str) -> Option<(usize, usize)> {
    let b = store.find(path_suffix)?;
    let c = b.children.iter().find(|c| &c.typ != b"jumd")?;
    Some((c.payload_start(), c.end()))
}

/// Builds a box with 32-bit size.
pub fn make_box(typ: &[u8; 4], payload: &[u8]) -> Vec<u8> {
    let mut v = Vec::with_capacity(payload.len() + 8);
    v.extend_from_slice(&((payload.len() + 8) as u32).to_be_bytes());
    v.extend_from_slice(typ);
    v.extend_from_slice(payload);
    v
}

/// A minimal, well-formed JUMBF superbox labelled `c2pa` holding `n_extra` opaque bytes — used as a
/// store-shaped payload for the embedding round-trip monitors (some writers parse the store header).
pub fn dummy_store(total_len: usize, fill: &mut dyn FnMut(usize) -> Vec<u8>) -> Option<Vec<u8>> {
    // jumb( jumd(uuid c2pa, toggles 3, "c2pa\0") , free(payload) )
    let mut jumd_payload = Vec::new();
    jumd_payload.extend_from_slice(&[
        0x63, 0x32, 0x70, 0x61, 0x00, 0x11, 0x00, 0x10, 0x80, 0x00, 0x00, 0xAA, 0x00, 0x38, 0x9B, 0x71,
    ]);
    jumd_payload.push(0x03);
    jumd_payload.extend_from_slice(b"c2pa\0");
    let jumd = make_box(b"jumd", &jumd_payload);
    let overhead = 8 + jumd.len() + 8;
    if total_len < overhead {
        return None;
    }
    let filler = fill(total_len - overhead);
    let inner = make_box(b"free", &filler);
    let mut payload = jumd;
    payload.extend_from_slice(&inner);
    Some(make_box(b"jumb", &payload))
}

/// Returns a copy of `store` in which every *compressed manifest* (a manifest superbox whose only
/// content box is `brob` = the brotli stream of the complete uncompressed manifest superbox, as the
/// SDK writes it) is replaced by the decompressed manifest superbox, so that the walker can look
/// inside.  Independent of the SDK (uses the `brotli` crate directly).  None if nothing is
/// compressed or decompression fails.
pub fn expand_brob(store: &[u8], max_out: usize) -> Option<Vec<u8>> {
    use std::io::Read;
    let root = parse_store(store)?;
    let is_compressed = |m: &JBox| &m.typ == b"jumb" && m.children.iter().any(|c| &c.typ == b"brob");
    if !root.children.iter().any(is_compressed) {
        return None;
    }
    let mut payload = Vec::new();
    for c in &root.children {
        if is_compressed(c) {
            let b = c.children.iter().find(|x| &x.typ == b"brob")?;
            let p = &store[b.payload_start()..b.end()];
            let mut out = Vec::new();
            let mut d = brotli::Decompressor::new(p, 4096).take(max_out as u64);
            d.read_to_end(&mut out).ok()?;
            payload.extend_from_slice(&out);
        } else {
            payload.extend_from_slice(&store[c.start..c.end()]);
        }
    }
    Some(make_box(b"jumb", &payload))
}
