//! C03 — signing round trip: signed output validates and reports what was signed.
//!
//! Oracle (from the statement): for a generated well-formed definition D, asset A, signing alg S,
//! hash alg H, claim version V, settings (compressed, embedded/sidecar/remote+embedded, thumbnails):
//!   1. `Builder::sign` succeeds;
//!   2. reading the output back with the fixture roots as trust anchors yields `Trusted`;
//!   3. the active manifest reports exactly the supplied title / format / claim generator info /
//!      assertion (label, data) multiset / ingredient list / redactions, after subtracting the
//!      automatic additions of the RULE TABLE below — every application of a rule is counted in the
//!      evidence (`rule:*` counters), so a rule that starts firing unexpectedly is visible;
//!   4. the signature algorithm reported equals S; the claim's `alg` and every digest length found in
//!      the claim / hard binding (read with the harness's own JUMBF walker + ciborium) match H.
//! The supplied values are kept by the generator (`vmon::defgen`); nothing of the SDK is used to
//! compute the expectation.
//!
//! RULE TABLE (documented automatic behaviour that is subtracted, each counted):
//!   auto-action-created      Create intent adds `c2pa.created` as first action (docs/intents.md)
//!   auto-action-opened       Edit intent adds `c2pa.opened` linked to the parent (docs/intents.md)
//!   auto-parent-from-source  Edit intent derives the parent ingredient from the source (docs/intents.md)
//!   actions-label-versioned  `c2pa.actions` is stored under the current versioned label `c2pa.actions.v2`
//!   hard-binding-hidden      c2pa.hash.* is added by signing and not listed among reported assertions
//!   cgi-sdk-version-key      claim_generator_info[0] gains `org.contentauth.c2pa_rs`
//!   cgi-default              no claim_generator_info supplied -> SDK default entry
//!   label-v1-suffix-dropped  a `.v1` label suffix is the canonical un-suffixed label
//!   label-instance           repeated labels are distinguished by instance numbers (`__n`)
//!   claim-thumbnail-auto / ingredient-thumbnail-auto   only when thumbnails are enabled
//!   v2-claim-has-no-format   claim v2 has no format field: reported format may be absent
//!   num-float-int            5.0 (CBOR float) == 5 (JSON int) numerically
//!   ingredient-format-mime   an extension given as ingredient format may be reported as its MIME type
//!   vendor-in-manifest-label `vendor` becomes a component of the manifest label
//!   json-report-u8-array-as-base64  Reader::json() shows arrays of integers 0..=255 as base64 (lossless)
use c2pa::Reader;
use serde_json::{json, Map, Value};
use std::collections::BTreeMap;
use std::io::Cursor;
use vmon::defgen::{self, GenDef, GenOpts, Intent, IngredientPool};
use vmon::{assets, jumbf, par, report, signers, Rng, Run};

const MODES: &[&str] = &["embedded", "sidecar", "remote+embedded"];

#[derive(Clone, Debug, serde::Serialize, serde::Deserialize)]
struct Cfg {
    asset: String,
    /// format string handed to sign()
    format: String,
    alg: String,
    compressed: bool,
    mode: String,
    thumbs: bool,
}

#[derive(Clone, Debug)]
struct Case {
    def: GenDef,
    cfg: Cfg,
    directed: Option<&'static str>,
}

#[derive(Default)]
struct Res {
    class: String,
    rules: BTreeMap<String, u64>,
    unjudged: Vec<String>,
    violation: Option<(String, String)>,
    /// further violations of other cause classes found in the same case
    more: Vec<(String, String)>,
    trivial: bool,
    dump: Option<String>,
}

/// Acceptable MIME spellings for a format hint (first = canonical); None: no independent mapping.
fn mimes_of(ext: &str) -> Option<Vec<&'static str>> {
    Some(match ext {
        "jpg" | "jpeg" | "image/jpeg" => vec!["image/jpeg"],
        "png" | "image/png" => vec!["image/png"],
        "gif" | "image/gif" => vec!["image/gif"],
        "tif" | "tiff" | "image/tiff" => vec!["image/tiff"],
        "svg" | "image/svg+xml" => vec!["image/svg+xml"],
        "mp3" | "audio/mpeg" => vec!["audio/mpeg"],
        "mp4" | "video/mp4" => vec!["video/mp4"],
        "webp" | "image/webp" => vec!["image/webp"],
        "avif" | "image/avif" => vec!["image/avif"],
        "heif" | "image/heif" => vec!["image/heif"],
        "jxl" | "image/jxl" => vec!["image/jxl"],
        "flac" | "audio/flac" => vec!["audio/flac"],
        "wav" | "audio/wav" => vec!["audio/wav", "audio/x-wav", "audio/wave", "audio/vnd.wave"],
        "avi" | "video/avi" => vec!["video/avi", "video/msvideo", "video/x-msvideo", "application/x-troff-msvideo"],
        "heic" | "image/heic" => vec!["image/heic"],
        _ => return None,
    })
}

fn mime_of(ext: &str) -> Option<&'static str> {
    mimes_of(ext).map(|v| v[0])
}

fn rule(r: &mut BTreeMap<String, u64>, name: &str) {
    *r.entry(name.to_string()).or_insert(0) += 1;
}

/// Equality on decoded values; numbers are compared numerically.
fn veq(a: &Value, b: &Value, rules: &mut BTreeMap<String, u64>) -> bool {
    match (a, b) {
        (Value::Number(x), Value::Number(y)) => {
            if x == y {
                return true;
            }
            match (x.as_i64(), y.as_i64(), x.as_u64(), y.as_u64()) {
                (Some(p), Some(q), _, _) => p == q,
                (_, _, Some(p), Some(q)) => p == q,
                _ => {
                    let (p, q) = (x.as_f64(), y.as_f64());
                    let same = p.is_some() && p == q && (x.is_f64() != y.is_f64());
                    if same {
                        rule(rules, "num-float-int");
                    }
                    same || (x.is_f64() && y.is_f64() && p == q)
                }
            }
        }
        (Value::Array(x), Value::Array(y)) => x.len() == y.len() && x.iter().zip(y.iter()).all(|(p, q)| veq(p, q, rules)),
        (Value::Object(x), Value::Object(y)) => x.len() == y.len() && x.iter().all(|(k, p)| y.get(k).map(|q| veq(p, q, rules)).unwrap_or(false)),
        _ => a == b,
    }
}

fn strip_instance(l: &str) -> (String, bool) {
    if let Some(p) = l.rfind("__") {
        if !l[p + 2..].is_empty() && l[p + 2..].chars().all(|c| c.is_ascii_digit()) {
            return (l[..p].to_string(), true);
        }
    }
    (l.to_string(), false)
}

fn canon_label(l: &str, rules: &mut BTreeMap<String, u64>) -> String {
    let (l, inst) = strip_instance(l);
    if inst {
        rule(rules, "label-instance");
    }
    if let Some(s) = l.strip_suffix(".v1") {
        rule(rules, "label-v1-suffix-dropped");
        return s.to_string();
    }
    l
}

fn short(v: &Value) -> String {
    let s = v.to_string();
    if s.len() > 300 {
        let mut e = 300;
        while !s.is_char_boundary(e) {
            e -= 1;
        }
        format!("{}…({} bytes)", &s[..e], s.len())
    } else {
        s
    }
}

fn cbor_get<'a>(v: &'a ciborium::Value, key: &str) -> Option<&'a ciborium::Value> {
    v.as_map()?.iter().find(|(k, _)| k.as_text() == Some(key)).map(|(_, v)| v)
}

/// (claim alg, digest lengths seen in claim assertion refs, hard binding (alg, digest len)) of the
/// active (= last) manifest, read with the harness's own walker.
fn claim_hash_facts(store: &[u8]) -> Option<(Option<String>, Vec<usize>, Option<(Option<String>, Option<usize>)>, BTreeMap<String, String>)> {
    let root = jumbf::parse_store(store)?;
    let active = *jumbf::manifests(&root).last()?;
    let mut alg = None;
    let mut lens = Vec::new();
    let mut hb = None;
    let mut kinds: BTreeMap<String, String> = BTreeMap::new();
    let mut found_claim = false;
    let mut all = Vec::new();
    active.walk(&mut all);
    for b in all {
        if &b.typ != b"jumb" {
            continue;
        }
        let Some(label) = &b.label else { continue };
        let content = b.children.iter().find(|c| &c.typ != b"jumd");
        if label == "c2pa.claim.v2" || label == "c2pa.claim" {
            let c = b.children.iter().find(|c| &c.typ == b"cbor")?;
            let v: ciborium::Value = ciborium::from_reader(&store[c.payload_start()..c.end()]).ok()?;
            found_claim = true;
            alg = cbor_get(&v, "alg").and_then(|a| a.as_text()).map(|s| s.to_string());
            for key in ["assertions", "created_assertions", "gathered_assertions"] {
                if let Some(a) = cbor_get(&v, key).and_then(|a| a.as_array()) {
                    for e in a {
                        if let Some(h) = cbor_get(e, "hash").and_then(|h| h.as_bytes()) {
                            lens.push(h.len());
                        }
                    }
                }
            }
        } else if b.path.contains("/c2pa.assertions/") {
            if let Some(c) = content {
                kinds.insert(label.clone(), c.typ_str());
            }
            if label.starts_with("c2pa.hash.") {
                if let Some(c) = b.children.iter().find(|c| &c.typ == b"cbor") {
                    if let Ok(v) = ciborium::from_reader::<ciborium::Value, _>(&store[c.payload_start()..c.end()]) {
                        let a = cbor_get(&v, "alg").and_then(|a| a.as_text()).map(|s| s.to_string());
                        let l = cbor_get(&v, "hash").and_then(|h| h.as_bytes()).map(|h| h.len()).filter(|l| *l > 0);
                        hb = Some((a, l));
                    }
                }
            }
        }
    }
    if !found_claim {
        return None;
    }
    Some((alg, lens, hb, kinds))
}

fn digest_len(h: &str) -> usize {
    match h {
        "sha384" => 48,
        "sha512" => 64,
        _ => 32,
    }
}

struct Env {
    assets: Vec<assets::Asset>,
    pool: IngredientPool,
}

/// Compares the reported active manifest with the supplied definition.  Returns mismatches as
/// (field-class, detail).
fn judge_manifest(c: &Case, env: &Env, m: &Value, store_manifests: &Map<String, Value>, rules: &mut BTreeMap<String, u64>, unjudged: &mut Vec<String>) -> Vec<(String, String)> {
    let d = &c.def;
    let mut out: Vec<(String, String)> = Vec::new();
    let claim_v = d.claim_version.unwrap_or(2);
    // ---- title
    let rt = m.get("title").and_then(|t| t.as_str()).map(|s| s.to_string());
    if rt != d.title {
        out.push(("title".into(), format!("supplied {:?} reported {:?}", d.title, rt)));
    }
    // ---- format
    let rf = m.get("format").and_then(|t| t.as_str());
    match (mimes_of(&c.cfg.format), rf) {
        (Some(exp), Some(r)) => {
            if !exp.contains(&r) {
                out.push(("format".into(), format!("supplied {} (= {:?}) reported {r}", c.cfg.format, exp)));
            }
        }
        (Some(_), None) => {
            if claim_v >= 2 {
                rule(rules, "v2-claim-has-no-format");
            } else {
                out.push(("format".into(), format!("supplied {} reported none (claim v1)", c.cfg.format)));
            }
        }
        (None, _) => unjudged.push("format: no independent MIME mapping for this hint".into()),
    }
    // ---- claim version
    if m.get("claim_version").and_then(|v| v.as_u64()) != Some(claim_v as u64) {
        out.push(("claim_version".into(), format!("requested {claim_v} reported {:?}", m.get("claim_version"))));
    }
    // ---- claim generator info
    let rc: Vec<Value> = m.get("claim_generator_info").and_then(|v| v.as_array()).cloned().unwrap_or_default();
    if d.cgi.is_empty() {
        rule(rules, "cgi-default");
        if rc.len() != 1 {
            out.push(("cgi".into(), format!("no generator supplied; reported {} entries", rc.len())));
        }
    } else if rc.len() != d.cgi.len() {
        out.push(("cgi".into(), format!("supplied {} entries reported {}", d.cgi.len(), rc.len())));
    } else {
        for (i, (s, r)) in d.cgi.iter().zip(rc.iter()).enumerate() {
            let mut r = r.clone();
            if i == 0 {
                if let Some(o) = r.as_object_mut() {
                    if o.remove("org.contentauth.c2pa_rs").is_some() {
                        rule(rules, "cgi-sdk-version-key");
                    }
                }
            }
            if !veq(s, &r, rules) {
                out.push(("cgi".into(), format!("entry {i}: supplied {} reported {}", short(s), short(&r))));
            }
        }
    }
    // ---- assertions
    let ra: Vec<Value> = m.get("assertions").and_then(|v| v.as_array()).cloned().unwrap_or_default();
    let mut reported_actions: Vec<Value> = Vec::new();
    let mut actions_assertions = 0;
    let mut reported_custom: Vec<(String, Value, bool)> = Vec::new();
    for a in &ra {
        let label = a.get("label").and_then(|l| l.as_str()).unwrap_or("").to_string();
        let data = a.get("data").cloned().unwrap_or(Value::Null);
        if label.starts_with("c2pa.actions") {
            actions_assertions += 1;
            if label != "c2pa.actions" {
                rule(rules, "actions-label-versioned");
            }
            if let Some(o) = data.as_object() {
                for (k, v) in o {
                    if k == "actions" {
                        reported_actions.extend(v.as_array().cloned().unwrap_or_default());
                    } else {
                        out.push(("actions-extra-field".into(), format!("actions assertion carries unsupplied field {k}={}", short(v))));
                    }
                }
            }
            continue;
        }
        if label.starts_with("c2pa.hash.") {
            // never expected in the report; if it shows up it is an automatic addition
            rule(rules, &format!("hard-binding-listed:{label}"));
            continue;
        }
        let is_json = a.get("kind").and_then(|k| k.as_str()).map(|k| k.eq_ignore_ascii_case("json")).unwrap_or(false);
        reported_custom.push((canon_label(&label, rules), data, is_json));
    }
    rule(rules, "hard-binding-hidden");
    // expected custom assertions
    let mut matched = vec![false; reported_custom.len()];
    for s in &d.assertions {
        let sl = canon_label(&s.label, rules);
        let mut scratch = BTreeMap::new();
        // prefer an entry of the same kind (two supplied assertions may share label and data)
        let hit = (0..reported_custom.len())
            .find(|i| !matched[*i] && reported_custom[*i].0 == sl && reported_custom[*i].2 == s.json_kind && veq(&s.data, &reported_custom[*i].1, &mut scratch))
            .or_else(|| (0..reported_custom.len()).find(|i| !matched[*i] && reported_custom[*i].0 == sl && veq(&s.data, &reported_custom[*i].1, &mut BTreeMap::new())));
        match hit {
            Some(i) => {
                matched[i] = true;
                for (k, v) in scratch {
                    *rules.entry(k).or_insert(0) += v;
                }
                if reported_custom[i].2 != s.json_kind {
                    out.push(("assertion-kind".into(), format!("label {} supplied as {} reported as {}", s.label, if s.json_kind { "json" } else { "cbor" }, if reported_custom[i].2 { "json" } else { "cbor" })));
                }
            }
            None => {
                let same_label: Vec<String> = reported_custom.iter().filter(|r| r.0 == sl).map(|r| short(&r.1)).collect();
                let cls = if same_label.is_empty() { "assertion-missing" } else { "assertion-data" };
                out.push((cls.into(), format!("label {} ({}) supplied data {} ; reported under that label: {:?}", s.label, if s.json_kind { "json" } else { "cbor" }, short(&s.data), same_label)));
            }
        }
    }
    // a supplied `x.vN` (N >= 2) that comes back as plain `x` with the same data: one cause class
    let mut version_dropped = 0;
    for s in &d.assertions {
        let sl = canon_label(&s.label, &mut BTreeMap::new());
        if let Some(p) = sl.rfind(".v") {
            if sl[p + 2..].parse::<u32>().map(|n| n >= 2).unwrap_or(false) {
                let bare = &sl[..p];
                let mut scratch = BTreeMap::new();
                if let Some(i) = (0..reported_custom.len()).find(|i| !matched[*i] && reported_custom[*i].0 == bare && veq(&s.data, &reported_custom[*i].1, &mut scratch)) {
                    matched[i] = true;
                    version_dropped += 1;
                    out.retain(|(f, dd)| !(f == "assertion-missing" && dd.starts_with(&format!("label {} ", s.label))));
                    out.insert(0, ("assertion-label-version-suffix-dropped".into(), format!("supplied label {} is reported as {bare} (same data)", s.label)));
                }
            }
        }
    }
    let _ = version_dropped;
    for (i, r) in reported_custom.iter().enumerate() {
        if !matched[i] {
            out.push(("assertion-unexpected".into(), format!("reported assertion {} = {} was not supplied", r.0, short(&r.1))));
        }
    }
    // ---- actions
    let mut ract = reported_actions.clone();
    let first_is = |a: &Vec<Value>, n: &str| a.first().and_then(|x| x.get("action")).and_then(|x| x.as_str()) == Some(n);
    let supplied_inception = d.actions.first().and_then(|a| a.get("action")).and_then(|a| a.as_str()).map(|a| a == "c2pa.created" || a == "c2pa.opened").unwrap_or(false);
    match d.intent {
        Intent::Create if supplied_inception => rule(rules, "inception-supplied-no-auto-action"),
        Intent::Create => {
            if first_is(&ract, "c2pa.created") {
                rule(rules, "auto-action-created");
                ract.remove(0);
            } else {
                out.push(("auto-action".into(), "Create intent but the first reported action is not c2pa.created".into()));
            }
        }
        Intent::Edit => {
            if first_is(&ract, "c2pa.opened") {
                rule(rules, "auto-action-opened");
                ract.remove(0);
            } else {
                out.push(("auto-action".into(), "Edit intent but the first reported action is not c2pa.opened".into()));
            }
        }
        Intent::None => {}
    }
    if ract.len() != d.actions.len() {
        out.push(("actions".into(), format!("supplied {} actions, reported {} (after removing the intent's automatic action): {}", d.actions.len(), ract.len(), short(&Value::Array(ract.clone())))));
    } else {
        for (i, (s, r)) in d.actions.iter().zip(ract.iter()).enumerate() {
            if !veq(s, r, rules) {
                out.push(("actions".into(), format!("action {i}: supplied {} reported {}", short(s), short(r))));
                break;
            }
        }
    }
    if actions_assertions > 1 {
        out.push(("actions".into(), format!("{actions_assertions} actions assertions reported")));
    }
    // ---- ingredients
    let ri: Vec<Value> = m.get("ingredients").and_then(|v| v.as_array()).cloned().unwrap_or_default();
    struct ExpIng {
        rel: String,
        title: Option<String>,
        formats: Vec<String>,
        signed: bool,
        active: Option<String>,
        what: String,
    }
    let mut exp: Vec<ExpIng> = Vec::new();
    for g in &d.ingredients {
        let item = &env.pool.items[g.pool];
        let mut formats = vec![item.format.to_string()];
        if let Some(mm) = mimes_of(item.format) {
            formats.extend(mm.iter().map(|m| m.to_string()));
        }
        exp.push(ExpIng { rel: g.relationship.clone(), title: g.title.clone(), formats, signed: item.signed, active: item.active_label.clone(), what: format!("{} as {}", item.name, g.relationship) });
    }
    if d.intent == Intent::Edit && !d.ingredients.iter().any(|g| g.relationship == "parentOf") {
        rule(rules, "auto-parent-from-source");
        let mut formats = vec![c.cfg.format.clone()];
        if let Some(mm) = mimes_of(&c.cfg.format) {
            formats.extend(mm.iter().map(|m| m.to_string()));
        }
        exp.push(ExpIng { rel: "parentOf".into(), title: None, formats, signed: false, active: None, what: "automatic parent from source".into() });
    }
    let mut used = vec![false; ri.len()];
    for e in &exp {
        let hit = (0..ri.len()).find(|i| {
            let r = &ri[*i];
            !used[*i]
                && r.get("relationship").and_then(|x| x.as_str()) == Some(e.rel.as_str())
                && (e.title.is_none() || r.get("title").and_then(|x| x.as_str()) == e.title.as_deref())
                && r.get("format").and_then(|x| x.as_str()).map(|f| e.formats.iter().any(|x| x == f)).unwrap_or(false)
                && r.get("active_manifest").is_some() == e.signed
                && (!e.signed || r.get("active_manifest").and_then(|x| x.as_str()) == e.active.as_deref())
        });
        match hit {
            Some(i) => {
                used[i] = true;
                let r = &ri[i];
                if r.get("format").and_then(|x| x.as_str()) != Some(e.formats[0].as_str()) {
                    rule(rules, "ingredient-format-mime");
                }
                if let Some(t) = &e.title {
                    let want_d = defgen::GenDef::ingredient_description(t);
                    let want_u = defgen::GenDef::ingredient_info_uri(t);
                    if r.get("description").and_then(|x| x.as_str()) != Some(want_d.as_str()) {
                        out.push(("ingredient-description".into(), format!("ingredient {}: supplied description {:?}, reported {:?}", e.what, want_d, r.get("description"))));
                    }
                    let got_u = r.get("informational_URI").or_else(|| r.get("informational_uri")).and_then(|x| x.as_str());
                    if got_u != Some(want_u.as_str()) {
                        out.push(("ingredient-informational-uri".into(), format!("ingredient {}: supplied informational_URI {:?}, reported {:?}", e.what, want_u, got_u)));
                    }
                }
                if r.get("thumbnail").is_some() {
                    if c.cfg.thumbs {
                        rule(rules, "ingredient-thumbnail-auto");
                    } else {
                        out.push(("ingredient-thumbnail".into(), format!("thumbnails disabled but ingredient {} reports a thumbnail", e.what)));
                    }
                }
                if e.signed {
                    if let Some(l) = &e.active {
                        if !store_manifests.contains_key(l) {
                            out.push(("ingredient-manifest".into(), format!("ingredient {} names active manifest {l} which is not in the output store", e.what)));
                        }
                    }
                }
            }
            None => {
                let brief: Vec<Value> = ri.iter().map(|r| json!({"relationship": r.get("relationship"), "title": r.get("title"), "format": r.get("format"), "active_manifest": r.get("active_manifest")})).collect();
                out.push(("ingredient".into(), format!("no reported ingredient matches supplied {} (title {:?}, formats {:?}, signed {}, active {:?}); reported: {}", e.what, e.title, e.formats, e.signed, e.active, short(&Value::Array(brief)))));
            }
        }
    }
    if used.iter().filter(|u| !**u).count() > 0 {
        out.push(("ingredient-unexpected".into(), format!("{} reported ingredients were not supplied", used.iter().filter(|u| !**u).count())));
    }
    // ---- thumbnail
    if m.get("thumbnail").is_some() {
        if c.cfg.thumbs {
            rule(rules, "claim-thumbnail-auto");
        } else {
            out.push(("thumbnail".into(), "thumbnails disabled and none supplied, but a claim thumbnail is reported".into()));
        }
    }
    // ---- redactions
    let mut rr: Vec<String> = m.get("redactions").and_then(|v| v.as_array()).map(|a| a.iter().filter_map(|x| x.as_str().map(|s| s.to_string())).collect()).unwrap_or_default();
    let mut sr = d.redactions.clone();
    rr.sort();
    sr.sort();
    let before = rr.len();
    rr.dedup();
    if rr.len() != before {
        rule(rules, "observed:redaction-listed-more-than-once");
    }
    sr.dedup();
    if rr != sr {
        out.push(("redactions".into(), format!("supplied {:?} reported {:?}", sr, rr)));
    }
    // ---- signature algorithm
    let ralg = m.get("signature_info").and_then(|s| s.get("alg")).and_then(|a| a.as_str()).unwrap_or("");
    if !ralg.eq_ignore_ascii_case(&c.cfg.alg) {
        out.push(("signature-alg".into(), format!("signed with {} reported {ralg}", c.cfg.alg)));
    }
    // ---- vendor
    if let Some(v) = &d.vendor {
        let l = m.get("label").and_then(|l| l.as_str()).unwrap_or("");
        if l.to_lowercase().split(':').any(|part| part == v.to_lowercase()) {
            rule(rules, "vendor-in-manifest-label");
        } else {
            out.push(("vendor".into(), format!("vendor {v} not reflected in manifest label {l}")));
        }
    }
    out
}

/// Compares the typed manifest (`active_manifest()` serialised by serde) with the same manifest inside
/// `Reader::json()`.  An array of numbers that shows up as a base64 string is the report's byte-array
/// display rule: lossless (all elements integers 0..=255) -> counted as a rule; anything else -> lossy.
fn json_channel_diff(typed: &Value, js: &Value, path: &str, rules: &mut BTreeMap<String, u64>, lossy: &mut Vec<String>, other: &mut Vec<String>) {
    match (typed, js) {
        (Value::Array(a), Value::String(s)) if !a.is_empty() && a.iter().all(|x| x.is_number()) => {
            let ok = a.iter().all(|x| x.as_u64().map(|n| n <= 255).unwrap_or(false));
            if ok {
                rule(rules, "json-report-u8-array-as-base64");
            } else {
                lossy.push(format!("{path}: {} shown as \"{s}\"", short(typed)));
            }
        }
        (Value::Object(x), Value::Object(y)) => {
            for (k, v) in x {
                match y.get(k) {
                    Some(w) => json_channel_diff(v, w, &format!("{path}/{k}"), rules, lossy, other),
                    None => other.push(format!("{path}/{k}: only in active_manifest()")),
                }
            }
            for k in y.keys() {
                if !x.contains_key(k) {
                    other.push(format!("{path}/{k}: only in json()"));
                }
            }
        }
        (Value::Array(x), Value::Array(y)) if x.len() == y.len() => {
            for (i, (v, w)) in x.iter().zip(y.iter()).enumerate() {
                json_channel_diff(v, w, &format!("{path}[{i}]"), rules, lossy, other);
            }
        }
        (a, b) => {
            if a != b {
                other.push(format!("{path}: {} vs {}", short(a), short(b)));
            }
        }
    }
}

fn run_case(c: &Case, env: &Env, dump: bool) -> Res {
    let mut res = Res::default();
    let d = &c.def;
    let claim_v = d.claim_version.unwrap_or(2);
    let hash = d.hash_alg.clone().unwrap_or_else(|| "default".into());
    let fmt_class = mime_of(&c.cfg.format).unwrap_or("?").to_string();
    let cfg_class = format!("{}|{}|{}|v{}|{}{}|{}", fmt_class, c.cfg.alg, hash, claim_v, c.cfg.mode, if c.cfg.compressed { "+brob" } else { "" }, if c.cfg.thumbs { "thumbs" } else { "nothumbs" });
    let Some(asset) = env.assets.iter().find(|a| a.name == c.cfg.asset) else {
        res.trivial = true;
        res.class = "trivial:no-asset".into();
        return res;
    };
    let nonascii_tail = d.assertions.iter().any(|a| defgen::label_has_nonascii_tail(&a.label) || defgen::label_has_nonascii_tail(a.label.trim_end_matches(|ch: char| ch.is_ascii_digit()).trim_end_matches(".v")));
    // signature = stage | defect | cause class (a property of the input that explains the defect, never
    // the swept configuration: one defect must not fan out over algs/modes/versions)
    let hint = |stage: &str, defect: &str| -> String {
        let cause = if nonascii_tail && defect.starts_with("panic") {
            "nonascii-label-tail".to_string()
        } else if defect.contains("state:") || defect.starts_with("err:") {
            format!("v{claim_v}")
        } else {
            "general".to_string()
        };
        format!("{stage}|{defect}|{cause}")
    };
    let ctx = defgen::context(true, c.cfg.thumbs, c.cfg.compressed, &json!({"verify": {"remote_manifest_fetch": false}}));
    let mut b = match report::catch_sdk(|| d.build(ctx, &env.pool)) {
        Ok(Ok(b)) => b,
        Ok(Err(e)) => {
            let sig = if e.contains("too large for i64") { "build|err|int-above-i64-max".to_string() } else { hint("build", &format!("err:{}", e.split(':').next().unwrap_or(""))) };
            res.violation = Some((sig, format!("building the definition failed: {e}")));
            res.class = format!("{cfg_class}|build-error");
            return res;
        }
        Err(p) => {
            res.violation = Some((hint("build", "panic"), format!("panic while building: {p}")));
            res.class = format!("{cfg_class}|build-panic");
            return res;
        }
    };
    match c.cfg.mode.as_str() {
        "sidecar" => {
            b.set_no_embed(true);
        }
        "remote+embedded" => {
            b.set_remote_url("https://verif.invalid/manifests/m.c2pa");
        }
        _ => {}
    }
    let signer = signers::test_signer(&c.cfg.alg);
    let mut src = Cursor::new(asset.bytes.clone());
    let mut dst = Cursor::new(Vec::new());
    let signed = report::catch_sdk(|| b.sign(signer.as_ref(), &c.cfg.format, &mut src, &mut dst));
    let store = match signed {
        Ok(Ok(s)) => s,
        Ok(Err(e)) => {
            let kind = report::err_kind(&e);
            if c.cfg.mode == "remote+embedded" && (kind.contains("Xmp") || kind == "UnsupportedType" || kind == "NotImplemented") {
                res.unjudged.push(format!("remote-reference-unsupported:{fmt_class}:{kind}"));
                res.class = format!("{cfg_class}|unjudged-remote-ref");
                res.trivial = true;
                return res;
            }
            res.violation = Some((hint("sign", &format!("err:{kind}")), format!("sign failed on a well-formed definition: {e:?}")));
            res.class = format!("{cfg_class}|sign-error:{kind}");
            return res;
        }
        Err(p) => {
            res.violation = Some((hint("sign", "panic"), format!("panic in sign: {p}")));
            res.class = format!("{cfg_class}|sign-panic");
            return res;
        }
    };
    let out = dst.into_inner();
    // ---- read back
    let rctx = defgen::context(true, false, false, &json!({"verify": {"remote_manifest_fetch": false}}));
    let fmt = c.cfg.format.clone();
    let sidecar = c.cfg.mode == "sidecar";
    let (st, ou) = (store.clone(), out.clone());
    let read = report::catch_sdk(move || {
        let r = if sidecar { Reader::from_context(rctx).with_manifest_data_and_stream(&st, &fmt, Cursor::new(ou)) } else { Reader::from_context(rctx).with_stream(&fmt, Cursor::new(ou)) };
        r.map(|r| (r.json(), format!("{:?}", r.validation_state()), report::codes_of(&r), serde_json::to_value(r.active_manifest()).unwrap_or(Value::Null), r.is_embedded()))
    });
    let (json_s, state, codes, typed, embedded) = match read {
        Ok(Ok(x)) => x,
        Ok(Err(e)) => {
            let kind = report::err_kind(&e);
            res.violation = Some((hint("read", &format!("err:{kind}")), format!("reading the signed output failed: {e:?}")));
            res.class = format!("{cfg_class}|read-error:{kind}");
            return res;
        }
        Err(p) => {
            res.violation = Some((hint("read", "panic"), format!("panic while reading the signed output: {p}")));
            res.class = format!("{cfg_class}|read-panic");
            return res;
        }
    };
    let failures: Vec<String> = codes.iter().filter(|c| c.1 == "failure").map(|c| format!("{}:{}", c.0, c.2)).collect();
    if state != "Trusted" {
        let first = failures.first().cloned().unwrap_or_default();
        res.violation = Some((hint("read", &format!("state:{state}:{first}")), format!("read-back state {state} (expected Trusted); failures {:?}", failures)));
        res.class = format!("{cfg_class}|state:{state}");
        return res;
    }
    let v: Value = serde_json::from_str(&json_s).unwrap_or(Value::Null);
    let am = v.get("active_manifest").and_then(|a| a.as_str()).unwrap_or("").to_string();
    let empty = Map::new();
    let manifests = v.get("manifests").and_then(|m| m.as_object()).unwrap_or(&empty);
    let Some(m) = manifests.get(&am) else {
        res.violation = Some((hint("report", "no-active-manifest"), "report has no active manifest".into()));
        res.class = format!("{cfg_class}|no-active");
        return res;
    };
    // primary channel: the typed `Reader::active_manifest()`; secondary: the `Reader::json()` report
    if !typed.is_object() {
        res.violation = Some((hint("report", "no-active-manifest"), "active_manifest() is None".into()));
        res.class = format!("{cfg_class}|no-active");
        return res;
    }
    let mut mism = judge_manifest(c, env, &typed, manifests, &mut res.rules, &mut res.unjudged);
    let mut json_lossy: Vec<String> = Vec::new();
    let mut json_other: Vec<String> = Vec::new();
    json_channel_diff(&typed, m, "", &mut res.rules, &mut json_lossy, &mut json_other);
    // ---- delivery mode facts
    match c.cfg.mode.as_str() {
        "remote+embedded" => {
            let url = b"https://verif.invalid/manifests/m.c2pa";
            let found = out.windows(url.len()).any(|w| w == url);
            rule(&mut res.rules, if found { "observed:remote-url-in-output" } else { "observed:remote-url-not-found-verbatim" });
            if !embedded {
                mism.push(("embedded-flag".into(), "embedded manifest reported as not embedded".into()));
            }
        }
        "embedded" => {
            if !embedded {
                mism.push(("embedded-flag".into(), "embedded manifest reported as not embedded".into()));
            }
        }
        _ => {}
    }
    // ---- hash algorithm facts from the store itself
    let want = d.hash_alg.clone().unwrap_or_else(|| "sha256".into());
    match claim_hash_facts(&store) {
        Some((alg, lens, hb, kinds)) => {
            if alg.as_deref() != Some(want.as_str()) {
                mism.push(("hash-alg".into(), format!("claim alg {:?}, requested {want}", alg)));
            }
            if let Some(l) = lens.iter().find(|l| **l != digest_len(&want)) {
                mism.push(("hash-alg".into(), format!("an assertion digest in the claim has {l} bytes, requested {want}")));
            }
            match hb {
                Some((a, l)) => {
                    if a.as_deref().map(|a| a != want).unwrap_or(false) || l.map(|l| l != digest_len(&want)).unwrap_or(false) {
                        mism.push(("hash-alg".into(), format!("hard binding alg {:?} digest {:?} bytes, requested {want}", a, l)));
                    }
                }
                None => mism.push(("hard-binding".into(), "no c2pa.hash.* assertion found in the signed store".into())),
            }
            // stored content kind per supplied assertion (first instance only; instances carry __n)
            for s in &d.assertions {
                let stored = kinds.get(&s.label).or_else(|| s.label.strip_suffix(".v1").and_then(|l| kinds.get(l)));
                if let Some(k) = stored {
                    // bare label (any `.vN` removed): the SDK stores `x.vN` under `x` (finding
                    // version-suffix-dropped), so those collide with a plain `x` as well
                    let canon = |l: &str| {
                        let c = canon_label(l, &mut BTreeMap::new());
                        match c.rfind(".v") {
                            Some(p) if !c[p + 2..].is_empty() && c[p + 2..].chars().all(|ch| ch.is_ascii_digit()) => c[..p].to_string(),
                            _ => c,
                        }
                    };
                    let dup = d.assertions.iter().filter(|x| canon(&x.label) == canon(&s.label)).count() > 1;
                    if !dup && (k == "json") != s.json_kind {
                        mism.push(("assertion-kind".into(), format!("label {} supplied as {} stored in a `{k}` box", s.label, if s.json_kind { "json" } else { "cbor" })));
                    }
                }
            }
        }
        None => {
            rule(&mut res.rules, if c.cfg.compressed { "hash-facts-unobservable:compressed" } else { "hash-facts-unobservable" });
            if !c.cfg.compressed {
                res.unjudged.push("hash-alg: claim not found by the independent walker".into());
            }
        }
    }
    if dump {
        res.dump = Some(format!("CASE cfg={:?}\n def={}\n api={:?}\n actions(api={})={:?}\n ingredients={:?} intent={:?}\n state={state} failures={:?}\n manifest={}\n mismatches={:?}\n rules={:?}\n", c.cfg, d.definition_json(), d.assertions.iter().filter(|a| a.via == defgen::Via::Api).map(|a| (&a.label, a.json_kind, short(&a.data))).collect::<Vec<_>>(), d.actions_via_api, d.actions, d.ingredients, d.intent, failures, serde_json::to_string_pretty(&typed).unwrap_or_default(), mism, res.rules));
    }
    res.class = format!("{cfg_class}|{}|{}", d.shape(), if !mism.is_empty() { "mismatch" } else if !json_lossy.is_empty() || !json_other.is_empty() { "json-report-differs" } else { "held" });
    if let Some((field, _)) = mism.first() {
        let all: Vec<String> = mism.iter().map(|(f, d)| format!("[{f}] {d}")).collect();
        res.violation = Some((hint("report", &format!("field:{field}")), all.join(" ;; ")));
        // one violation per distinct field class, so that a known finding cannot hide another defect
        let mut seen = vec![field.clone()];
        for (f, dd) in mism.iter().skip(1) {
            // a dropped version suffix also shows up as missing/unexpected entries under the bare label
            let echo = seen.iter().any(|s| s == "assertion-label-version-suffix-dropped") && (f == "assertion-unexpected" || f == "assertion-missing" || f == "assertion-data");
            if !seen.contains(f) && !echo {
                seen.push(f.clone());
                res.more.push((hint("report", &format!("field:{f}")), format!("[{f}] {dd}")));
            }
        }
    } else if let Some(first) = json_other.first() {
        res.violation = Some(("json-report|differs-from-active_manifest|general".into(), format!("Reader::json() differs from active_manifest(): {first} (+{} more)", json_other.len() - 1)));
    } else if let Some(first) = json_lossy.first() {
        res.violation = Some(("json-report|numeric-array-rewritten-as-base64|element-outside-u8".into(), format!("Reader::json() rewrites a numeric array into a base64 string and loses values: {first} (+{} more)", json_lossy.len() - 1)));
    }
    res
}

fn case_json(c: &Case) -> Value {
    json!({"def": c.def, "cfg": c.cfg, "directed": c.directed})
}

/// Tiny assets of every writable format + small fixtures.  Formats only available from the extended
/// generator set (webp avi flac jxl heic) are taken after a pre-flight sign+read with a fixed
/// definition (their embedding is C07's business); skipped ones are listed in the evidence.
fn asset_list(quick: bool, skipped: &mut Vec<String>) -> Vec<assets::Asset> {
    let mut all = assets::tiny_assets();
    let mut have: Vec<&'static str> = all.iter().map(|a| a.format).collect();
    for a in vmon::embedkit::extended_tiny_assets() {
        if have.contains(&a.format) || a.format == "c2pa" {
            continue;
        }
        let ok = defgen::sign_simple(a.format, &a.bytes, "preflight", "ed25519", c2pa::BuilderIntent::Create(c2pa::DigitalSourceType::DigitalCapture), &[])
            .map(|signed| report::read_bytes_catch(defgen::context(true, false, false, &json!({})), a.format, &signed).state == "Trusted")
            .unwrap_or(false);
        if ok {
            have.push(a.format);
            all.push(a);
        } else {
            skipped.push(a.name.clone());
        }
    }
    all.extend(assets::fixture_assets(if quick { 110_000 } else { 400_000 }));
    all
}

fn make_case(rng: &mut Rng, env: &Env, row: &[usize]) -> Case {
    // row: asset, alg, hash, claimv, compressed, mode, thumbs, intent, n_ingredients, assertion-class
    let a = &env.assets[row[0] % env.assets.len()];
    let claim_version = if row[3] == 1 { Some(1) } else { None };
    let mut opts = GenOpts::default();
    opts.claim_version = claim_version;
    opts.hash_alg = defgen::HASH_ALGS[row[2] % 4];
    opts.intent = Some([Intent::None, Intent::Create, Intent::Edit][row[7] % 3].clone());
    opts.n_ingredients = Some(row[8] % 4);
    opts.n_assertions = match row[9] % 4 {
        0 => Some(0),
        1 => Some(1),
        2 => Some(2 + rng.usize(4)),
        _ => Some(12),
    };
    // 64 KB payloads only on a share of the cases (run time), always allowed in the "12 assertions" class
    opts.big_payloads = row[9] % 4 == 3 || rng.chance(1, 3);
    let choices = env.pool.choices(claim_version);
    let mut def = defgen::gen_def(rng, &opts, &choices);
    if rng.chance(1, 3) {
        for k in 0..def.ingredients.len() {
            if def.ingredients[k].relationship != "inputTo" && rng.bool() {
                def.add_redaction(k, &env.pool);
            }
        }
    }
    let format = if rng.bool() { mime_of(a.format).unwrap_or(a.format).to_string() } else { a.format.to_string() };
    Case {
        def,
        cfg: Cfg { asset: a.name.clone(), format, alg: signers::ALGS[row[1] % 7].0.to_string(), compressed: row[4] % 2 == 1, mode: MODES[row[5] % 3].to_string(), thumbs: row[6] % 2 == 1 },
        directed: None,
    }
}

// ------------------------------------------------------------------------------------------------
// re-signing sequences: sign -> {Update intent, Edit intent on the signed file, Update twice} -> read

struct SeqRes {
    class: String,
    violation: Option<(String, String)>,
    sample: Value,
}

fn sign_step(format: &str, src: &[u8], title: &str, intent: c2pa::BuilderIntent, alg: &str) -> Result<Vec<u8>, String> {
    let ctx = defgen::context(true, false, false, &json!({"verify": {"remote_manifest_fetch": false}}));
    let mut b = c2pa::Builder::from_context(ctx).with_definition(json!({"title": title})).map_err(|e| format!("err:{}", report::err_kind(&e)))?;
    b.set_intent(intent);
    let signer = signers::test_signer(alg);
    let mut s = Cursor::new(src.to_vec());
    let mut d = Cursor::new(Vec::new());
    match report::catch_sdk(|| b.sign(signer.as_ref(), format, &mut s, &mut d)) {
        Ok(Ok(_)) => Ok(d.into_inner()),
        Ok(Err(e)) => Err(format!("err:{}", report::err_kind(&e))),
        Err(p) => Err(format!("panic:{p}")),
    }
}

/// `seq`: "update" | "edit-on-signed" | "update-twice" | "edit-then-update"
fn run_sequence(a: &assets::Asset, seq: &'static str, alg: &str) -> SeqRes {
    let fam = vmon::fmt::family(a.format).unwrap_or("?");
    let sample = json!({"sequence": seq, "asset": a.name, "format": a.format, "alg": alg});
    // cause class = the intent of the failing step (not the sequence it was part of) x container family
    let sig_for = |step: &str, stage: &str, what: &str| format!("{}|{fam}|{stage}{what}", if step == "edit" { "edit-on-signed" } else if step == "update" { "update-intent" } else { "create" });
    let sig = |stage: &str, what: &str| sig_for("create", stage, what);
    let create = c2pa::BuilderIntent::Create(c2pa::DigitalSourceType::DigitalCapture);
    let read = |bytes: &[u8]| report::read_bytes_catch(defgen::context(true, false, false, &json!({"verify": {"remote_manifest_fetch": false}})), a.format, bytes);
    let first = match sign_step(a.format, &a.bytes, "first", create, "ed25519") {
        Ok(x) => x,
        Err(e) => return SeqRes { class: format!("seq|{seq}|{fam}|first-sign-{}", e.split(':').take(2).collect::<Vec<_>>().join(":")), violation: Some((sig("first-sign-", e.split(':').take(2).collect::<Vec<_>>().join(":").as_str()), format!("{}: first (Create) sign failed: {e}", a.name))), sample },
    };
    let o1 = read(&first);
    if o1.state != "Trusted" {
        return SeqRes { class: format!("seq|{seq}|{fam}|first-readback-{}", o1.state), violation: Some((sig("first-readback-", &format!("{}:{}", o1.state, o1.failure_codes().first().cloned().unwrap_or_default())), format!("{}: first signed file reads {} {:?} {:?}", a.name, o1.state, o1.error, o1.failure_codes()))), sample };
    }
    let steps: Vec<(&str, c2pa::BuilderIntent)> = match seq {
        "update" => vec![("update", c2pa::BuilderIntent::Update)],
        "edit-on-signed" => vec![("edit", c2pa::BuilderIntent::Edit)],
        "update-twice" => vec![("update", c2pa::BuilderIntent::Update), ("update", c2pa::BuilderIntent::Update)],
        _ => vec![("edit", c2pa::BuilderIntent::Edit), ("update", c2pa::BuilderIntent::Update)],
    };
    let mut cur = first;
    let mut n_manifests = 1;
    for (i, (name, intent)) in steps.into_iter().enumerate() {
        cur = match sign_step(a.format, &cur, &format!("step {i} {name}"), intent, alg) {
            Ok(x) => x,
            Err(e) => {
                let k = e.split(':').take(2).collect::<Vec<_>>().join(":");
                return SeqRes { class: format!("seq|{seq}|{fam}|step{i}-sign-{k}"), violation: Some((sig_for(name, "sign-", &k), format!("{}: step {i} ({name} intent) sign failed: {e}", a.name))), sample };
            }
        };
        n_manifests += 1;
        let o = read(&cur);
        if o.state != "Trusted" {
            let code = if o.state == "Err" || o.state == "Panic" { o.error.clone().unwrap_or_default() } else { o.failure_codes().first().cloned().unwrap_or_default() };
            return SeqRes { class: format!("seq|{seq}|{fam}|{}|step{i}-readback-{}", a.name, o.state), violation: Some((sig_for(name, "readback-", &format!("{}:{code}", o.state)), format!("{}: sequence {seq}: after step {i} ({name} intent) the file reads {} (error {:?}, failures {:?})", a.name, o.state, o.error, o.failure_codes()))), sample };
        }
        let have = o.report.get("manifests").and_then(|m| m.as_object()).map(|m| m.len()).unwrap_or(0);
        if have != n_manifests {
            return SeqRes { class: format!("seq|{seq}|{fam}|manifest-count"), violation: Some((sig_for(name, "manifest-count", ""), format!("{}: after step {i} the store holds {have} manifests, expected {n_manifests}", a.name))), sample };
        }
    }
    SeqRes { class: format!("seq|{seq}|{fam}|{}|Trusted", a.format), violation: None, sample }
}

fn directed_cases(env: &Env) -> Vec<Case> {
    let base = |label: &str, name: &'static str| -> Case {
        let def = GenDef {
            title: Some("directed".into()),
            cgi: vec![],
            vendor: None,
            claim_version: None,
            hash_alg: None,
            assertions: vec![defgen::GenAssertion { label: label.into(), json_kind: false, via: defgen::Via::Definition, data: json!({"k": 1}), steer: None }],
            actions: vec![],
            actions_via_api: false,
            ingredients: vec![],
            intent: Intent::Create,
            redactions: vec![],
        };
        Case { def, cfg: Cfg { asset: "tiny.png".into(), format: "image/png".into(), alg: "ed25519".into(), compressed: false, mode: "embedded".into(), thumbs: false }, directed: Some(name) }
    };
    let _ = env;
    vec![
        // a custom label whose last component starts with a two-byte UTF-8 character
        base("org.verif.ünï", "nonascii-label-tail"),
        // the same with a version suffix: signs, then panics in the reader
        base("org.verif.ünï.v2", "nonascii-label-tail-versioned"),
        // control: non-ASCII in a middle component
        base("org.ünï.note", "nonascii-label-middle"),
        // a versioned custom label
        base("org.verif.versioned.v3", "label-version-suffix"),
        // integer above i64::MAX in assertion data
        {
            let mut c = base("org.verif.bigint", "int-above-i64-max");
            c.def.assertions[0].data = json!({"big": u64::MAX});
            c
        },
        // numeric arrays whose elements do not fit a byte / are not integers
        {
            let mut c = base("org.verif.arrays", "numeric-arrays");
            c.def.assertions[0].data = json!({"bytes": [1, 2, 3], "wide": [256, 65535], "neg": [-1, 5], "floats": [0.5, 1.5]});
            c
        },
    ]
}

fn main() {
    let mut run = Run::from_args("C03", "exploration");
    report::quiet_panics();
    run.rule = "cases = pairwise covering array over (asset incl. every writable tiny format + small fixtures, 7 signing algs, hash alg {default,sha256,sha384,sha512}, claim v1/v2, compressed, embedded/sidecar/remote+embedded, thumbnails, intent {none,create,edit}, 0-3 ingredients, assertion count class) + seeded random rows; each row gets a definition from the defgen grammar (reverse-DNS / non-ASCII / repeated / versioned labels; JSON+CBOR payload trees steered to 23/24, 255/256, 65535/65536 bytes; actions; signed+unsigned ingredients; redactions). Non-trivial = signed, read back Trusted and compared field by field; distinct = (format, alg, hash, claim version, mode, thumbs, definition shape, outcome). Plus re-signing sequences on every tiny asset: Create-sign, then {Update intent; Edit intent on the signed file; Update twice; Edit then Update}, each step read back (must be Trusted, store must grow by one manifest).".into();
    run.assumptions = vec![
        "the rule table in the module doc lists the automatic additions that are subtracted; each application is counted (rule:* counters)".into(),
        "ingredient `label` (a builder-side id for linking actions) and ingredient titles that were not supplied are not judged".into(),
        "remote+embedded on a format that cannot carry a remote reference (error kind Xmp*/UnsupportedType) is unjudged".into(),
        "claim alg / digest lengths are read from the returned store with the harness's own JUMBF walker; not observable for compressed manifests".into(),
    ];
    let mut skipped_assets = Vec::new();
    let env = Env { assets: asset_list(run.quick(), &mut skipped_assets), pool: defgen::ingredient_pool() };
    run.set("assets_skipped_by_preflight", json!(skipped_assets));
    if env.pool.n_signed < 4 {
        run.inconclusive(format!("ingredient pool has only {} signed items", env.pool.n_signed));
    }

    if let Some(p) = run.replay.clone() {
        let v: Value = serde_json::from_slice(&std::fs::read(&p).expect("replay file")).expect("json");
        let w = &v["witness"];
        let c = Case { def: serde_json::from_value(w["def"].clone()).expect("def"), cfg: serde_json::from_value(w["cfg"].clone()).expect("cfg"), directed: None };
        let r = run_case(&c, &env, true);
        println!("{}", r.dump.unwrap_or_default());
        println!("replay: class={} violation={:?}", r.class, r.violation);
        std::process::exit(if r.violation.is_some() { 1 } else { 0 });
    }
    let dump_n: usize = std::env::var("C03_DUMP").ok().and_then(|s| s.parse().ok()).unwrap_or(0);

    let mut rng = Rng::new(run.seed, "c03");
    let levels = [env.assets.len(), 7, 4, 2, 2, 3, 2, 3, 4, 4];
    let mut rows = defgen::pairwise(&mut rng, &levels);
    let pairwise_rows = rows.len();
    let total = run.tier.pick(360usize, 20_000usize).max(pairwise_rows);
    while rows.len() < total {
        rows.push(levels.iter().map(|l| rng.usize(*l)).collect());
    }
    let mut cases = directed_cases(&env);
    let n_directed = cases.len();
    for (i, row) in rows.iter().enumerate() {
        let mut r = rng.fork(i as u64);
        cases.push(make_case(&mut r, &env, row));
    }
    let results = par::par_map_watch(
        cases.len(),
        600,
        |i| println!("INCONCLUSIVE: property=C03 watchdog: case {i} exceeded 600 s"),
        |i| run_case(&cases[i], &env, i < n_directed + dump_n && dump_n > 0),
    );
    let mut unjudged: BTreeMap<String, u64> = BTreeMap::new();
    for (i, r) in results.iter().enumerate() {
        run.eval();
        if let Some(d) = &r.dump {
            println!("{d}");
        }
        for (k, v) in &r.rules {
            run.count(&format!("rule:{k}"), *v);
        }
        for u in &r.unjudged {
            *unjudged.entry(u.clone()).or_insert(0) += 1;
        }
        if !r.trivial {
            run.nontrivial(r.class.clone());
        } else {
            run.count("trivial", 1);
        }
        let kind = if r.violation.is_some() { "violating" } else if r.trivial { "trivial" } else { "held" };
        run.sample(kind, 2, json!({"cfg": cases[i].cfg, "shape": cases[i].def.shape(), "definition": short(&cases[i].def.definition_json())}));
        if let Some((sig, what)) = &r.violation {
            run.violation(sig, what, case_json(&cases[i]));
        }
        for (sig, what) in &r.more {
            run.violation(sig, what, case_json(&cases[i]));
        }
    }
    // ---- re-signing sequences on every tiny asset (every writable format the harness can synthesise)
    let seq_assets: Vec<&assets::Asset> = env.assets.iter().filter(|a| a.bytes.len() < 6000).collect();
    let seqs = ["update", "edit-on-signed", "update-twice", "edit-then-update"];
    let seq_work: Vec<(usize, &'static str, &'static str)> = seq_assets.iter().enumerate().flat_map(|(i, _)| seqs.iter().enumerate().map(move |(k, s)| (i, *s, signers::ALGS[(i + k) % 7].0))).collect();
    let seq_results = par::par_map_watch(seq_work.len(), 600, |i| println!("INCONCLUSIVE: property=C03 watchdog: sequence {i} exceeded 600 s"), |i| run_sequence(seq_assets[seq_work[i].0], seq_work[i].1, seq_work[i].2));
    for r in &seq_results {
        run.eval();
        run.nontrivial(r.class.clone());
        run.count("resign_sequences", 1);
        if r.violation.is_some() {
            run.count(&format!("resign_failed:{}", r.class.split('|').skip(1).take(3).collect::<Vec<_>>().join("|")), 1);
        }
        run.sample(if r.violation.is_some() { "violating-sequence" } else { "held-sequence" }, 2, r.sample.clone());
        if let Some((sig, what)) = &r.violation {
            run.violation(sig, what, r.sample.clone());
        }
    }
    run.set("pairwise_rows", json!(pairwise_rows));
    run.set("cases", json!(cases.len()));
    run.set("assets", json!(env.assets.iter().map(|a| a.name.clone()).collect::<Vec<_>>()));
    run.set("ingredient_pool", json!(env.pool.items.iter().map(|i| i.name.clone()).collect::<Vec<_>>()));
    run.set("unjudged", json!(unjudged));
    run.engine("release", true, json!({"threads": par::workers()}));
    run.finish(60);
}
