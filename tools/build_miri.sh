#!/bin/bash
. "$(cd "$(dirname "$0")" && pwd)/env.sh"
# Warm-up for the Miri engine: builds the Miri sysroot and the C-free vmon-miri crate by running the
# smallest workload once (the checks rebuild on demand anyway; this only moves the cost into setup).
cd "$(dirname "$0")/.."
VERIF_MIRI_TIMEOUT=${VERIF_MIRI_TIMEOUT:-2400} tools/run_miri.sh c13_smoke 0..1
exit 0
