//! Sanitizer-engine plumbing shared by monitors: run `tools/run_miri.sh` / `tools/run_tsan.sh`
//! (workloads of the C-free `vmon-miri` crate) beside the main workload and record their one-line
//! JSON result.  clean => non-trivial observation; report => violation; tool missing / build
//! failure / timeout => inconclusive (never a violation).
use crate::evidence::Run;
use serde_json::{json, Value};

pub type EngineHandle = std::thread::JoinHandle<Result<std::process::Output, String>>;

pub fn spawn_engine(script: &str, args: &[&str], envs: Vec<(&'static str, String)>) -> EngineHandle {
    let path = crate::evidence::verif_root().join("tools").join(script);
    let args: Vec<String> = args.iter().map(|s| s.to_string()).collect();
    std::thread::spawn(move || {
        if !path.exists() {
            return Err(format!("{} missing", path.display()));
        }
        let mut c = std::process::Command::new(&path);
        c.args(&args);
        for (k, v) in envs {
            if std::env::var(k).is_err() {
                c.env(k, v);
            }
        }
        c.output().map_err(|e| e.to_string())
    })
}

pub fn engines_disabled() -> bool {
    std::env::var("VERIF_NO_ENGINES").is_ok()
}

pub fn record_engine(run: &mut Run, name: &str, filter: &str, h: EngineHandle) {
    match h.join().unwrap_or_else(|_| Err("engine thread panicked".into())) {
        Ok(o) => {
            let text = String::from_utf8_lossy(&o.stdout).to_string();
            let last = text.lines().rev().find(|l| l.trim_start().starts_with('{')).unwrap_or("{}");
            let v: Value = serde_json::from_str(last).unwrap_or(json!({"unparsed": last}));
            let ran = v["ran"].as_bool().unwrap_or(false);
            let reports = v["reports"].as_u64().unwrap_or(0);
            run.engine(name, ran, v.clone());
            if reports > 0 {
                let sig = format!("{name}|{}", v["first_report_sig"].as_str().unwrap_or("report"));
                run.violation(&sig, &format!("{name} reported {reports} problem(s) on workload filter {filter} (log {})", v["log"]), json!({"engine": name, "result": v}));
            } else if !ran {
                run.inconclusive(format!("{name} engine did not run ({filter}): {}", v["note"]));
            } else {
                run.nontrivial(format!("engine|{name}|clean|{filter}"));
                run.count(&format!("{name}_tests_passed"), v["passed"].as_u64().unwrap_or(0));
            }
        }
        Err(e) => {
            run.engine(name, false, json!({"error": e}));
            run.inconclusive(format!("{name}: cannot run engine script: {e}"));
        }
    }
}
