#!/bin/bash
. "$(cd "$(dirname "$0")" && pwd)/env.sh"
# Runs the vmon-miri workloads whose test name contains <test-filter> under ThreadSanitizer
# (nightly, -Zbuild-std, C-free build of c2pa so that no uninstrumented C runs) and prints ONE JSON line:
#   {"engine":"tsan","filter":..,"ran":bool,"passed":N,"failed":N,"reports":N,"first_report_sig":..,"seconds":N,"repeats":N,"log":..}
# Exit status: 0 = ran clean or tooling problem (ran=false => "inconclusive"), 3 = a real report
# (TSan warning — the test binary exits 66 — or a failed assertion).
# usage: run_tsan.sh <test-filter> [repeats, default $VERIF_TSAN_REPEATS or 5] ; VERIF_TSAN_TIMEOUT seconds (default 5400)
filter="${1:-c24}"
repeats="${2:-${VERIF_TSAN_REPEATS:-5}}"
tmo="${VERIF_TSAN_TIMEOUT:-5400}"
root="$(cd "$(dirname "$0")/.." && pwd)"
mkdir -p "$root/.build/logs"
log="$root/.build/logs/tsan-$(echo "$filter" | tr -c 'A-Za-z0-9_\n' '_').log"
extra=""
case "$filter" in selftest*) extra="--ignored";; esac
start=$(date +%s)
cd "$root/harness" || { echo "{\"engine\":\"tsan\",\"filter\":\"$filter\",\"ran\":false,\"error\":\"no harness dir\"}"; exit 0; }
: >"$log"
export RUSTFLAGS="-Zsanitizer=thread" CARGO_TARGET_DIR="$root/.build/tsan" TSAN_OPTIONS="halt_on_error=0 second_deadlock_stack=1 exitcode=66"
# build once (no run), then repeat the run: different schedules
timeout "$tmo" cargo +nightly test -Zbuild-std --target x86_64-unknown-linux-gnu -p vmon-miri --offline --test workloads --no-run >>"$log" 2>&1
brc=$?
rc=0
if [ "$brc" -eq 0 ]; then
  for i in $(seq 1 "$repeats"); do
    echo "=== tsan repeat $i" >>"$log"
    timeout "$tmo" cargo +nightly test -Zbuild-std --target x86_64-unknown-linux-gnu -p vmon-miri --offline --test workloads -- "$filter" --test-threads=4 $extra >>"$log" 2>&1
    r=$?
    [ "$r" -ne 0 ] && rc=$r
  done
fi
secs=$(( $(date +%s) - start ))
passed=$(grep -E '^test result:' "$log" | sed -E 's/.* ([0-9]+) passed.*/\1/' | awk '{s+=$1} END {print s+0}')
failed=$(grep -E '^test result:' "$log" | sed -E 's/.* ([0-9]+) failed.*/\1/' | awk '{s+=$1} END {print s+0}')
warn=$(grep -cE '^WARNING: ThreadSanitizer' "$log")
reports=$(( warn + failed ))
ran=false
[ "$passed" -gt 0 ] || [ "$failed" -gt 0 ] || [ "$warn" -gt 0 ] && ran=true
note=""
[ "$brc" -ne 0 ] && note="tsan build failed (exit $brc)"
[ "$rc" -eq 124 ] && note="timeout after ${tmo}s"
[ "$ran" = false ] && [ -z "$note" ] && note="no test ran (exit $rc)"
sig=""
if [ "$reports" -gt 0 ]; then
  kind=$(grep -m1 -E '^WARNING: ThreadSanitizer' "$log" | sed -E 's/^WARNING: ThreadSanitizer: ([a-z -]+).*/\1/; s/ +$//' | tr ' ' '-')
  [ -z "$kind" ] && kind="failed-assertion"
  frames=$(grep -E '^ +#[0-9]+ ' "$log" | grep -E 'c2pa|vmon_miri|workloads' | head -2 | sed -E 's/^ +#[0-9]+ ([^ ]+).*/\1/; s/::h[0-9a-f]{16}$//' | tr '\n' '+' | sed 's/+$//')
  sig="${kind}|${frames}"
fi
printf '{"engine":"tsan","filter":"%s","ran":%s,"passed":%s,"failed":%s,"reports":%s,"first_report_sig":"%s","seconds":%s,"repeats":%s,"note":"%s","log":"%s"}\n' \
  "$filter" "$ran" "$passed" "$failed" "$reports" "$sig" "$secs" "$repeats" "$note" "$log"
[ "$reports" -gt 0 ] && exit 3
exit 0
