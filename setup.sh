#!/bin/bash
# Builds the whole framework offline from files on disk. Idempotent.
set -u
cd "$(dirname "$0")"
export CARGO_NET_OFFLINE=true
export CARGO_TARGET_DIR="$PWD/.build"
mkdir -p .build/logs evidence
( cd harness && cargo build --release --offline --bins 2>&1 | tail -5 ) || exit 1
echo "setup done"
