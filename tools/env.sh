# Sourced by every script: a stable tool environment that does not depend on the caller's HOME or on
# rustup's mutable "default toolchain" (an explicit `cargo +nightly` still wins over RUSTUP_TOOLCHAIN).
if [ -z "${HOME:-}" ] || [ "$HOME" = "/" ]; then export HOME=/root; fi
[ -z "${RUSTUP_HOME:-}" ] && [ -d /root/.rustup ] && export RUSTUP_HOME=/root/.rustup
[ -z "${CARGO_HOME:-}" ] && [ -d /root/.cargo ] && export CARGO_HOME=/root/.cargo
case ":$PATH:" in *":/root/.cargo/bin:"*) ;; *) [ -d /root/.cargo/bin ] && export PATH="/root/.cargo/bin:$PATH";; esac
export RUSTUP_TOOLCHAIN="${RUSTUP_TOOLCHAIN:-stable}"
export CARGO_NET_OFFLINE=true
