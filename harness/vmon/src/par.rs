//! Tiny work-sharing helpers over std::thread::scope (no external crates).
use std::sync::atomic::{AtomicUsize, Ordering};
use std::sync::Mutex;

pub fn workers() -> usize {
    std::env::var("VERIF_JOBS")
        .ok()
        .and_then(|s| s.parse().ok())
        .unwrap_or_else(|| std::thread::available_parallelism().map(|n| n.get()).unwrap_or(4))
        .max(1)
}

/// Applies `f` to every index 0..n on a pool of threads; results are returned in index order.
pub fn par_map<T: Send, F: Fn(usize) -> T + Sync>(n: usize, f: F) -> Vec<T> {
    let next = AtomicUsize::new(0);
    let out: Mutex<Vec<(usize, T)>> = Mutex::new(Vec::with_capacity(n));
    let nw = workers().min(n.max(1));
    std::thread::scope(|s| {
        for _ in 0..nw {
            s.spawn(|| {
                let mut local = Vec::new();
                loop {
                    let i = next.fetch_add(1, Ordering::Relaxed);
                    if i >= n {
                        break;
                    }
                    local.push((i, f(i)));
                    if local.len() >= 64 {
                        out.lock().unwrap().append(&mut local);
                    }
                }
                out.lock().unwrap().append(&mut local);
            });
        }
    });
    let mut v = out.into_inner().unwrap();
    v.sort_by_key(|(i, _)| *i);
    v.into_iter().map(|(_, t)| t).collect()
}

/// Like `par_map`, with a generous wall-clock watchdog: if one case runs longer than `limit_s`
/// seconds, `on_stall(index)` is called (typically: save the input, report *inconclusive*) and the
/// process exits with status 2.  A watchdog firing is never a violation by itself.
pub fn par_map_watch<T: Send, F: Fn(usize) -> T + Sync, G: Fn(usize) + Sync>(
    n: usize,
    limit_s: u64,
    on_stall: G,
    f: F,
) -> Vec<T> {
    use std::sync::atomic::AtomicU64;
    let nw = workers().min(n.max(1));
    let cur: Vec<(AtomicUsize, AtomicU64)> =
        (0..nw).map(|_| (AtomicUsize::new(usize::MAX), AtomicU64::new(0))).collect();
    let done = std::sync::atomic::AtomicBool::new(false);
    let t0 = std::time::Instant::now();
    let next = AtomicUsize::new(0);
    let out: Mutex<Vec<(usize, T)>> = Mutex::new(Vec::with_capacity(n));
    std::thread::scope(|s| {
        s.spawn(|| {
            while !done.load(Ordering::Relaxed) {
                std::thread::sleep(std::time::Duration::from_millis(500));
                let now = t0.elapsed().as_secs();
                for (idx, since) in cur.iter() {
                    let i = idx.load(Ordering::Relaxed);
                    let st = since.load(Ordering::Relaxed);
                    if i != usize::MAX && now.saturating_sub(st) > limit_s {
                        on_stall(i);
                        std::process::exit(2);
                    }
                }
            }
        });
        let mut handles = Vec::new();
        for w in 0..nw {
            let cur = &cur;
            let next = &next;
            let out = &out;
            let f = &f;
            handles.push(s.spawn(move || {
                let mut local = Vec::new();
                loop {
                    let i = next.fetch_add(1, Ordering::Relaxed);
                    if i >= n {
                        break;
                    }
                    cur[w].1.store(t0.elapsed().as_secs(), Ordering::Relaxed);
                    cur[w].0.store(i, Ordering::Relaxed);
                    local.push((i, f(i)));
                    cur[w].0.store(usize::MAX, Ordering::Relaxed);
                    if local.len() >= 64 {
                        out.lock().unwrap().append(&mut local);
                    }
                }
                out.lock().unwrap().append(&mut local);
            }));
        }
        for h in handles {
            let _ = h.join();
        }
        done.store(true, Ordering::Relaxed);
    });
    let mut v = out.into_inner().unwrap();
    v.sort_by_key(|(i, _)| *i);
    v.into_iter().map(|(_, t)| t).collect()
}
