//! Test assets: the repository's fixtures (read at run time, empty files skipped) and tiny
//! synthetic assets produced by encoders written here (independent of the SDK's handlers).
use crate::evidence::repo_root;
use crate::rng::Rng;
use std::path::PathBuf;

pub fn fixtures_dir() -> PathBuf {
    repo_root().join("sdk/tests/fixtures")
}

/// Reads a fixture; None if missing or zero-length (four fixtures are empty in this image).
pub fn fixture(name: &str) -> Option<Vec<u8>> {
    let b = std::fs::read(fixtures_dir().join(name)).ok()?;
    if b.is_empty() {
        None
    } else {
        Some(b)
    }
}

#[derive(Clone, Debug)]
pub struct Asset {
    pub name: String,
    /// format hint to give the SDK (extension)
    pub format: &'static str,
    pub bytes: Vec<u8>,
}

fn crc_chunk(typ: &[u8; 4], data: &[u8]) -> Vec<u8> {
    let mut v = Vec::new();
    v.extend_from_slice(&(data.len() as u32).to_be_bytes());
    v.extend_from_slice(typ);
    v.extend_from_slice(data);
    let mut h = crc32fast::Hasher::new();
    h.update(typ);
    h.update(data);
    v.extend_from_slice(&h.finalize().to_be_bytes());
    v
}

fn zlib_stored(raw: &[u8]) -> Vec<u8> {
    // zlib header + one stored deflate block + adler32
    let mut v = vec![0x78, 0x01];
    v.push(0x01);
    v.extend_from_slice(&(raw.len() as u16).to_le_bytes());
    v.extend_from_slice(&(!(raw.len() as u16)).to_le_bytes());
    v.extend_from_slice(raw);
    let (mut a, mut b) = (1u32, 0u32);
    for x in raw {
        a = (a + *x as u32) % 65521;
        b = (b + a) % 65521;
    }
    v.extend_from_slice(&((b << 16) | a).to_be_bytes());
    v
}

/// 2x2 8-bit grey PNG, optional ancillary tEXt chunk and optional trailing bytes after IEND.
pub fn tiny_png(text_chunk: bool, trailing: &[u8]) -> Vec<u8> {
    let mut v = vec![0x89, b'P', b'N', b'G', 0x0D, 0x0A, 0x1A, 0x0A];
    let mut ihdr = Vec::new();
    ihdr.extend_from_slice(&2u32.to_be_bytes());
    ihdr.extend_from_slice(&2u32.to_be_bytes());
    ihdr.extend_from_slice(&[8, 0, 0, 0, 0]);
    v.extend(crc_chunk(b"IHDR", &ihdr));
    if text_chunk {
        v.extend(crc_chunk(b"tEXt", b"Comment\0verif tiny png"));
    }
    let raw = [0u8, 10, 200, 0, 90, 30];
    v.extend(crc_chunk(b"IDAT", &zlib_stored(&raw)));
    v.extend(crc_chunk(b"IEND", &[]));
    v.extend_from_slice(trailing);
    v
}

fn jpeg_seg(marker: u8, payload: &[u8]) -> Vec<u8> {
    let mut v = vec![0xFF, marker];
    v.extend_from_slice(&((payload.len() + 2) as u16).to_be_bytes());
    v.extend_from_slice(payload);
    v
}

/// Structurally valid baseline JPEG (8x8 grey): SOI APP0 [APP1 xmp] DQT SOF0 DHT(DC) DHT(AC) SOS data EOI.
/// `restarts` inserts DRI + RSTn markers inside the entropy stream.
pub fn tiny_jpeg(xmp: Option<&str>, restarts: bool, trailing: &[u8]) -> Vec<u8> {
    let mut v = vec![0xFF, 0xD8];
    v.extend(jpeg_seg(0xE0, b"JFIF\0\x01\x01\0\0\x01\0\x01\0\0"));
    if let Some(x) = xmp {
        let mut p = b"http://ns.adobe.com/xap/1.0/\0".to_vec();
        p.extend_from_slice(x.as_bytes());
        v.extend(jpeg_seg(0xE1, &p));
    }
    let mut dqt = vec![0u8];
    dqt.extend(std::iter::repeat(16u8).take(64));
    v.extend(jpeg_seg(0xDB, &dqt));
    v.extend(jpeg_seg(0xC0, &[8, 0, 8, 0, 8, 1, 1, 0x11, 0]));
    // DC table: one code of length 1 -> symbol 0 ; AC table: one code of length 1 -> symbol 0 (EOB)
    let mut dht_dc = vec![0x00u8];
    let mut counts = [0u8; 16];
    counts[0] = 1;
    dht_dc.extend_from_slice(&counts);
    dht_dc.push(0);
    v.extend(jpeg_seg(0xC4, &dht_dc));
    let mut dht_ac = vec![0x10u8];
    dht_ac.extend_from_slice(&counts);
    dht_ac.push(0);
    v.extend(jpeg_seg(0xC4, &dht_ac));
    if restarts {
        v.extend(jpeg_seg(0xDD, &[0, 1]));
    }
    v.extend(jpeg_seg(0xDA, &[1, 1, 0x00, 0, 63, 0]));
    // entropy data: DC code '0' + AC EOB '0' then pad with 1s => 0b0011_1111
    v.push(0x3F);
    if restarts {
        v.extend_from_slice(&[0xFF, 0xD0, 0x3F, 0xFF, 0xD1, 0x3F]);
    }
    v.extend_from_slice(&[0xFF, 0xD9]);
    v.extend_from_slice(trailing);
    v
}

/// GIF89a 1x1 with optional comment extension and trailing bytes.
pub fn tiny_gif(comment: bool, trailing: &[u8]) -> Vec<u8> {
    let mut v = b"GIF89a".to_vec();
    v.extend_from_slice(&[1, 0, 1, 0, 0x80, 0, 0]); // LSD with 2-colour GCT
    v.extend_from_slice(&[0, 0, 0, 255, 255, 255]); // GCT
    if comment {
        v.extend_from_slice(&[0x21, 0xFE, 5]);
        v.extend_from_slice(b"verif");
        v.push(0);
    }
    v.extend_from_slice(&[0x21, 0xF9, 4, 0, 0, 0, 0, 0]); // graphic control ext
    v.extend_from_slice(&[0x2C, 0, 0, 0, 0, 1, 0, 1, 0, 0]); // image descriptor
    v.extend_from_slice(&[2, 2, 0x44, 0x01, 0]); // LZW min code size 2, 2 data bytes, terminator
    v.push(0x3B);
    v.extend_from_slice(trailing);
    v
}

fn riff_chunk(id: &[u8; 4], data: &[u8]) -> Vec<u8> {
    let mut v = id.to_vec();
    v.extend_from_slice(&(data.len() as u32).to_le_bytes());
    v.extend_from_slice(data);
    if data.len() % 2 == 1 {
        v.push(0);
    }
    v
}

/// PCM WAV with `n` sample bytes (odd n exercises RIFF padding) and an optional LIST chunk.
pub fn tiny_wav(n: usize, list: bool) -> Vec<u8> {
    let mut body = b"WAVE".to_vec();
    let fmt: [u8; 16] = [1, 0, 1, 0, 0x40, 0x1F, 0, 0, 0x40, 0x1F, 0, 0, 1, 0, 8, 0];
    body.extend(riff_chunk(b"fmt ", &fmt));
    if list {
        let mut l = b"INFO".to_vec();
        l.extend(riff_chunk(b"ISFT", b"verif\0"));
        body.extend(riff_chunk(b"LIST", &l));
    }
    let data: Vec<u8> = (0..n).map(|i| (i * 7 % 251) as u8).collect();
    body.extend(riff_chunk(b"data", &data));
    let mut v = b"RIFF".to_vec();
    v.extend_from_slice(&(body.len() as u32).to_le_bytes());
    v.extend(body);
    v
}

/// Little-endian classic TIFF, one IFD, one strip of `n` bytes.
pub fn tiny_tiff(n: usize) -> Vec<u8> {
    let mut v = vec![b'I', b'I', 42, 0];
    let strip: Vec<u8> = (0..n).map(|i| (i * 13 % 256) as u8).collect();
    let strip_off = 8u32;
    let ifd_off = 8 + ((n as u32 + 1) & !1);
    v.extend_from_slice(&ifd_off.to_le_bytes());
    v.extend_from_slice(&strip);
    if n % 2 == 1 {
        v.push(0);
    }
    let entries: Vec<(u16, u16, u32, u32)> = vec![
        (256, 3, 1, n as u32), // ImageWidth
        (257, 3, 1, 1),        // ImageLength
        (258, 3, 1, 8),        // BitsPerSample
        (259, 3, 1, 1),        // Compression none
        (262, 3, 1, 1),        // Photometric
        (273, 4, 1, strip_off),
        (277, 3, 1, 1),
        (278, 3, 1, 1),
        (279, 4, 1, n as u32),
    ];
    v.extend_from_slice(&(entries.len() as u16).to_le_bytes());
    for (tag, typ, cnt, val) in entries {
        v.extend_from_slice(&tag.to_le_bytes());
        v.extend_from_slice(&typ.to_le_bytes());
        v.extend_from_slice(&cnt.to_le_bytes());
        v.extend_from_slice(&val.to_le_bytes());
    }
    v.extend_from_slice(&0u32.to_le_bytes());
    v
}

pub fn tiny_svg() -> Vec<u8> {
    b"<?xml version=\"1.0\" encoding=\"UTF-8\"?>\n<svg xmlns=\"http://www.w3.org/2000/svg\" width=\"4\" height=\"4\"><rect width=\"4\" height=\"4\" fill=\"#123456\"/></svg>\n".to_vec()
}

/// `n` MPEG-1 Layer III frames (128 kbps, 44.1 kHz => 417-byte frames), optional ID3v2.3 tag in front.
pub fn tiny_mp3(frames: usize, id3: bool) -> Vec<u8> {
    let mut v = Vec::new();
    if id3 {
        // ID3v2.3 header + TIT2 frame
        let mut frame = b"TIT2".to_vec();
        let text = b"\0verif";
        frame.extend_from_slice(&(text.len() as u32).to_be_bytes());
        frame.extend_from_slice(&[0, 0]);
        frame.extend_from_slice(text);
        v.extend_from_slice(b"ID3\x03\x00\x00");
        let sz = frame.len() as u32;
        v.extend_from_slice(&[((sz >> 21) & 0x7F) as u8, ((sz >> 14) & 0x7F) as u8, ((sz >> 7) & 0x7F) as u8, (sz & 0x7F) as u8]);
        v.extend(frame);
    }
    for f in 0..frames {
        v.extend_from_slice(&[0xFF, 0xFB, 0x90, 0x00]);
        v.extend((0..413).map(|i| ((i + f) % 200) as u8));
    }
    v
}

fn bbox(typ: &[u8; 4], payload: &[u8]) -> Vec<u8> {
    let mut v = Vec::new();
    v.extend_from_slice(&((payload.len() + 8) as u32).to_be_bytes());
    v.extend_from_slice(typ);
    v.extend_from_slice(payload);
    v
}

fn bbox_large(typ: &[u8; 4], payload: &[u8]) -> Vec<u8> {
    let mut v = Vec::new();
    v.extend_from_slice(&1u32.to_be_bytes());
    v.extend_from_slice(typ);
    v.extend_from_slice(&((payload.len() + 16) as u64).to_be_bytes());
    v.extend_from_slice(payload);
    v
}

fn fullbox(typ: &[u8; 4], version: u8, flags: u32, payload: &[u8]) -> Vec<u8> {
    let mut p = vec![version, (flags >> 16) as u8, (flags >> 8) as u8, flags as u8];
    p.extend_from_slice(payload);
    bbox(typ, &p)
}

#[derive(Clone, Copy, Debug, PartialEq, Eq)]
pub enum Mp4Layout {
    /// ftyp moov mdat
    MoovFirst,
    /// ftyp mdat moov
    MdatFirst,
}

/// Minimal MP4: ftyp, moov(mvhd, trak(tkhd, mdia(mdhd, hdlr, minf(vmhd?, dinf, stbl(stsd, stts, stsc, stsz, stco|co64))))), mdat.
/// One track, one chunk holding `n_samples` samples of `sample_len` bytes; the chunk offset in
/// stco/co64 addresses the first payload byte of mdat.
pub fn tiny_mp4(layout: Mp4Layout, mdat_len: usize, co64: bool, large_mdat: bool) -> Vec<u8> {
    let ftyp = {
        let mut p = b"isom".to_vec();
        p.extend_from_slice(&0x200u32.to_be_bytes());
        p.extend_from_slice(b"isomiso2mp41");
        bbox(b"ftyp", &p)
    };
    let payload: Vec<u8> = (0..mdat_len).map(|i| (i * 31 % 253) as u8).collect();
    let mdat = if large_mdat { bbox_large(b"mdat", &payload) } else { bbox(b"mdat", &payload) };
    let mdat_hdr = if large_mdat { 16 } else { 8 };
    let build_moov = |chunk_off: u64| -> Vec<u8> {
        let mut mvhd = vec![0u8; 96];
        mvhd[8..12].copy_from_slice(&1000u32.to_be_bytes()); // timescale
        mvhd[12..16].copy_from_slice(&1000u32.to_be_bytes()); // duration
        mvhd[16..20].copy_from_slice(&0x0001_0000u32.to_be_bytes()); // rate
        mvhd[20..22].copy_from_slice(&0x0100u16.to_be_bytes()); // volume
        mvhd[32..36].copy_from_slice(&0x0001_0000u32.to_be_bytes());
        mvhd[48..52].copy_from_slice(&0x0001_0000u32.to_be_bytes());
        mvhd[64..68].copy_from_slice(&0x4000_0000u32.to_be_bytes());
        mvhd[92..96].copy_from_slice(&2u32.to_be_bytes()); // next track id
        let mvhd = fullbox(b"mvhd", 0, 0, &mvhd);
        let mut tkhd = vec![0u8; 80];
        tkhd[8..12].copy_from_slice(&1u32.to_be_bytes()); // track id
        tkhd[16..20].copy_from_slice(&1000u32.to_be_bytes());
        tkhd[36..40].copy_from_slice(&0x0001_0000u32.to_be_bytes());
        tkhd[52..56].copy_from_slice(&0x0001_0000u32.to_be_bytes());
        tkhd[68..72].copy_from_slice(&0x4000_0000u32.to_be_bytes());
        let tkhd = fullbox(b"tkhd", 0, 3, &tkhd);
        let mut mdhd = vec![0u8; 20];
        mdhd[8..12].copy_from_slice(&1000u32.to_be_bytes());
        mdhd[12..16].copy_from_slice(&1000u32.to_be_bytes());
        mdhd[16..18].copy_from_slice(&0x55C4u16.to_be_bytes());
        let mdhd = fullbox(b"mdhd", 0, 0, &mdhd);
        let mut hdlr = vec![0u8; 4];
        hdlr.extend_from_slice(b"soun");
        hdlr.extend_from_slice(&[0u8; 12]);
        hdlr.extend_from_slice(b"verif\0");
        let hdlr = fullbox(b"hdlr", 0, 0, &hdlr);
        let smhd = fullbox(b"smhd", 0, 0, &[0, 0, 0, 0]);
        let url = fullbox(b"url ", 0, 1, &[]);
        let mut dref = 1u32.to_be_bytes().to_vec();
        dref.extend(url);
        let dinf = bbox(b"dinf", &fullbox(b"dref", 0, 0, &dref));
        let stsd = fullbox(b"stsd", 0, 0, &0u32.to_be_bytes());
        let mut stts = 1u32.to_be_bytes().to_vec();
        stts.extend_from_slice(&1u32.to_be_bytes());
        stts.extend_from_slice(&1000u32.to_be_bytes());
        let stts = fullbox(b"stts", 0, 0, &stts);
        let mut stsc = 1u32.to_be_bytes().to_vec();
        stsc.extend_from_slice(&1u32.to_be_bytes());
        stsc.extend_from_slice(&1u32.to_be_bytes());
        stsc.extend_from_slice(&1u32.to_be_bytes());
        let stsc = fullbox(b"stsc", 0, 0, &stsc);
        let mut stsz = (mdat_len as u32).to_be_bytes().to_vec();
        stsz.extend_from_slice(&1u32.to_be_bytes());
        let stsz = fullbox(b"stsz", 0, 0, &stsz);
        let stco = if co64 {
            let mut p = 1u32.to_be_bytes().to_vec();
            p.extend_from_slice(&chunk_off.to_be_bytes());
            fullbox(b"co64", 0, 0, &p)
        } else {
            let mut p = 1u32.to_be_bytes().to_vec();
            p.extend_from_slice(&(chunk_off as u32).to_be_bytes());
            fullbox(b"stco", 0, 0, &p)
        };
        let mut stbl = stsd;
        stbl.extend(stts);
        stbl.extend(stsc);
        stbl.extend(stsz);
        stbl.extend(stco);
        let stbl = bbox(b"stbl", &stbl);
        let mut minf = smhd;
        minf.extend(dinf);
        minf.extend(stbl);
        let minf = bbox(b"minf", &minf);
        let mut mdia = mdhd;
        mdia.extend(hdlr);
        mdia.extend(minf);
        let mdia = bbox(b"mdia", &mdia);
        let mut trak = tkhd;
        trak.extend(mdia);
        let trak = bbox(b"trak", &trak);
        let mut moov = mvhd;
        moov.extend(trak);
        bbox(b"moov", &moov)
    };
    let moov_len = build_moov(0).len();
    let mut v = ftyp.clone();
    match layout {
        Mp4Layout::MoovFirst => {
            let off = (ftyp.len() + moov_len + mdat_hdr) as u64;
            v.extend(build_moov(off));
            v.extend(mdat);
        }
        Mp4Layout::MdatFirst => {
            let off = (ftyp.len() + mdat_hdr) as u64;
            v.extend(mdat);
            v.extend(build_moov(off));
        }
    }
    v
}

/// The standard set of tiny synthetic assets, one or more per writable format.
pub fn tiny_assets() -> Vec<Asset> {
    let xmp = "<?xpacket begin=\"\" id=\"W5M0MpCehiHzreSzNTczkc9d\"?><x:xmpmeta xmlns:x=\"adobe:ns:meta/\"><rdf:RDF xmlns:rdf=\"http://www.w3.org/1999/02/22-rdf-syntax-ns#\"><rdf:Description rdf:about=\"\" xmlns:dc=\"http://purl.org/dc/elements/1.1/\" dc:format=\"image/jpeg\"/></rdf:RDF></x:xmpmeta><?xpacket end=\"w\"?>";
    vec![
        Asset { name: "tiny.jpg".into(), format: "jpg", bytes: tiny_jpeg(None, false, &[]) },
        Asset { name: "tiny_xmp_rst.jpg".into(), format: "jpg", bytes: tiny_jpeg(Some(xmp), true, &[]) },
        Asset { name: "tiny.png".into(), format: "png", bytes: tiny_png(true, &[]) },
        Asset { name: "tiny.gif".into(), format: "gif", bytes: tiny_gif(true, &[]) },
        Asset { name: "tiny.wav".into(), format: "wav", bytes: tiny_wav(33, true) },
        Asset { name: "tiny.tif".into(), format: "tif", bytes: tiny_tiff(37) },
        Asset { name: "tiny.svg".into(), format: "svg", bytes: tiny_svg() },
        Asset { name: "tiny.mp3".into(), format: "mp3", bytes: tiny_mp3(2, true) },
        Asset { name: "tiny.mp4".into(), format: "mp4", bytes: tiny_mp4(Mp4Layout::MoovFirst, 64, false, false) },
        Asset { name: "tiny_mdatfirst.mp4".into(), format: "mp4", bytes: tiny_mp4(Mp4Layout::MdatFirst, 64, true, false) },
    ]
}

/// Fixtures small enough for sweeps, by (file, format hint).
pub const SMALL_FIXTURES: &[(&str, &str)] = &[
    ("libpng-test.png", "png"),
    ("test.webp", "webp"),
    ("sample1.svg", "svg"),
    ("IMG_0003.jpg", "jpg"),
    ("no_manifest.jpg", "jpg"),
    ("sample1.avif", "avif"),
    ("sample1.heif", "heif"),
    ("sample1.webp", "webp"),
    ("TUSCANY.TIF", "tif"),
    ("sample1.gif", "gif"),
    ("sample1.wav", "wav"),
    ("sample1.mp3", "mp3"),
    ("video1.mp4", "mp4"),
    ("sample1.flac", "flac"),
    ("sample1.jxl", "jxl"),
    ("sample1.avi", "avi"),
    ("test.avi", "avi"),
];

pub fn fixture_assets(max_len: usize) -> Vec<Asset> {
    let mut out = Vec::new();
    for (name, fmt) in SMALL_FIXTURES {
        if let Some(b) = fixture(name) {
            if b.len() <= max_len {
                out.push(Asset { name: name.to_string(), format: fmt, bytes: b });
            }
        }
    }
    out
}

pub fn random_bytes(rng: &mut Rng, n: usize) -> Vec<u8> {
    rng.bytes(n)
}
