#![allow(unexpected_cfgs)]
fn main() {
    println!("stub {}", c2pa_c::utils::verif_hooks::registry_len());
}
