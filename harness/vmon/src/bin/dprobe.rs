//! Scratch diagnostic probe (grpD): prints raw reports for a fixture under two hints.
use c2pa::{Context, Reader};
use std::io::Cursor;
use vmon::{assets, signers};
fn main() {
    let a: Vec<String> = std::env::args().collect();
    let b = assets::fixture(&a[1]).unwrap();
    let s = serde_json::json!({"verify": {"verify_trust": true, "remote_manifest_fetch": false}, "trust": {"trust_anchors": signers::trust_anchors_pem()}}).to_string();
    for h in &a[2..] {
        let ctx = Context::new().with_settings(s.as_str()).unwrap();
        match Reader::from_context(ctx).with_stream(h, Cursor::new(b.clone())) {
            Ok(r) => { std::fs::write(format!("/tmp/grpD-{}.json", h.replace('/', "_")), r.json()).unwrap(); println!("{h}: {:?}", r.validation_state()); }
            Err(e) => println!("{h}: {e:?}"),
        }
    }
}
