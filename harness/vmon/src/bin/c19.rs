//! C19 — ingredient-graph validation terminates (polynomial work, no stack overflow) and never
//! reports a cyclic, dangling or over-deep ingredient graph as Valid.
//!
//! Generator ground truth: a directed multigraph over manifests (node n-1 = active manifest) plus a
//! "missing" target.  Stores are crafted through the `craft_store` hook: every manifest genuinely
//! signed, all assertion hashes correct, every edge to an already-built manifest carries the correct
//! manifest-box/signature-box hashes (so in an acyclic graph *only the shape* can be wrong; a cycle
//! necessarily has >= 1 edge with a wrong hash unless the hash comparison is bypassed, which the
//! "bypass" family does with claim-v1 manifests that list redactions for each other).
//!
//! Oracle (from the statement): bad = cycle reachable from the active manifest ∨ reachable dangling
//! reference ∨ longest chain > limit  ⇒  state ∉ {Valid, Trusted}.  Termination / work: every read
//! runs in a child process on a thread with a 2 MiB stack (crash = witness); the progress callback
//! counts `VerifyingIngredient` steps and cancels past a polynomial budget; allocation counts and
//! callback counts over n ∈ {10,20,40,80,160,300} must satisfy f(2n)/f(n) <= 4.5.
use c2pa::verif_hooks::ext_store::{craft_store, CraftAction, CraftEdge, CraftManifest, CraftSpec};
use c2pa::{ProgressPhase, Reader};
use serde::{Deserialize, Serialize};
use serde_json::{json, Value};
use std::alloc::{GlobalAlloc, Layout, System};
use std::collections::BTreeMap;
use std::io::{BufRead, BufReader, Cursor, Write};
use std::sync::atomic::{AtomicU64, Ordering};
use std::sync::Arc;
use vmon::storegen as sg;
use vmon::{assets, par, report, signers, Rng, Run};

// ---- counting allocator (only this binary) -------------------------------------------------------
struct Counting;
static ALLOCS: AtomicU64 = AtomicU64::new(0);
static ALLOC_BYTES: AtomicU64 = AtomicU64::new(0);
unsafe impl GlobalAlloc for Counting {
    unsafe fn alloc(&self, l: Layout) -> *mut u8 {
        ALLOCS.fetch_add(1, Ordering::Relaxed);
        ALLOC_BYTES.fetch_add(l.size() as u64, Ordering::Relaxed);
        System.alloc(l)
    }
    unsafe fn dealloc(&self, p: *mut u8, l: Layout) {
        System.dealloc(p, l)
    }
    unsafe fn realloc(&self, p: *mut u8, l: Layout, n: usize) -> *mut u8 {
        ALLOCS.fetch_add(1, Ordering::Relaxed);
        ALLOC_BYTES.fetch_add(n as u64, Ordering::Relaxed);
        System.realloc(p, l, n)
    }
}
#[global_allocator]
static GLOBAL: Counting = Counting;

const MISSING: i64 = -1;
/// Documented limit on ingredient chain depth (manifests on one chain).
const LIMIT: usize = 200;
const RELS: [&str; 3] = ["parentOf", "componentOf", "inputTo"];

#[derive(Clone, Debug, Serialize, Deserialize)]
struct Case {
    id: usize,
    family: String,
    n: usize,
    /// edges[u] = list of (target node or -1 = missing manifest, relationship index)
    edges: Vec<Vec<(i64, u8)>>,
    /// build order (a permutation of 0..n with n-1 last)
    order: Vec<usize>,
    embed: bool,
    /// claim v1 manifests that list a redaction for every manifest they point to (hash comparison bypass)
    bypass: bool,
    /// callback budget; 0 = none
    budget: u64,
}

#[derive(Clone, Debug, Default, Serialize, Deserialize)]
struct Obs {
    id: usize,
    craft_error: Option<String>,
    wrong_edges: usize,
    state: String,
    error: Option<String>,
    failures: Vec<String>,
    callbacks: u64,
    ingredient_callbacks: u64,
    cancelled_by_budget: bool,
    allocs: u64,
    alloc_bytes: u64,
    store_len: usize,
    cpu_ms: u64,
}

// ---- ground truth ---------------------------------------------------------------------------------
#[derive(Clone, Debug, Default)]
struct Truth {
    cycle: bool,
    dangling: bool,
    /// longest chain in manifests (only meaningful when !cycle)
    depth: usize,
    reachable: usize,
    multi_parent: bool,
    unreachable_cycle: bool,
}

fn truth(c: &Case) -> Truth {
    let n = c.n;
    let mut t = Truth::default();
    // reachability from the active manifest
    let mut reach = vec![false; n];
    let mut stack = vec![n - 1];
    reach[n - 1] = true;
    while let Some(u) = stack.pop() {
        for (v, _) in &c.edges[u] {
            if *v == MISSING {
                t.dangling = true;
            } else if !reach[*v as usize] {
                reach[*v as usize] = true;
                stack.push(*v as usize);
            }
        }
    }
    t.reachable = reach.iter().filter(|x| **x).count();
    for u in 0..n {
        if reach[u] && c.edges[u].iter().filter(|e| e.1 == 0).count() > 1 {
            t.multi_parent = true;
        }
    }
    // cycle detection (iterative colouring) over the whole graph, then restricted to reachable
    let cyc = |only_reach: bool| -> bool {
        let mut indeg = vec![0usize; n];
        let inc = |u: usize| !only_reach || reach[u];
        for u in 0..n {
            if !inc(u) {
                continue;
            }
            for (v, _) in &c.edges[u] {
                if *v >= 0 && inc(*v as usize) {
                    indeg[*v as usize] += 1;
                }
            }
        }
        let mut q: Vec<usize> = (0..n).filter(|u| inc(*u) && indeg[*u] == 0).collect();
        let mut seen = 0;
        while let Some(u) = q.pop() {
            seen += 1;
            for (v, _) in &c.edges[u] {
                if *v >= 0 && inc(*v as usize) {
                    indeg[*v as usize] -= 1;
                    if indeg[*v as usize] == 0 {
                        q.push(*v as usize);
                    }
                }
            }
        }
        seen != (0..n).filter(|u| inc(*u)).count()
    };
    t.cycle = cyc(true);
    t.unreachable_cycle = !t.cycle && cyc(false);
    if !t.cycle {
        // longest path (in manifests) from the active node, memoised DFS without recursion limits issues (n <= 300)
        let mut memo = vec![0usize; n];
        fn lp(u: usize, c: &Case, memo: &mut Vec<usize>) -> usize {
            if memo[u] != 0 {
                return memo[u];
            }
            let mut best = 1;
            for (v, _) in &c.edges[u] {
                if *v >= 0 {
                    best = best.max(1 + lp(*v as usize, c, memo));
                }
            }
            memo[u] = best;
            best
        }
        t.depth = std::thread::scope(|s| {
            std::thread::Builder::new().stack_size(64 << 20).spawn_scoped(s, || lp(n - 1, c, &mut memo)).unwrap().join().unwrap()
        });
    }
    t
}

// ---- case -> spec ---------------------------------------------------------------------------------
fn spec_of(c: &Case) -> CraftSpec {
    let mut ms = Vec::new();
    for &u in &c.order {
        let mut edges = Vec::new();
        let mut actions = Vec::new();
        let parent = c.edges[u].iter().position(|e| e.1 == 0);
        match parent {
            Some(p) => actions.push(CraftAction { action: "c2pa.opened".into(), edges: vec![p], source_type_empty: false }),
            None => actions.push(CraftAction { action: "c2pa.created".into(), edges: vec![], source_type_empty: true }),
        }
        let mut redactions = Vec::new();
        for (ei, (v, r)) in c.edges[u].iter().enumerate() {
            let target = if *v == MISSING { format!("urn:c2pa:00000000-dead-4bad-8bad-{:012x}", u * 16 + ei) } else { format!("m{v}") };
            edges.push(CraftEdge {
                target: target.clone(),
                relationship: RELS[*r as usize].into(),
                hash: "correct".into(),
                version: if c.bypass { 2 } else { 3 },
                no_manifest_ref: false,
            });
            if Some(ei) != parent {
                actions.push(CraftAction { action: if *r == 1 { "c2pa.placed".into() } else { "c2pa.edited".into() }, edges: vec![ei], source_type_empty: false });
            }
            if c.bypass && *v != MISSING && *v as usize != u {
                redactions.push(format!("self#jumbf=/c2pa/{{m{v}}}/c2pa.assertions/org.verif.note"));
            }
        }
        redactions.dedup();
        ms.push(CraftManifest {
            key: format!("m{u}"),
            claim_version: if c.bypass { 1 } else { 2 },
            update: false,
            edges,
            actions,
            json_assertions: vec![("org.verif.note".into(), format!("{{\"node\":{u}}}"))],
            hard_binding: true,
            real_binding: false,
            thumbnail: false,
            redactions,
            remove_after_sign: vec![],
        });
    }
    CraftSpec { manifests: ms, embed: c.embed }
}

// ---- child side -----------------------------------------------------------------------------------
fn run_case(c: &Case) -> Obs {
    let mut o = Obs { id: c.id, ..Default::default() };
    let asset = assets::tiny_jpeg(None, false, &[]);
    let signer = signers::test_signer("ed25519");
    let spec = spec_of(c);
    let craft_ctx = sg::context(&json!({"verify": {"verify_after_sign": false}}));
    let crafted = match report::catch_sdk(|| craft_store(&spec, signer.as_ref(), "image/jpeg", &asset, &craft_ctx)) {
        Ok(Ok(x)) => x,
        Ok(Err(e)) => {
            o.craft_error = Some(format!("{e:?}"));
            return o;
        }
        Err(p) => {
            o.craft_error = Some(format!("panic: {p}"));
            return o;
        }
    };
    o.wrong_edges = crafted.edge_hash_used.iter().flatten().filter(|m| *m != "correct").count();
    o.store_len = crafted.store.len();
    let total = Arc::new(AtomicU64::new(0));
    let ingr = Arc::new(AtomicU64::new(0));
    let cancelled = Arc::new(AtomicU64::new(0));
    let (t2, i2, c2) = (total.clone(), ingr.clone(), cancelled.clone());
    let budget = c.budget;
    let ctx = sg::context(&json!({})).with_progress_callback(move |phase, _s, _t| {
        let k = t2.fetch_add(1, Ordering::Relaxed) + 1;
        if matches!(phase, ProgressPhase::VerifyingIngredient) {
            i2.fetch_add(1, Ordering::Relaxed);
        }
        if budget > 0 && k > budget {
            c2.store(1, Ordering::Relaxed);
            return false;
        }
        true
    });
    let embed = c.embed;
    // the read runs on a thread with a 2 MiB stack (what a non-main-thread caller gets by default);
    // counters are sampled around the Reader construction only (not around the harness's report handling)
    let h = std::thread::Builder::new().stack_size(2 << 20).spawn(move || {
        let (a0, b0) = (ALLOCS.load(Ordering::Relaxed), ALLOC_BYTES.load(Ordering::Relaxed));
        let cpu0 = cpu_ms();
        let mut meas = (0u64, 0u64, 0u64);
        let r = report::catch_sdk(|| {
            let r = if embed {
                Reader::from_context(ctx).with_stream("image/jpeg", Cursor::new(crafted.asset.clone()))
            } else {
                Reader::from_context(ctx).with_manifest_data_and_stream(&crafted.store, "image/jpeg", Cursor::new(crafted.asset.clone()))
            };
            meas = (ALLOCS.load(Ordering::Relaxed) - a0, ALLOC_BYTES.load(Ordering::Relaxed) - b0, cpu_ms().saturating_sub(cpu0));
            report::outcome_of(r)
        });
        (r, meas)
    });
    let (res, meas) = match h.expect("spawn").join() {
        Ok((r, m)) => (Ok(r), m),
        Err(e) => (Err(e), (0, 0, 0)),
    };
    o.allocs = meas.0;
    o.alloc_bytes = meas.1;
    o.cpu_ms = meas.2;
    o.callbacks = total.load(Ordering::Relaxed);
    o.ingredient_callbacks = ingr.load(Ordering::Relaxed);
    o.cancelled_by_budget = cancelled.load(Ordering::Relaxed) != 0;
    match res {
        Ok(Ok(out)) => {
            o.state = out.state.clone();
            o.error = out.error.clone();
            o.failures = out.failure_codes();
        }
        Ok(Err(p)) => {
            o.state = "Panic".into();
            o.error = Some(p);
        }
        Err(_) => {
            o.state = "Panic".into();
            o.error = Some("thread panicked".into());
        }
    }
    o
}

fn cpu_ms() -> u64 {
    unsafe {
        let mut ts: libc::timespec = std::mem::zeroed();
        libc::clock_gettime(libc::CLOCK_PROCESS_CPUTIME_ID, &mut ts);
        ts.tv_sec as u64 * 1000 + ts.tv_nsec as u64 / 1_000_000
    }
}

fn child_main(path: &str) {
    report::quiet_panics();
    let cases: Vec<Case> = serde_json::from_slice(&std::fs::read(path).expect("case file")).expect("cases");
    let out = std::io::stdout();
    for c in cases {
        {
            let mut l = out.lock();
            let _ = writeln!(l, "START {}", c.id);
            let _ = l.flush();
        }
        let o = run_case(&c);
        let mut l = out.lock();
        let _ = writeln!(l, "OBS {}", serde_json::to_string(&o).unwrap());
        let _ = l.flush();
    }
}

// ---- parent side ----------------------------------------------------------------------------------
enum ChildEnd {
    Obs(Obs),
    Crashed(String),
    /// killed by the wall-clock watchdog; `cpu_ms` = CPU time (user+system, from /proc) the child had
    /// consumed at that moment — a counter, not a clock: a starved child shows little CPU
    TimedOut { cpu_ms: u64 },
}

fn proc_cpu_ms(pid: u32) -> u64 {
    let Ok(s) = std::fs::read_to_string(format!("/proc/{pid}/stat")) else { return 0 };
    // fields after the parenthesised command name: state is field 3; utime = 14, stime = 15
    let Some(rest) = s.rsplit_once(')').map(|x| x.1) else { return 0 };
    let f: Vec<&str> = rest.split_whitespace().collect();
    let ticks: u64 = f.get(11).and_then(|x| x.parse::<u64>().ok()).unwrap_or(0) + f.get(12).and_then(|x| x.parse::<u64>().ok()).unwrap_or(0);
    let hz = unsafe { libc::sysconf(libc::_SC_CLK_TCK) }.max(1) as u64;
    ticks * 1000 / hz
}

/// Runs `cases` in child processes (one child per shard; a crash loses only the case that was running).
fn run_in_children(cases: &[Case], shard: usize, timeout_s: u64) -> BTreeMap<usize, ChildEnd> {
    let exe = std::env::current_exe().expect("exe");
    let shards: Vec<Vec<Case>> = cases.chunks(shard.max(1)).map(|c| c.to_vec()).collect();
    let results = par::par_map(shards.len(), |si| {
        let mut out: Vec<(usize, ChildEnd)> = Vec::new();
        let mut rest: Vec<Case> = shards[si].clone();
        while !rest.is_empty() {
            let dir = tempfile::tempdir().expect("tmp");
            let f = dir.path().join("cases.json");
            std::fs::write(&f, serde_json::to_vec(&rest).unwrap()).unwrap();
            let mut child = std::process::Command::new(&exe)
                .arg("--child")
                .arg(&f)
                .stdout(std::process::Stdio::piped())
                .stderr(std::process::Stdio::null())
                .spawn()
                .expect("spawn child");
            let pid = child.id();
            let stdout = child.stdout.take().unwrap();
            // watchdog: kill the child if it runs longer than timeout_s * (cases in shard)
            let limit = std::time::Duration::from_secs(timeout_s * rest.len() as u64 + 30);
            let done = Arc::new(std::sync::atomic::AtomicBool::new(false));
            let d2 = done.clone();
            let killed = Arc::new(std::sync::atomic::AtomicBool::new(false));
            let k2 = killed.clone();
            let cpu_at_kill = Arc::new(std::sync::atomic::AtomicU64::new(0));
            let c2 = cpu_at_kill.clone();
            let wd = std::thread::spawn(move || {
                let t0 = std::time::Instant::now();
                while !d2.load(Ordering::Relaxed) {
                    if t0.elapsed() > limit {
                        c2.store(proc_cpu_ms(pid), Ordering::Relaxed);
                        k2.store(true, Ordering::Relaxed);
                        unsafe {
                            libc::kill(pid as i32, libc::SIGKILL);
                        }
                        break;
                    }
                    std::thread::sleep(std::time::Duration::from_millis(100));
                }
            });
            let mut running: Option<usize> = None;
            let mut finished: Vec<usize> = Vec::new();
            for line in BufReader::new(stdout).lines().map_while(Result::ok) {
                if let Some(id) = line.strip_prefix("START ") {
                    running = id.trim().parse().ok();
                } else if let Some(j) = line.strip_prefix("OBS ") {
                    if let Ok(o) = serde_json::from_str::<Obs>(j) {
                        finished.push(o.id);
                        running = None;
                        out.push((o.id, ChildEnd::Obs(o)));
                    }
                }
            }
            let status = child.wait().ok();
            done.store(true, Ordering::Relaxed);
            let _ = wd.join();
            rest.retain(|c| !finished.contains(&c.id));
            if let Some(id) = running {
                let end = if killed.load(Ordering::Relaxed) {
                    ChildEnd::TimedOut { cpu_ms: cpu_at_kill.load(Ordering::Relaxed) }
                } else {
                    ChildEnd::Crashed(format!("{:?}", status))
                };
                out.push((id, end));
                rest.retain(|c| c.id != id);
            } else if !rest.is_empty() && finished.is_empty() {
                // child died before starting anything: harness problem, give up on this shard
                for c in &rest {
                    out.push((c.id, ChildEnd::Crashed(format!("child exited early: {:?}", status))));
                }
                rest.clear();
            }
        }
        out
    });
    results.into_iter().flatten().collect()
}

// ---- generators -----------------------------------------------------------------------------------
fn default_order(n: usize) -> Vec<usize> {
    (0..n).collect()
}

/// Topological build order (targets before sources, active last) for a DAG; None if cyclic.
fn topo_order(n: usize, edges: &[Vec<(i64, u8)>]) -> Option<Vec<usize>> {
    let mut state = vec![0u8; n];
    let mut order = Vec::new();
    // iterative DFS post-order from every node, active node last
    for root in (0..n).rev().collect::<Vec<_>>().into_iter().rev() {
        if state[root] != 0 {
            continue;
        }
        let mut st: Vec<(usize, usize)> = vec![(root, 0)];
        state[root] = 1;
        while let Some((u, i)) = st.pop() {
            if i < edges[u].len() {
                st.push((u, i + 1));
                let v = edges[u][i].0;
                if v >= 0 {
                    let v = v as usize;
                    if state[v] == 1 {
                        return None;
                    }
                    if state[v] == 0 {
                        state[v] = 1;
                        st.push((v, 0));
                    }
                }
            } else {
                state[u] = 2;
                order.push(u);
            }
        }
    }
    // move the active node to the end (it has no incoming edges from later nodes in a DAG where it is a source;
    // if something points to the active node that something is built after it and gets a wrong hash — only
    // possible when the active node is not a source, which the truth function reports as usual)
    order.retain(|u| *u != n - 1);
    order.push(n - 1);
    Some(order)
}

fn multisets(targets: &[i64]) -> Vec<Vec<i64>> {
    let mut out = vec![vec![]];
    for a in targets {
        out.push(vec![*a]);
    }
    for (i, a) in targets.iter().enumerate() {
        for b in &targets[i..] {
            out.push(vec![*a, *b]);
        }
    }
    out
}

fn exhaustive_cases(quick: bool, seed: u64) -> Vec<Case> {
    let mut out = Vec::new();
    let mut rng = Rng::new(seed, "c19rel");
    for n in 1..=4usize {
        let with_missing = n <= 3;
        let mut targets: Vec<i64> = (0..n as i64).collect();
        if with_missing {
            targets.push(MISSING);
        }
        let ms = multisets(&targets);
        let mut idx = vec![0usize; n];
        let mut seen: std::collections::BTreeSet<Vec<Vec<i64>>> = Default::default();
        loop {
            let g: Vec<Vec<i64>> = idx.iter().map(|i| ms[*i].clone()).collect();
            // canonical form under permutations of the non-active nodes; skip graphs with unreachable nodes
            let keep = {
                let mut reach = vec![false; n];
                let mut st = vec![n - 1];
                reach[n - 1] = true;
                while let Some(u) = st.pop() {
                    for v in &g[u] {
                        if *v >= 0 && !reach[*v as usize] {
                            reach[*v as usize] = true;
                            st.push(*v as usize);
                        }
                    }
                }
                reach.iter().all(|x| *x)
            };
            if keep {
                let canon = canonical(&g);
                if seen.insert(canon) {
                    // relationships: rotate, at most one parentOf per manifest unless this is the multi-parent variant
                    let reps = if quick { 1 } else { 3 };
                    for rep in 0..reps {
                        let edges: Vec<Vec<(i64, u8)>> = g
                            .iter()
                            .map(|ts| {
                                let mut have_parent = false;
                                ts.iter()
                                    .map(|t| {
                                        let mut r = (rng.below(3) as u8 + rep as u8) % 3;
                                        if r == 0 {
                                            if have_parent {
                                                r = 1 + rng.below(2) as u8;
                                            } else {
                                                have_parent = true;
                                            }
                                        }
                                        (*t, r)
                                    })
                                    .collect()
                            })
                            .collect();
                        let order = match topo_order(n, &edges) {
                            Some(o) => o,
                            None => {
                                // cyclic: rotate which node is built first (=> which edges get wrong hashes)
                                let k = out.len() % n.max(1);
                                let mut o: Vec<usize> = (0..n - 1).collect();
                                if !o.is_empty() {
                                    let kk = k % o.len();
                                    o.rotate_left(kk);
                                }
                                o.push(n - 1);
                                o
                            }
                        };
                        out.push(Case { id: 0, family: format!("exhaustive-n{n}"), n, edges, order, embed: out.len() % 7 == 3, bypass: false, budget: 0 });
                    }
                }
            }
            // next index vector
            let mut k = 0;
            loop {
                if k == n {
                    break;
                }
                idx[k] += 1;
                if idx[k] < ms.len() {
                    break;
                }
                idx[k] = 0;
                k += 1;
            }
            if k == n {
                break;
            }
        }
    }
    out
}

fn canonical(g: &[Vec<i64>]) -> Vec<Vec<i64>> {
    let n = g.len();
    let mut best: Option<Vec<Vec<i64>>> = None;
    let mut perm: Vec<usize> = (0..n.saturating_sub(1)).collect();
    // all permutations of the non-active nodes (<= 3! = 6)
    fn permute(k: usize, perm: &mut Vec<usize>, f: &mut dyn FnMut(&[usize])) {
        if k == perm.len() {
            f(perm);
            return;
        }
        for i in k..perm.len() {
            perm.swap(k, i);
            permute(k + 1, perm, f);
            perm.swap(k, i);
        }
    }
    let mut f = |p: &[usize]| {
        // p[old] = new index for old in 0..n-1 ; active stays
        let map = |v: i64| -> i64 {
            if v < 0 || v as usize == n - 1 {
                v
            } else {
                p[v as usize] as i64
            }
        };
        let mut h = vec![vec![]; n];
        for (u, ts) in g.iter().enumerate() {
            let nu = if u == n - 1 { u } else { p[u] };
            let mut t: Vec<i64> = ts.iter().map(|v| map(*v)).collect();
            t.sort();
            h[nu] = t;
        }
        if best.as_ref().map(|b| h < *b).unwrap_or(true) {
            best = Some(h);
        }
    };
    permute(0, &mut perm, &mut f);
    best.unwrap_or_default()
}

fn chain(n: usize, rel: u8) -> Vec<Vec<(i64, u8)>> {
    // node i -> i-1 ; node n-1 active
    (0..n).map(|i| if i == 0 { vec![] } else { vec![((i - 1) as i64, rel)] }).collect()
}

fn ladder(n: usize) -> Vec<Vec<(i64, u8)>> {
    // levels of two nodes, each pointing to both nodes of the level below; a single active root on top
    let levels = (n - 1) / 2;
    let mut e: Vec<Vec<(i64, u8)>> = vec![vec![]; 2 * levels + 1];
    for l in 1..levels {
        for k in 0..2 {
            e[2 * l + k] = vec![((2 * (l - 1)) as i64, 1 + k as u8 % 2), ((2 * (l - 1) + 1) as i64, 2)];
        }
    }
    let top = 2 * levels;
    if levels > 0 {
        e[top] = vec![((2 * (levels - 1)) as i64, 1), ((2 * (levels - 1) + 1) as i64, 2)];
    }
    e
}

fn fib(n: usize) -> Vec<Vec<(i64, u8)>> {
    (0..n)
        .map(|i| match i {
            0 => vec![],
            1 => vec![(0, 1)],
            _ => vec![((i - 1) as i64, 0), ((i - 2) as i64, 2)],
        })
        .collect()
}

fn random_graph(rng: &mut Rng, n: usize) -> (String, Vec<Vec<(i64, u8)>>) {
    let kind = rng.below(6);
    let mut e: Vec<Vec<(i64, u8)>> = vec![vec![]; n];
    let name;
    match kind {
        0 | 1 => {
            // DAG with heavy sharing: node i points to up to 3 lower nodes within a window (bounded depth)
            name = "dag-shared";
            let width = 3 + rng.usize(12);
            for i in 1..n {
                let k = 1 + rng.usize(3);
                let level = i / width;
                if level == 0 {
                    continue;
                }
                for _ in 0..k {
                    let t = (level - 1) * width + rng.usize(width);
                    e[i].push((t as i64, 1 + rng.below(2) as u8));
                }
            }
            // active points to the whole top level
            let top = ((n - 1) / width) * width;
            for t in top.saturating_sub(width)..(n - 1).min(top + width) {
                if t != n - 1 {
                    e[n - 1].push((t as i64, 1 + rng.below(2) as u8));
                }
            }
        }
        2 => {
            name = "dag+back-edge";
            let width = 2 + rng.usize(8);
            for i in width..n {
                let level = i / width;
                let t = (level - 1) * width + rng.usize(width);
                e[i].push((t as i64, if rng.bool() { 0 } else { 2 }));
            }
            for t in (n - 1).saturating_sub(width)..n - 1 {
                e[n - 1].push((t as i64, 2));
            }
            // one back edge reachable only through inputTo links
            let a = rng.usize(n);
            let b = a + rng.usize(n - a);
            e[a].push((b as i64, 2));
        }
        3 => {
            name = "dag+dangling";
            let width = 2 + rng.usize(8);
            for i in width..n {
                let level = i / width;
                let t = (level - 1) * width + rng.usize(width);
                e[i].push((t as i64, 1 + rng.below(2) as u8));
            }
            for t in (n - 1).saturating_sub(width)..n - 1 {
                e[n - 1].push((t as i64, 1));
            }
            let a = rng.usize(n);
            e[a].push((MISSING, rng.below(3) as u8));
        }
        4 => {
            name = "long-cycle";
            for i in 1..n {
                e[i].push(((i - 1) as i64, 2));
            }
            e[0].push(((n - 1 - rng.usize(n.min(3))) as i64, 2));
        }
        _ => {
            name = "random-sparse";
            for i in 0..n {
                for _ in 0..rng.usize(3) {
                    e[i].push((rng.usize(n) as i64, 1 + rng.below(2) as u8));
                }
            }
        }
    }
    // at most one parentOf per node
    for es in e.iter_mut() {
        let mut seen = false;
        for x in es.iter_mut() {
            if x.1 == 0 {
                if seen {
                    x.1 = 1;
                }
                seen = true;
            }
        }
    }
    (name.into(), e)
}

fn mk(family: &str, edges: Vec<Vec<(i64, u8)>>, embed: bool, bypass: bool, budget: u64) -> Case {
    let n = edges.len();
    let order = topo_order(n, &edges).unwrap_or_else(|| default_order(n));
    Case { id: 0, family: family.into(), n, edges, order, embed, bypass, budget }
}

// ---- oracle ---------------------------------------------------------------------------------------
fn graph_class(t: &Truth) -> &'static str {
    if t.cycle {
        "cycle"
    } else if t.dangling {
        "dangling"
    } else if t.depth > LIMIT + 1 {
        "deep"
    } else if t.depth >= LIMIT {
        "depth-boundary"
    } else {
        "dag"
    }
}

fn size_class(n: usize) -> &'static str {
    match n {
        0..=4 => "n<=4",
        5..=40 => "n<=40",
        41..=160 => "n<=160",
        _ => "n<=300",
    }
}

fn rel_class(c: &Case) -> String {
    let mut s = std::collections::BTreeSet::new();
    for es in &c.edges {
        for e in es {
            s.insert(RELS[e.1 as usize]);
        }
    }
    s.into_iter().collect::<Vec<_>>().join("+")
}

fn case_json(c: &Case) -> Value {
    serde_json::to_value(c).unwrap_or(Value::Null)
}

fn main() {
    let args: Vec<String> = std::env::args().collect();
    if let Some(i) = args.iter().position(|a| a == "--child") {
        child_main(&args[i + 1]);
        return;
    }
    let mut run = Run::from_args("C19", "exploration");
    report::quiet_panics();
    run.rule = "cases = every directed multigraph on <=4 manifests with <=2 out-edges per manifest (self loops, parallel edges; plus a 'missing manifest' target for n<=3), up to relabelling of the non-active manifests and with every manifest reachable from the active one; relationship per edge rotated over parentOf/componentOf/inputTo; plus seeded random graphs up to 300 manifests (shared DAGs, DAG+back edge, DAG+dangling, long cycles, sparse random), chains of 190..212 manifests, hash-comparison-bypass cycles (claim v1 + mutual redactions), read as side-car store and embedded in a JPEG; scaling series n in {10,20,40,80,160,300} for chain/ladder/fibonacci DAGs. Non-trivial+distinct = distinct (graph class, size class, relationships, route, outcome).".into();
    run.assumptions = vec![
        "ground truth (cycle / dangling / longest chain) is computed by the harness on the generator's graph, restricted to what is reachable from the active manifest; cycles among unreachable manifests are generated but not judged".into(),
        format!("depth limit = {LIMIT} manifests on one chain; chains of {LIMIT}..{} manifests are boundary cases and not judged", LIMIT + 1),
        "stores are crafted with the crate's own Claim/Store API through the craft_store hook; a craft failure is a harness problem (inconclusive), never a violation".into(),
        "acyclic, complete, shallow graphs with <=1 parentOf per manifest are controls: they are expected to read Valid/Trusted; a control that does not is reported (counter control_not_valid) and makes the run inconclusive when frequent, it is not a violation of the statement".into(),
    ];

    let quick = run.quick();
    let mut cases: Vec<Case> = Vec::new();

    if let Some(p) = run.replay.clone() {
        let v: Value = serde_json::from_slice(&std::fs::read(&p).expect("replay file")).expect("json");
        let mut c: Case = serde_json::from_value(v["witness"]["case"].clone()).expect("case");
        c.id = 0;
        cases.push(c);
    } else {
        cases.extend(exhaustive_cases(quick, run.seed));
        run.set("exhaustive_cases", json!(cases.len()));
        // chains around the limit, every relationship
        let lens: Vec<usize> = if quick { vec![150, 198, 199, 200, 201, 202, 203, 212] } else { (188..=214).collect() };
        for (k, l) in lens.iter().enumerate() {
            for rel in 0..3u8 {
                if quick && (k + rel as usize) % 3 != 0 && ![199usize, 202].contains(l) {
                    continue;
                }
                cases.push(mk("chain", chain(*l, rel), rel == 1 && *l == 202, false, 0));
            }
        }
        // a deep chain hanging below a wide top (over-deep only through one branch)
        {
            let mut e = chain(205, 2);
            let n = e.len();
            e.push(vec![((n - 1) as i64, 1)]);
            e.push(vec![(n as i64, 1), (0, 2)]);
            cases.push(mk("chain-branch", e, false, false, 0));
        }
        // random graphs
        let mut rng = Rng::new(run.seed, "c19rand");
        let n_rand = run.tier.pick(60, 600);
        for k in 0..n_rand {
            let n = match k % 4 {
                0 => 5 + rng.usize(20),
                1 => 20 + rng.usize(60),
                2 => 80 + rng.usize(100),
                _ => 200 + rng.usize(101),
            };
            let (name, e) = random_graph(&mut rng, n);
            let nn = e.len() as u64;
            cases.push(mk(&format!("random:{name}"), e, k % 5 == 0, false, 400 * nn * nn + 10_000));
        }
        // hash-comparison bypass: cycles of claim-v1 manifests listing redactions for each other
        for len in 2..=5usize {
            for rel in 0..3u8 {
                let mut e: Vec<Vec<(i64, u8)>> = (0..len).map(|i| vec![(((i + 1) % len) as i64, rel)]).collect();
                cases.push(mk("bypass-cycle", e.clone(), false, true, 0));
                // the cycle below an acyclic active manifest
                e.push(vec![(0, rel)]);
                cases.push(mk("bypass-cycle-below", e, false, true, 0));
            }
        }
        // bypass controls: acyclic chains of claim-v1 manifests with the same redaction lists
        for rel in 0..3u8 {
            cases.push(mk("bypass-control-chain", chain(3, rel), false, true, 0));
        }
    }
    for (i, c) in cases.iter_mut().enumerate() {
        c.id = i;
    }

    let obs = run_in_children(&cases, run.tier.pick(64, 64), 20);
    let mut controls = 0u64;
    let mut controls_ok = 0u64;
    for c in &cases {
        run.eval();
        let t = truth(c);
        let gc = graph_class(&t);
        let route = if c.embed { "embedded" } else { "sidecar" };
        let sig_base = format!("{}{}|{}|{}", gc, if c.bypass { "+hash-bypass" } else { "" }, size_class(c.n), rel_class(c));
        match obs.get(&c.id) {
            None => run.inconclusive(format!("no observation for case {} ({})", c.id, c.family)),
            Some(ChildEnd::TimedOut { .. }) => {
                run.inconclusive(format!("watchdog killed the child on a {} graph (n={}, family {})", gc, c.n, c.family));
                run.sample("watchdog", 2, case_json(c));
            }
            Some(ChildEnd::Crashed(st)) => {
                run.violation(&format!("{}|crash", sig_base), &format!("child process died ({st}) while crafting/reading a {gc} graph with n={} (2 MiB reader stack)", c.n), json!({"case": case_json(c)}));
            }
            Some(ChildEnd::Obs(o)) => {
                if let Some(e) = &o.craft_error {
                    run.count("craft_errors", 1);
                    run.sample("craft-error", 3, json!({"family": c.family, "n": c.n, "error": e}));
                    continue;
                }
                run.count("progress_callbacks", o.callbacks);
                run.count("verifying_ingredient_callbacks", o.ingredient_callbacks);
                let accepted = o.state == "Valid" || o.state == "Trusted";
                let outcome = if accepted { "accepted".to_string() } else { format!("{}{}", o.state, o.error.as_deref().map(|e| format!(":{e}")).unwrap_or_default()) };
                if o.state == "Panic" {
                    run.violation(&format!("{}|panic", sig_base), &format!("panic while reading: {:?}", o.error), json!({"case": case_json(c)}));
                }
                if o.cancelled_by_budget {
                    run.violation(&format!("{}|work-budget", sig_base), &format!("more than {} progress callbacks for a store of {} manifests", c.budget, c.n), json!({"case": case_json(c), "callbacks": o.callbacks}));
                    continue;
                }
                let bad = t.cycle || t.dangling || t.depth > LIMIT + 1;
                if t.unreachable_cycle {
                    run.count("unjudged:cycle-not-reachable-from-active", 1);
                }
                if gc == "depth-boundary" {
                    run.count(&format!("unjudged:depth-boundary:{}:{}", t.depth, if accepted { "accepted" } else { "rejected" }), 1);
                    run.sample("unjudged:depth-boundary", 2, json!({"depth": t.depth, "state": o.state, "failures": o.failures}));
                    continue;
                }
                let class = format!("{}{}|{}|{}|{}|{}", gc, if c.bypass { "+hash-bypass" } else { "" }, size_class(c.n), rel_class(c), route, outcome);
                run.nontrivial(class.clone());
                run.sample(&format!("{}:{}", gc, if accepted { "accepted" } else { "rejected" }), 2, json!({"family": c.family, "n": c.n, "edges": if c.n <= 6 { json!(c.edges) } else { json!("…") }, "state": o.state, "error": o.error, "failures": o.failures, "wrong_hash_edges": o.wrong_edges, "callbacks": o.callbacks}));
                if bad && accepted {
                    run.violation(&format!("{}|accepted", sig_base), &format!("{} ingredient graph (n={}, family {}, {} edges with wrong hash) read as {}", gc, c.n, c.family, o.wrong_edges, o.state), json!({"case": case_json(c), "truth": format!("{t:?}")}));
                }
                if !bad && !t.multi_parent && o.wrong_edges == 0 {
                    controls += 1;
                    if accepted {
                        controls_ok += 1;
                    } else {
                        run.count("control_not_valid", 1);
                        run.sample("unjudged:control-not-valid", 4, json!({"family": c.family, "n": c.n, "edges": if c.n <= 6 { json!(c.edges) } else { json!("…") }, "bypass": c.bypass, "state": o.state, "error": o.error, "failures": o.failures}));
                    }
                }
            }
        }
    }
    run.set("controls", json!({"total": controls, "accepted": controls_ok}));

    // ---- scaling series (one child per measurement, nothing else running in that child)
    if run.replay.is_none() {
        let families: Vec<(&str, Box<dyn Fn(usize) -> Vec<Vec<(i64, u8)>>>, Vec<usize>)> = vec![
            ("chain", Box::new(|n| chain(n, 2)), vec![10, 20, 40, 80, 160]),
            ("ladder", Box::new(ladder), vec![10, 20, 40, 80, 160, 300]),
            ("fib", Box::new(fib), vec![10, 20, 40, 80, 160]),
        ];
        let mut series_cases = Vec::new();
        for (name, f, ns) in &families {
            for n in ns {
                let e = f(*n);
                let nn = e.len() as u64;
                let mut c = mk(&format!("scale:{name}"), e, false, false, 400 * nn * nn + 10_000);
                c.id = series_cases.len();
                series_cases.push(c);
            }
        }
        let obs = run_in_children(&series_cases, 1, 60);
        let mut table: BTreeMap<String, Vec<(usize, u64, u64, u64, usize)>> = BTreeMap::new();
        for c in &series_cases {
            run.eval();
            match obs.get(&c.id) {
                Some(ChildEnd::Obs(o)) if o.craft_error.is_none() => {
                    if o.cancelled_by_budget {
                        run.violation(&format!("dag|{}|work-budget", c.family), &format!("more than {} progress callbacks for {} manifests", c.budget, c.n), json!({"case": case_json(c)}));
                    } else if o.state != "Valid" && o.state != "Trusted" {
                        run.count("control_not_valid", 1);
                        run.sample("unjudged:control-not-valid", 4, json!({"family": c.family, "n": c.n, "state": o.state, "error": o.error, "failures": o.failures}));
                    }
                    table.entry(c.family.clone()).or_default().push((c.n, o.ingredient_callbacks, o.allocs, o.cpu_ms, o.store_len));
                }
                Some(ChildEnd::Obs(o)) => run.inconclusive(format!("craft error in scaling case {} n={}: {:?}", c.family, c.n, o.craft_error)),
                Some(ChildEnd::Crashed(st)) => run.violation(&format!("dag|{}|crash", c.family), &format!("child died ({st}) on an acyclic graph of {} manifests", c.n), json!({"case": case_json(c)})),
                Some(ChildEnd::TimedOut { cpu_ms }) => {
                    // The child ran alone.  If it burnt >= 30 s of CPU (it was running, not starved) while the
                    // previous point of the same family (about half the size) finished in less than 1/25 of that,
                    // growth is far beyond the polynomial bound (4.5x per doubling): judged on CPU counters only.
                    let prev = table.get(&c.family).and_then(|rows| rows.iter().filter(|r| r.0 < c.n).max_by_key(|r| r.0)).cloned();
                    match prev {
                        Some(p) if *cpu_ms >= 30_000 && p.3.max(1) * 25 < *cpu_ms && c.n <= p.0 * 2 + 1 => run.violation(
                            &format!("dag|{}|cpu-superpolynomial", c.family),
                            &format!("acyclic graph of {} manifests: child consumed {} ms CPU without finishing, the same family with {} manifests took {} ms CPU", c.n, cpu_ms, p.0, p.3),
                            json!({"case": case_json(c), "cpu_ms_at_kill": cpu_ms, "previous": {"n": p.0, "cpu_ms": p.3}}),
                        ),
                        _ => run.inconclusive(format!("watchdog on scaling case {} n={} (cpu {} ms)", c.family, c.n, cpu_ms)),
                    }
                }
                None => run.inconclusive(format!("no observation for scaling case {} n={}", c.family, c.n)),
            }
        }
        let mut tj = serde_json::Map::new();
        for (fam, rows) in &table {
            tj.insert(fam.clone(), json!(rows.iter().map(|r| json!({"n": r.0, "ingredient_callbacks": r.1, "allocs": r.2, "cpu_ms": r.3, "store_len": r.4})).collect::<Vec<_>>()));
            for w in rows.windows(2) {
                let (a, b) = (&w[0], &w[1]);
                let scale = b.0 as f64 / a.0 as f64; // 2.0 except 160 -> 300
                let bound = 4.5f64.powf(scale.log2());
                for (what, fa, fb) in [("callbacks", a.1, b.1), ("allocs", a.2, b.2)] {
                    if fa == 0 {
                        continue;
                    }
                    let ratio = fb as f64 / fa as f64;
                    run.nontrivial(format!("scale|{}|{}|n{}->{}|ratio<={}", fam, what, a.0, b.0, if ratio <= bound { "bound" } else { "EXCEEDED" }));
                    if ratio > bound {
                        run.violation(&format!("dag|{}|super-quadratic-{}", fam, what), &format!("{what} grew x{ratio:.2} from n={} to n={} (bound x{bound:.2})", a.0, b.0), json!({"family": fam, "rows": rows.iter().map(|r| json!([r.0, r.1, r.2])).collect::<Vec<_>>()}));
                    }
                }
            }
        }
        run.set("scaling", Value::Object(tj));
    }

    if controls > 0 && controls_ok * 10 < controls * 9 {
        run.inconclusive(format!("only {controls_ok}/{controls} acyclic control graphs were accepted — the generator does not produce otherwise-valid stores"));
        run.engine("release", true, json!({"threads": par::workers()}));
        // make the problem loud: too few meaningful observations
        run.finish(usize::MAX);
    }
    run.engine("release", true, json!({"threads": par::workers(), "reader_stack_bytes": 2 << 20}));
    run.finish(25);
}
