//! C09 — embedding, replacing and removing a manifest preserves the media content.
//!
//! For every subject A and a pair of store lengths (a, b):
//!   B1 = save(A, S_a)  [embed]     B2 = save(B1, S_b)  [grow | shrink | same]
//!   R2 = remove(B2)    [remove]    R1 = remove(B1)     R0 = remove(A)
//! Oracles: the independent media extractor `fmt::media_sig` (element sequence with payload digests,
//! absolute offsets replaced by digests of the bytes they address: BMFF stco/co64/iloc/tfhd/saio/tfra,
//! TIFF strips/tiles/sub-IFDs) must give the same sequence for A, B1, B2, R2; and
//! remove(embed(A)) must be byte-identical to remove(A).
use serde_json::json;
use vmon::embedkit::{self as kit, Subject};
use vmon::{assets, fmt, par, Rng, Run};

#[derive(Clone, Debug)]
struct Case {
    subj: usize,
    a: usize,
    b: usize,
    seed: u64,
    via_stream: bool,
}

#[derive(Default)]
struct Res {
    evals: u64,
    classes: Vec<String>,
    counters: Vec<(String, u64)>,
    /// (sig, what)
    violations: Vec<(String, String)>,
}

fn case_json(c: &Case, s: &Subject) -> serde_json::Value {
    json!({"asset": s.name, "format": s.format, "state": s.state, "asset_len": s.bytes.len(), "a": c.a, "b": c.b, "seed": c.seed, "via_stream": c.via_stream})
}

/// Top-level box order of a BMFF file ("ftyp-moov-mdat-c2pa"), or the state for other families.
fn layout_of(s: &Subject) -> String {
    if fmt::family(s.format) == Some("bmff") {
        if let Ok(p) = fmt::parse(s.format, &s.bytes) {
            let mut v: Vec<String> = Vec::new();
            for e in &p.elems {
                let k = if e.is_c2pa { "c2pa".to_string() } else { e.kind.clone() };
                if v.last() != Some(&k) {
                    v.push(k);
                }
            }
            v.truncate(7);
            return v.join("-");
        }
    }
    s.state.to_string()
}

/// First difference between two media signatures: (element-class, description).
fn first_diff(x: &[(String, String)], y: &[(String, String)]) -> Option<(String, String)> {
    for i in 0..x.len().max(y.len()) {
        match (x.get(i), y.get(i)) {
            (Some(a), Some(b)) if a == b => {}
            (Some(a), Some(b)) if a.0 == b.0 => return Some((a.0.clone(), format!("element #{i} {}: {} -> {}", a.0, a.1, b.1))),
            (Some(a), Some(b)) => return Some((a.0.clone(), format!("element #{i}: {} -> {} (sequence changed)", a.0, b.0))),
            (Some(a), None) => return Some((a.0.clone(), format!("element #{i} {} missing in the output", a.0))),
            (None, Some(b)) => return Some((b.0.clone(), format!("extra element #{i} {} in the output", b.0))),
            (None, None) => {}
        }
    }
    None
}

/// Reduces an element name to its class: "deref:stco[trak0][3]" -> "stco-deref", "box:moov" -> "box:moov",
/// "page0/tag0x0111" -> "tag0x0111", "frame:TIT2" -> "id3-frame".
fn elem_class(name: &str) -> String {
    if let Some(rest) = name.strip_prefix("deref:") {
        return format!("{}-deref", rest.split('[').next().unwrap_or(rest));
    }
    if name.starts_with("frame:") {
        return "id3-frame".into();
    }
    if let Some(i) = name.rfind("/tag") {
        return name[i + 1..].to_string();
    }
    if name.contains("/#tags") {
        return "ifd-tag-count".into();
    }
    let n: String = name.chars().filter(|c| !c.is_ascii_digit()).collect();
    n.trim_start_matches('/').to_string()
}

/// For BMFF: does the first differing offset address data located before the C2PA box (or before
/// the insertion point right after ftyp when the input has none)?
fn bmff_side(s: &Subject, elem: &str) -> &'static str {
    let Some(name) = elem.strip_prefix("deref:") else {
        return "-";
    };
    let (Ok(fields), Ok(p)) = (fmt::bmff::offset_fields(&s.bytes), fmt::parse(s.format, &s.bytes)) else {
        return "-";
    };
    let c2pa_pos = p.elems.iter().find(|e| e.is_c2pa).map(|e| e.start).or_else(|| p.elems.iter().find(|e| e.kind == "ftyp").map(|e| e.start + e.len)).unwrap_or(0);
    match fields.iter().find(|f| f.name == name) {
        Some(f) if (f.value as usize) < c2pa_pos => "data-before-c2pa",
        Some(_) => "data-after-c2pa",
        None => "-",
    }
}

fn run_case(c: &Case, s: &Subject) -> Res {
    let mut r = Res::default();
    let fam = fmt::family(s.format).unwrap_or("?");
    let m0 = match fmt::media_sig(s.format, &s.bytes) {
        Ok(m) => m,
        Err(e) => {
            r.counters.push((format!("trivial:input-rejected-by-independent-parser:{}:{}", s.name, e.chars().take(50).collect::<String>()), 1));
            return r;
        }
    };
    if m0.iter().any(|(_, v)| v.starts_with("dangling")) {
        r.counters.push((format!("trivial:input-has-dangling-offsets:{}", s.name), 1));
        return r;
    }
    let layout = layout_of(s);
    let sa = kit::make_store(c.a, c.seed, 0).0;
    let sb = kit::make_store(c.b, c.seed + 1, 0).0;
    let had = fmt::parse(s.format, &s.bytes).map(|p| !p.containers.is_empty()).unwrap_or(false);
    let trans2 = if c.b > c.a {
        "grow"
    } else if c.b < c.a {
        "shrink"
    } else {
        "same"
    };
    let check = |r: &mut Res, out: &[u8], transition: &str| -> bool {
        r.evals += 1;
        let m = match fmt::media_sig(s.format, out) {
            Ok(m) => m,
            Err(e) => {
                // ill-formed output: C07 reports it; here it means the media cannot be extracted any more
                r.violations.push((format!("{fam}|{transition}|output-unparseable"), format!("{transition}: independent extractor rejects the output: {e}")));
                return false;
            }
        };
        if let Some((elem, what)) = first_diff(&m0, &m) {
            let mut cls = elem_class(&elem);
            let mut note = String::new();
            if fam == "mp3" || fam == "flac" {
                // bytes changed; did the meaning (decoded text) survive?
                let same_meaning = match (fmt::id3::media_sig_meaning(&s.bytes, fam == "flac"), fmt::id3::media_sig_meaning(out, fam == "flac")) {
                    (Ok(x), Ok(y)) => x == y,
                    _ => false,
                };
                if cls == "id3-frame" {
                    cls = if same_meaning { "id3-frame-reencoded".into() } else { "id3-frame-changed".into() };
                    note = format!(" (meaning preserved: {same_meaning})");
                }
            }
            let sig = if fam == "bmff" { format!("bmff|{}|{}", bmff_side(s, &elem), cls) } else { format!("{fam}|{cls}") };
            r.violations.push((sig, format!("{transition} (layout {layout}): {what}{note}")));
            return false;
        }
        r.classes.push(format!("{fam}|{layout}|{transition}|media-preserved"));
        true
    };
    // embed (or replace the initial manifest)
    let b1 = match kit::save(s.format, &s.bytes, &sa, c.via_stream) {
        Ok(o) => o,
        Err(e) if kit::is_panic(&e) => {
            r.violations.push((format!("{fam}|panic-in-write"), e));
            return r;
        }
        Err(e) => {
            r.counters.push((format!("trivial:write-refused:{fam}:{e}"), 1));
            return r;
        }
    };
    if !check(&mut r, &b1, if had { "replace-initial" } else { "embed" }) {
        return r;
    }
    let b2 = match kit::save(s.format, &b1, &sb, !c.via_stream) {
        Ok(o) => o,
        Err(e) => {
            r.violations.push((format!("{fam}|write-error-on-own-output"), format!("{trans2}: {e}")));
            return r;
        }
    };
    if !check(&mut r, &b2, trans2) {
        return r;
    }
    let r2 = match kit::remove(s.format, &b2) {
        Ok(o) => o,
        Err(e) => {
            r.violations.push((format!("{fam}|remove-error:{e}"), format!("remove after {trans2} failed: {e}")));
            return r;
        }
    };
    if !check(&mut r, &r2, "remove") {
        return r;
    }
    // remove(embed(A)) == remove(A)
    match (kit::remove(s.format, &b1), kit::remove(s.format, &s.bytes)) {
        (Ok(r1), Ok(r0)) => {
            r.evals += 1;
            if r1 != r0 || r2 != r0 {
                let which = if r1 != r0 { &r1 } else { &r2 };
                let pos = which.iter().zip(r0.iter()).position(|(x, y)| x != y).unwrap_or(which.len().min(r0.len()));
                let leftover = fmt::parse(s.format, which).map(|p| p.has_c2pa()).unwrap_or(false);
                r.violations.push((format!("{fam}|remove-not-inverse{}", if leftover { ":manifest-left" } else { "" }), format!("remove(embed(A)) has {} bytes, remove(A) has {} bytes, first difference at {pos} (layout {layout}, manifest still present: {leftover})", which.len(), r0.len())));
                return r;
            }
            r.classes.push(format!("{fam}|{layout}|remove-inverse|bytes-equal"));
        }
        (Ok(_), Err(e)) => r.counters.push((format!("unjudged:remove-of-original-refused:{fam}:{e}"), 1)),
        (Err(e), _) => r.violations.push((format!("{fam}|remove-error:{e}"), format!("remove(embed(A)) failed: {e}"))),
    }
    r
}

fn main() {
    let mut run = Run::from_args("C09", "exploration");
    vmon::report::quiet_panics();
    run.rule = "case = (asset in a state / hostile layout, store lengths (a,b) giving the transitions embed|replace-initial, grow|shrink|same, remove). Every transition whose output the independent extractor could compare counts; distinct = (family, layout (BMFF: top-level box order; others: state), transition, outcome).".into();
    run.assumptions = vec![
        "media content = what vmon::fmt::media_sig extracts: non-C2PA elements with payload digests; absolute offsets are compared by dereference with lengths from stsc/stsz, iloc extent lengths, TIFF byte counts (16-byte windows clipped to the addressed top-level box where no length is known)".into(),
        "for ID3 carriers frames are compared by decoded body bytes; a difference whose decoded text is unchanged is reported under its own signature (id3-frame-reencoded)".into(),
        "SVG: the xmlns:c2pa declaration and an empty <metadata> element are not media; white-space-only text is ignored".into(),
        "inputs whose own offset tables dangle are skipped".into(),
    ];
    let quick = run.quick();
    let tiny = kit::extended_tiny_assets();
    let fixtures = assets::fixture_assets(run.tier.pick(1_200_000, 6_000_000));
    let mut subjects = kit::subjects(&tiny, "tiny", true);
    subjects.extend(kit::subjects(&fixtures, "fixture", true));
    for a in kit::hostile_bmff_assets() {
        subjects.push(Subject { name: a.name, format: a.format, state: "layout", origin: "tiny", bytes: a.bytes });
    }
    // extra realistic fixtures for the offset-table formats
    for (n, f) in [("sample1.heic", "heic"), ("sample1.m4a", "m4a"), ("c.mov", "mov"), ("MultiPage.tif", "tif"), ("test.tiff", "tiff"), ("legacy.mp4", "mp4"), ("video1_no_manifest.mp4", "mp4")] {
        if let Some(b) = assets::fixture(n) {
            if b.len() <= run.tier.pick(1_200_000, 6_000_000) {
                subjects.push(Subject { name: n.to_string(), format: f, state: "clean", origin: "fixture", bytes: b });
            }
        }
    }
    let mut rng = Rng::new(run.seed, "c09");
    let pool = kit::boundary_sizes(quick);
    let mut cases = Vec::new();
    for (si, s) in subjects.iter().enumerate() {
        let mut pairs: Vec<(usize, usize)> = vec![(100, 300), (300, 100), (200, 200), (64001, 100), (100, 64001), (65536, 65536)];
        let extra = if s.origin == "tiny" { run.tier.pick(30, 600) } else { run.tier.pick(3, 24) };
        for _ in 0..extra {
            let a = (*rng.pick(&pool)).max(kit::DUMMY_MIN);
            let b = match rng.below(3) {
                0 => a,
                _ => (*rng.pick(&pool)).max(kit::DUMMY_MIN),
            };
            pairs.push((a, b));
        }
        if s.bytes.len() > 300_000 {
            pairs.truncate(run.tier.pick(4, 10));
        }
        for (j, (a, b)) in pairs.into_iter().enumerate() {
            cases.push(Case { subj: si, a, b, seed: rng.next_u64() % 1_000_000, via_stream: j % 2 == 0 });
        }
    }
    if let Some(p) = run.replay.clone() {
        let v: serde_json::Value = serde_json::from_slice(&std::fs::read(&p).expect("replay file")).expect("json");
        let w = &v["witness"];
        let si = subjects.iter().position(|s| s.name == w["asset"].as_str().unwrap_or("") && s.state == w["state"].as_str().unwrap_or("")).expect("subject of the witness");
        let c = Case { subj: si, a: w["a"].as_u64().unwrap() as usize, b: w["b"].as_u64().unwrap() as usize, seed: w["seed"].as_u64().unwrap(), via_stream: w["via_stream"].as_bool().unwrap() };
        let r = run_case(&c, &subjects[si]);
        println!("replay: classes={:?} violations={:?}", r.classes, r.violations);
        std::process::exit(if r.violations.is_empty() { 0 } else { 1 });
    }
    let results = par::par_map(cases.len(), |i| run_case(&cases[i], &subjects[cases[i].subj]));
    let mut per_sig: std::collections::BTreeMap<String, std::collections::BTreeSet<String>> = Default::default();
    for (i, r) in results.iter().enumerate() {
        let s = &subjects[cases[i].subj];
        run.evals(r.evals);
        for c in &r.classes {
            run.nontrivial(c.clone());
        }
        if !r.classes.is_empty() {
            run.sample(&format!("{}:{}", fmt::family(s.format).unwrap_or("?"), s.state), 1, case_json(&cases[i], s));
        }
        for (k, n) in &r.counters {
            run.count(k, *n);
        }
        for (sig, what) in &r.violations {
            per_sig.entry(sig.clone()).or_default().insert(format!("{}:{}", s.name, s.state));
            run.violation(sig, &format!("{} [{} {}] a={} b={}: {}", s.name, s.format, s.state, cases[i].a, cases[i].b, what), case_json(&cases[i], s));
        }
    }
    run.set("subjects", json!(subjects.len()));
    run.set("cases", json!(cases.len()));
    run.set("violating_subjects_by_sig", json!(per_sig));
    run.engine("release", true, json!({"threads": par::workers()}));
    run.finish(40);
}
