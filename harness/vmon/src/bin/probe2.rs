//! Development probe: dump the JUMBF tree and hash assertions of a signed tiny asset.
use c2pa::{Builder, Context};
use std::io::Cursor;
use vmon::{assets, jumbf, signers};

fn main() {
    let which = std::env::args().nth(1).unwrap_or("tiny.mp4".into());
    let extra = std::env::args().nth(2).unwrap_or("{}".into());
    let mut settings = serde_json::json!({
        "verify": {"verify_trust": true},
        "trust": {"trust_anchors": signers::trust_anchors_pem()},
        "builder": {"thumbnail": {"enabled": false}}
    });
    let ex: serde_json::Value = serde_json::from_str(&extra).unwrap();
    merge(&mut settings, &ex);
    let signer = signers::test_signer("ed25519");
    let a = assets::tiny_assets().into_iter().find(|a| a.name == which).expect("asset");
    let ctx = Context::new().with_settings(settings.to_string().as_str()).unwrap();
    let mut b = Builder::from_context(ctx).with_definition(serde_json::json!({"title": "probe"})).unwrap();
    b.set_intent(c2pa::BuilderIntent::Edit);
    let mut src = Cursor::new(a.bytes.clone());
    let mut dst = Cursor::new(Vec::new());
    let store = b.sign(signer.as_ref(), a.format, &mut src, &mut dst).unwrap();
    let root = jumbf::parse_store(&store).expect("parse store");
    let mut all = Vec::new();
    root.walk(&mut all);
    for bx in all {
        if &bx.typ == b"jumb" {
            println!("{:6} {:6} {}", bx.start, bx.len, bx.path);
            if bx.path.contains("c2pa.hash.") {
                let c = bx.children.iter().find(|c| &c.typ != b"jumd").unwrap();
                let v: ciborium::Value = ciborium::from_reader(&store[c.payload_start()..c.end()]).unwrap();
                println!("   {:?}", v);
            }
        }
    }
}

fn merge(a: &mut serde_json::Value, b: &serde_json::Value) {
    match (a, b) {
        (serde_json::Value::Object(a), serde_json::Value::Object(b)) => {
            for (k, v) in b {
                merge(a.entry(k.clone()).or_insert(serde_json::Value::Null), v);
            }
        }
        (a, b) => *a = b.clone(),
    }
}
