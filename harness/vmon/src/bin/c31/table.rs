//! Static description of the exported C functions (parameter kinds, result kind), the value
//! pools for non-handle arguments, and the harness-owned stream / signer / resolver callbacks.
//! Everything here is written from the function signatures and their doc comments.
use c2pa_c as api;
use serde::{Deserialize, Serialize};
use std::any::TypeId;
use std::collections::HashMap;
use std::ffi::CString;
use std::io::{Cursor, Read, Seek, SeekFrom, Write};
use std::os::raw::{c_int, c_void};
use std::sync::atomic::{AtomicU64, Ordering};
use std::sync::Arc;

#[derive(Clone, Copy, PartialEq, Eq, Debug, Hash, PartialOrd, Ord, Serialize, Deserialize)]
pub enum Ty {
    Settings,
    CtxBuilder,
    Context,
    Reader,
    Builder,
    Signer,
    Stream,
    Resolver,
    CStr,
    Bytes,
}

pub const ALL_TY: &[Ty] = &[
    Ty::Settings,
    Ty::CtxBuilder,
    Ty::Context,
    Ty::Reader,
    Ty::Builder,
    Ty::Signer,
    Ty::Stream,
    Ty::Resolver,
    Ty::CStr,
    Ty::Bytes,
];

impl Ty {
    pub fn name(&self) -> &'static str {
        match self {
            Ty::Settings => "settings",
            Ty::CtxBuilder => "ctxbuilder",
            Ty::Context => "context",
            Ty::Reader => "reader",
            Ty::Builder => "builder",
            Ty::Signer => "signer",
            Ty::Stream => "stream",
            Ty::Resolver => "resolver",
            Ty::CStr => "cstr",
            Ty::Bytes => "bytes",
        }
    }
    /// The Rust type the public C signature names for this handle kind (used only to compare
    /// with the registry's own record through the hook).
    pub fn type_id(&self) -> TypeId {
        match self {
            Ty::Settings => TypeId::of::<c2pa::Settings>(),
            Ty::CtxBuilder => TypeId::of::<c2pa::Context>(),
            Ty::Context => TypeId::of::<Arc<c2pa::Context>>(),
            Ty::Reader => TypeId::of::<c2pa::Reader>(),
            Ty::Builder => TypeId::of::<c2pa::Builder>(),
            Ty::Signer => TypeId::of::<api::C2paSigner>(),
            Ty::Stream => TypeId::of::<api::C2paStream>(),
            Ty::Resolver => TypeId::of::<api::C2paHttpResolver>(),
            Ty::CStr => TypeId::of::<CString>(),
            Ty::Bytes => TypeId::of::<Box<[u8]>>(),
        }
    }
}

#[derive(Clone, Copy, PartialEq, Eq, Debug)]
pub enum Mode {
    Borrow,
    /// documented: the call takes ownership, the pointer is invalid afterwards
    Consume,
    /// a (typed, void) free function
    Free,
}

#[derive(Clone, Copy, Debug)]
pub enum P {
    H(Ty, Mode),
    /// borrowed handle documented as "may be NULL"
    HOpt(Ty),
    /// `c2pa_free` / `cimpl_free`: any live handle
    HAny,
    /// C string of a value kind; bool = documented optional (NULL allowed)
    S(&'static str, bool),
    /// (ptr,len) input buffer of a kind (two C parameters)
    B(&'static str),
    OutBytes,
    OutCount,
    OutHash,
    /// scalar of a kind
    N(&'static str),
    /// optional NULL-terminated array of C strings
    Arr,
    /// `const C2paSignerInfo*`
    Info,
    /// outer pointer of a string array returned by `*_supported_mime_types` (+ its count)
    SA,
}

#[derive(Clone, Copy, Debug, PartialEq)]
pub enum R {
    Ptr(Ty),
    /// NULL is also a legal non-error answer
    PtrOpt(Ty),
    /// negative = error indicator
    Int,
    Bool,
    Void,
    StrArr,
}

pub struct F {
    pub name: &'static str,
    pub params: &'static [P],
    pub ret: R,
    /// relative weight in the random workload
    pub w: u32,
}

use Mode::*;
use Ty::*;
use P::*;

pub const FUNCS: &[F] = &[
    F { name: "c2pa_version", params: &[], ret: R::Ptr(CStr), w: 2 },
    F { name: "c2pa_error", params: &[], ret: R::Ptr(CStr), w: 2 },
    F { name: "c2pa_error_set_last", params: &[S("err", false)], ret: R::Int, w: 1 },
    F { name: "c2pa_load_settings", params: &[S("settings", false), S("setfmt", false)], ret: R::Int, w: 1 },
    F { name: "c2pa_settings_new", params: &[], ret: R::Ptr(Settings), w: 4 },
    F { name: "c2pa_settings_update_from_string", params: &[H(Settings, Borrow), S("settings", false), S("setfmt", false)], ret: R::Int, w: 3 },
    F { name: "c2pa_settings_set_value", params: &[H(Settings, Borrow), S("setpath", false), S("setval", false)], ret: R::Int, w: 3 },
    F { name: "c2pa_context_builder_new", params: &[], ret: R::Ptr(CtxBuilder), w: 4 },
    F { name: "c2pa_context_builder_set_settings", params: &[H(CtxBuilder, Borrow), H(Settings, Borrow)], ret: R::Int, w: 4 },
    F { name: "c2pa_context_builder_set_signer", params: &[H(CtxBuilder, Borrow), H(Signer, Consume)], ret: R::Int, w: 4 },
    F { name: "c2pa_context_builder_set_progress_callback", params: &[H(CtxBuilder, Borrow)], ret: R::Int, w: 2 },
    F { name: "c2pa_http_resolver_create", params: &[], ret: R::Ptr(Resolver), w: 3 },
    F { name: "c2pa_context_builder_set_http_resolver", params: &[H(CtxBuilder, Borrow), H(Resolver, Consume)], ret: R::Int, w: 4 },
    F { name: "c2pa_context_builder_build", params: &[H(CtxBuilder, Consume)], ret: R::Ptr(Context), w: 4 },
    F { name: "c2pa_context_new", params: &[], ret: R::Ptr(Context), w: 3 },
    F { name: "c2pa_context_cancel", params: &[H(Context, Borrow)], ret: R::Int, w: 1 },
    F { name: "c2pa_release_string", params: &[H(CStr, Free)], ret: R::Void, w: 2 },
    F { name: "c2pa_free", params: &[HAny], ret: R::Int, w: 14 },
    F { name: "cimpl_free", params: &[HAny], ret: R::Int, w: 2 },
    F { name: "c2pa_string_free", params: &[H(CStr, Free)], ret: R::Void, w: 2 },
    F { name: "c2pa_free_string_array", params: &[SA], ret: R::Void, w: 2 },
    F { name: "c2pa_reader_new", params: &[], ret: R::Ptr(Reader), w: 3 },
    F { name: "c2pa_reader_from_context", params: &[H(Context, Borrow)], ret: R::Ptr(Reader), w: 4 },
    F { name: "c2pa_reader_from_stream", params: &[S("format", false), H(Stream, Borrow)], ret: R::Ptr(Reader), w: 5 },
    F { name: "c2pa_reader_with_stream", params: &[H(Reader, Consume), S("format", false), H(Stream, Borrow)], ret: R::Ptr(Reader), w: 5 },
    F { name: "c2pa_reader_with_manifest_data_and_stream", params: &[H(Reader, Consume), S("format", false), H(Stream, Borrow), B("manifest")], ret: R::Ptr(Reader), w: 4 },
    F { name: "c2pa_reader_with_fragment", params: &[H(Reader, Consume), S("format", false), H(Stream, Borrow), H(Stream, Borrow)], ret: R::Ptr(Reader), w: 3 },
    F { name: "c2pa_reader_from_file", params: &[S("file", false)], ret: R::Ptr(Reader), w: 1 },
    F { name: "c2pa_reader_from_manifest_data_and_stream", params: &[S("format", false), H(Stream, Borrow), B("manifest")], ret: R::Ptr(Reader), w: 3 },
    F { name: "c2pa_reader_free", params: &[H(Reader, Free)], ret: R::Void, w: 2 },
    F { name: "c2pa_reader_json", params: &[H(Reader, Borrow)], ret: R::Ptr(CStr), w: 3 },
    F { name: "c2pa_reader_detailed_json", params: &[H(Reader, Borrow)], ret: R::Ptr(CStr), w: 2 },
    F { name: "c2pa_reader_crjson", params: &[H(Reader, Borrow)], ret: R::Ptr(CStr), w: 2 },
    F { name: "c2pa_reader_remote_url", params: &[H(Reader, Borrow)], ret: R::PtrOpt(CStr), w: 2 },
    F { name: "c2pa_reader_is_embedded", params: &[H(Reader, Borrow)], ret: R::Bool, w: 2 },
    F { name: "c2pa_reader_resource_to_stream", params: &[H(Reader, Borrow), S("uri", false), H(Stream, Borrow)], ret: R::Int, w: 4 },
    F { name: "c2pa_reader_supported_mime_types", params: &[OutCount], ret: R::StrArr, w: 1 },
    F { name: "c2pa_builder_from_json", params: &[S("manifest", false)], ret: R::Ptr(Builder), w: 4 },
    F { name: "c2pa_builder_from_context", params: &[H(Context, Borrow)], ret: R::Ptr(Builder), w: 4 },
    F { name: "c2pa_builder_from_archive", params: &[H(Stream, Borrow)], ret: R::Ptr(Builder), w: 3 },
    F { name: "c2pa_builder_supported_mime_types", params: &[OutCount], ret: R::StrArr, w: 1 },
    F { name: "c2pa_builder_free", params: &[H(Builder, Free)], ret: R::Void, w: 2 },
    F { name: "c2pa_builder_with_definition", params: &[H(Builder, Consume), S("manifest", false)], ret: R::Ptr(Builder), w: 4 },
    F { name: "c2pa_builder_with_archive", params: &[H(Builder, Consume), H(Stream, Borrow)], ret: R::Ptr(Builder), w: 4 },
    F { name: "c2pa_builder_set_intent", params: &[H(Builder, Borrow), N("intent"), N("dst")], ret: R::Int, w: 2 },
    F { name: "c2pa_builder_set_no_embed", params: &[H(Builder, Borrow)], ret: R::Void, w: 1 },
    F { name: "c2pa_builder_set_remote_url", params: &[H(Builder, Borrow), S("url", false)], ret: R::Int, w: 1 },
    F { name: "c2pa_builder_set_base_path", params: &[H(Builder, Borrow), S("dir", false)], ret: R::Int, w: 1 },
    F { name: "c2pa_builder_add_resource", params: &[H(Builder, Borrow), S("uri", false), H(Stream, Borrow)], ret: R::Int, w: 4 },
    F { name: "c2pa_builder_add_ingredient_from_stream", params: &[H(Builder, Borrow), S("ingredient", false), S("format", false), H(Stream, Borrow)], ret: R::Int, w: 3 },
    F { name: "c2pa_builder_add_action", params: &[H(Builder, Borrow), S("action", false)], ret: R::Int, w: 2 },
    F { name: "c2pa_builder_to_archive", params: &[H(Builder, Borrow), H(Stream, Borrow)], ret: R::Int, w: 3 },
    F { name: "c2pa_builder_add_ingredient_from_archive", params: &[H(Builder, Borrow), H(Stream, Borrow)], ret: R::Int, w: 2 },
    F { name: "c2pa_builder_write_ingredient_archive", params: &[H(Builder, Borrow), S("id", false), H(Stream, Borrow)], ret: R::Int, w: 2 },
    F { name: "c2pa_builder_sign", params: &[H(Builder, Borrow), S("format", false), H(Stream, Borrow), H(Stream, Borrow), H(Signer, Borrow), OutBytes], ret: R::Int, w: 6 },
    F { name: "c2pa_builder_sign_context", params: &[H(Builder, Borrow), S("format", false), H(Stream, Borrow), H(Stream, Borrow), OutBytes], ret: R::Int, w: 4 },
    F { name: "c2pa_manifest_bytes_free", params: &[H(Bytes, Free)], ret: R::Void, w: 2 },
    F { name: "c2pa_builder_data_hashed_placeholder", params: &[H(Builder, Borrow), N("reserve"), S("format", false), OutBytes], ret: R::Int, w: 3 },
    F { name: "c2pa_builder_sign_data_hashed_embeddable", params: &[H(Builder, Borrow), H(Signer, Borrow), S("datahash", false), S("format", false), HOpt(Stream), OutBytes], ret: R::Int, w: 5 },
    F { name: "c2pa_builder_needs_placeholder", params: &[H(Builder, Borrow), S("format", false)], ret: R::Int, w: 1 },
    F { name: "c2pa_builder_hash_type", params: &[H(Builder, Borrow), S("format", false), OutHash], ret: R::Int, w: 2 },
    F { name: "c2pa_builder_placeholder", params: &[H(Builder, Borrow), S("format", false), OutBytes], ret: R::Int, w: 3 },
    F { name: "c2pa_builder_sign_embeddable", params: &[H(Builder, Borrow), S("format", false), OutBytes], ret: R::Int, w: 3 },
    F { name: "c2pa_builder_set_data_hash_exclusions", params: &[H(Builder, Borrow), B("excl")], ret: R::Int, w: 2 },
    F { name: "c2pa_builder_set_fixed_size_merkle", params: &[H(Builder, Borrow), N("kb")], ret: R::Int, w: 1 },
    F { name: "c2pa_builder_hash_mdat_bytes", params: &[H(Builder, Borrow), N("mdat"), B("data"), N("bool")], ret: R::Int, w: 2 },
    F { name: "c2pa_builder_update_hash_from_stream", params: &[H(Builder, Borrow), S("format", false), H(Stream, Borrow)], ret: R::Int, w: 3 },
    F { name: "c2pa_format_embeddable", params: &[S("format", false), B("manifest"), OutBytes], ret: R::Int, w: 2 },
    F { name: "c2pa_signer_create", params: &[S("certs", false), S("tsa", true)], ret: R::Ptr(Signer), w: 4 },
    F { name: "c2pa_identity_signer_create", params: &[H(Signer, Consume), H(Signer, Consume), Arr, Arr], ret: R::Ptr(Signer), w: 3 },
    F { name: "c2pa_signer_from_info", params: &[Info], ret: R::Ptr(Signer), w: 5 },
    F { name: "c2pa_signer_from_settings", params: &[], ret: R::Ptr(Signer), w: 1 },
    F { name: "c2pa_signer_reserve_size", params: &[H(Signer, Borrow)], ret: R::Int, w: 2 },
    F { name: "c2pa_signer_free", params: &[H(Signer, Free)], ret: R::Void, w: 2 },
    F { name: "c2pa_ed25519_sign", params: &[B("data"), S("key", false)], ret: R::Ptr(Bytes), w: 3 },
    F { name: "c2pa_signature_free", params: &[H(Bytes, Free)], ret: R::Void, w: 2 },
    F { name: "c2pa_create_stream", params: &[N("content")], ret: R::Ptr(Stream), w: 9 },
    F { name: "c2pa_release_stream", params: &[H(Stream, Free)], ret: R::Void, w: 2 },
];

pub fn func(name: &str) -> usize {
    FUNCS.iter().position(|f| f.name == name).unwrap_or_else(|| panic!("unknown function {name}"))
}

/// Preferred constructor for a handle type (used by the generator to build up state).
pub fn constructor_for(ty: Ty, pick: u64) -> &'static str {
    let opts: &[&str] = match ty {
        Settings => &["c2pa_settings_new"],
        CtxBuilder => &["c2pa_context_builder_new"],
        Context => &["c2pa_context_new", "c2pa_context_builder_build"],
        Reader => &["c2pa_reader_new", "c2pa_reader_from_context", "c2pa_reader_from_stream"],
        Builder => &["c2pa_builder_from_json", "c2pa_builder_from_context"],
        Signer => &["c2pa_signer_from_info", "c2pa_signer_create"],
        Stream => &["c2pa_create_stream"],
        Resolver => &["c2pa_http_resolver_create"],
        CStr => &["c2pa_version"],
        Bytes => &["c2pa_ed25519_sign"],
    };
    opts[(pick % opts.len() as u64) as usize]
}

/// One concrete argument.  Handle arguments name a *slot* of the history (the n-th handle the
/// library returned so far); which state that address is in is decided by the model at call time.
#[derive(Clone, Debug, Serialize, Deserialize, PartialEq)]
#[serde(tag = "k", rename_all = "snake_case")]
pub enum A {
    Slot { slot: usize, intent: String },
    Interior { slot: usize },
    Null,
    Foreign { kind: String },
    Str { key: String },
    Buf { key: String },
    Out { valid: bool },
    Num { v: u64 },
    Arr { key: String },
    Info { key: String },
    /// string array: outer pointer of array slot `slot`, passed with its own count
    SArr { slot: usize },
    /// string array position filled with a non-array pointer (count = 1)
    SArrForeign { kind: String },
}

#[derive(Clone, Debug, Serialize, Deserialize, PartialEq)]
pub struct Call {
    pub f: String,
    pub a: Vec<A>,
}

pub const STREAM_CONTENTS: &[&str] = &["jpeg", "signed", "cjpg", "empty", "archive", "garbage", "failing"];

/// Value pools for string parameters: kind -> keys; the first `valid` keys are well-formed.
pub fn str_pool(kind: &str) -> (&'static [&'static str], usize) {
    match kind {
        "format" => (&["fmt:jpeg", "fmt:jpg", "fmt:c2pa", "fmt:png", "fmt:bad"], 3),
        "settings" => (&["set:json", "set:signer", "set:bad"], 2),
        "setfmt" => (&["sf:json", "sf:bad"], 1),
        "setpath" => (&["sp:vas", "sp:thumb", "sp:bad"], 2),
        "setval" => (&["sv:true", "sv:false", "sv:str", "sv:bad"], 2),
        "manifest" => (&["mj:empty", "mj:full", "mj:bad"], 2),
        "ingredient" => (&["ij:empty", "ij:title", "ij:bad"], 2),
        "action" => (&["aj:ok", "aj:bad"], 1),
        "uri" => (&["uri:thumb", "uri:none"], 1),
        "err" => (&["err:io", "err:plain"], 2),
        "datahash" => (&["dh:ok", "dh:bad"], 1),
        "certs" => (&["pem:ed25519", "pem:bad"], 1),
        "tsa" => (&["null", "null"], 2),
        "key" => (&["key:ed25519", "key:bad"], 1),
        "url" => (&["url:local"], 1),
        "dir" => (&["dir:tmp"], 1),
        "file" => (&["file:cjpg", "file:none"], 1),
        "id" => (&["id:x"], 1),
        _ => panic!("string kind {kind}"),
    }
}

pub fn buf_pool(kind: &str) -> &'static [&'static str] {
    match kind {
        "manifest" => &["mb:ok", "mb:ok", "mb:junk", "mb:zero", "null"],
        "data" => &["mb:junk", "mb:junk", "mb:zero", "null"],
        "excl" => &["ex:one", "ex:none", "null"],
        _ => panic!("buffer kind {kind}"),
    }
}

pub const SETTINGS_JSON: &str = r#"{"builder":{"thumbnail":{"enabled":false}},"verify":{"verify_trust":false}}"#;
pub const MANIFEST_FULL: &str = r#"{"claim_generator_info":[{"name":"vmon-c31","version":"1"}],"title":"c31","assertions":[{"label":"c2pa.actions","data":{"actions":[{"action":"c2pa.created","digitalSourceType":"http://cv.iptc.org/newscodes/digitalsourcetype/digitalCapture"}]}}]}"#;

/// Process-wide immutable fixtures: C strings, buffers, stream contents.
pub struct Fixt {
    pub strings: HashMap<String, CString>,
    pub bufs: HashMap<String, Vec<u8>>,
    pub excl: Vec<u64>,
    pub contents: HashMap<String, Vec<u8>>,
    arr_store: Vec<CString>,
    pub arrs: HashMap<String, Vec<usize>>,
}
unsafe impl Send for Fixt {}
unsafe impl Sync for Fixt {}

impl Fixt {
    pub fn base(tmp_dir: &str) -> Fixt {
        let mut s: HashMap<String, CString> = HashMap::new();
        let mut put = |k: &str, v: &str| {
            s.insert(k.to_string(), CString::new(v).expect("no NUL"));
        };
        put("fmt:jpeg", "image/jpeg");
        put("fmt:jpg", "jpg");
        put("fmt:c2pa", "application/c2pa");
        put("fmt:png", "image/png");
        put("fmt:bad", "application/x-vmon");
        put("set:json", SETTINGS_JSON);
        put("set:bad", "{not json");
        put("sf:json", "json");
        put("sf:bad", "yaml");
        put("sp:vas", "verify.verify_after_sign");
        put("sp:thumb", "builder.thumbnail.enabled");
        put("sp:bad", "no.such.key");
        put("sv:true", "true");
        put("sv:false", "false");
        put("sv:str", "\"es256\"");
        put("sv:bad", "{");
        put("mj:empty", "{}");
        put("mj:full", MANIFEST_FULL);
        put("mj:bad", "{\"title\":");
        put("ij:empty", "{}");
        put("ij:title", r#"{"title":"ing","relationship":"componentOf"}"#);
        put("ij:bad", "[");
        put("aj:ok", r#"{"action":"c2pa.edited","parameters":{"k":"v"}}"#);
        put("aj:bad", "nope");
        put("uri:none", "no-such-resource");
        put("uri:thumb", "no-such-resource-yet");
        put("err:io", "Io: vmon injected");
        put("err:plain", "plain message");
        put("dh:bad", "{\"nope\":1}");
        put("pem:bad", "not a pem");
        put("key:bad", "not a key");
        put("url:local", "http://127.0.0.1:9/manifest.c2pa");
        put("dir:tmp", tmp_dir);
        put("file:none", "/nonexistent/vmon/x.jpg");
        put("id:x", "ingredient-1");
        put("alg:ed25519", "Ed25519");
        put("alg:bad", "BadAlg");
        let cert = String::from_utf8(vmon::signers::cert_pem("ed25519")).expect("pem");
        let key = String::from_utf8(vmon::signers::key_pem("ed25519")).expect("pem");
        put("pem:ed25519", &cert);
        put("key:ed25519", &key);
        let signer_settings = serde_json::json!({
            "builder": {"thumbnail": {"enabled": false}},
            "verify": {"verify_trust": false},
            "signer": {"local": {"alg": "ed25519", "sign_cert": cert, "private_key": key}}
        })
        .to_string();
        put("set:signer", &signer_settings);
        put("file:cjpg", vmon::assets::fixtures_dir().join("C.jpg").to_str().expect("utf8 path"));
        let mut dh = c2pa::assertions::DataHash::new("jumbf manifest", "sha256");
        dh.add_exclusion(c2pa::HashRange::new(20, 1000));
        dh.set_hash(vec![7u8; 32]);
        put("dh:ok", &serde_json::to_string(&dh).expect("datahash json"));

        let mut bufs = HashMap::new();
        bufs.insert("mb:junk".to_string(), vmon::Rng::new(31, "c31junk").bytes(64));
        bufs.insert("mb:zero".to_string(), vec![0u8; 8]);
        bufs.insert("mb:ok".to_string(), vec![0u8; 8]); // replaced by the golden path

        let mut contents = HashMap::new();
        contents.insert("jpeg".to_string(), vmon::assets::tiny_jpeg(None, false, &[]));
        contents.insert("empty".to_string(), Vec::new());
        contents.insert("garbage".to_string(), vmon::Rng::new(31, "c31garbage").bytes(300));
        contents.insert("failing".to_string(), Vec::new());
        contents.insert("cjpg".to_string(), vmon::assets::fixture("C.jpg").unwrap_or_default());
        contents.insert("signed".to_string(), Vec::new());
        contents.insert("archive".to_string(), Vec::new());

        let arr_store = vec![CString::new("c2pa.actions").unwrap(), CString::new("cawg.creator").unwrap()];
        let mut arrs = HashMap::new();
        arrs.insert("refs".to_string(), vec![arr_store[0].as_ptr() as usize, 0usize]);
        arrs.insert("roles".to_string(), vec![arr_store[1].as_ptr() as usize, 0usize]);
        arrs.insert("empty".to_string(), vec![0usize]);
        Fixt { strings: s, bufs, excl: vec![20, 100], contents, arr_store, arrs }
    }
    pub fn cstr(&self, key: &str) -> usize {
        if key == "null" {
            return 0;
        }
        self.strings.get(key).map(|c| c.as_ptr() as usize).unwrap_or_else(|| panic!("string key {key}"))
    }
    /// (ptr, len-argument)
    pub fn buf(&self, key: &str) -> (usize, usize) {
        match key {
            "null" => (0, 16),
            "ex:one" => (self.excl.as_ptr() as usize, 1),
            "ex:none" => (self.excl.as_ptr() as usize, 0),
            "mb:zero" => (self.bufs["mb:zero"].as_ptr() as usize, 0),
            k => {
                let b = self.bufs.get(k).unwrap_or_else(|| panic!("buffer key {k}"));
                (b.as_ptr() as usize, b.len())
            }
        }
    }
    pub fn arr(&self, key: &str) -> usize {
        if key == "null" {
            return 0;
        }
        let _ = &self.arr_store;
        self.arrs[key].as_ptr() as usize
    }
}

// ---------------------------------------------------------------------------------------------
// Harness-owned callbacks
// ---------------------------------------------------------------------------------------------

pub static CB_STREAM: AtomicU64 = AtomicU64::new(0);
pub static CB_SIGN: AtomicU64 = AtomicU64::new(0);
pub static CB_PROGRESS: AtomicU64 = AtomicU64::new(0);
pub static CB_HTTP: AtomicU64 = AtomicU64::new(0);

/// Backing store of a harness stream; owned by the history, outlives every C2paStream made on it.
pub struct Back {
    pub cur: Cursor<Vec<u8>>,
    pub fail: bool,
}

pub unsafe extern "C" fn s_read(ctx: *mut api::StreamContext, data: *mut u8, len: isize) -> isize {
    CB_STREAM.fetch_add(1, Ordering::Relaxed);
    let b = &mut *(ctx as *mut Back);
    if b.fail || len < 0 {
        return -1;
    }
    let buf = std::slice::from_raw_parts_mut(data, len as usize);
    b.cur.read(buf).map(|n| n as isize).unwrap_or(-1)
}
pub unsafe extern "C" fn s_seek(ctx: *mut api::StreamContext, offset: isize, mode: api::C2paSeekMode) -> isize {
    CB_STREAM.fetch_add(1, Ordering::Relaxed);
    let b = &mut *(ctx as *mut Back);
    if b.fail {
        return -1;
    }
    let from = match mode {
        api::C2paSeekMode::Start => {
            if offset < 0 {
                return -1;
            }
            SeekFrom::Start(offset as u64)
        }
        api::C2paSeekMode::Current => SeekFrom::Current(offset as i64),
        api::C2paSeekMode::End => SeekFrom::End(offset as i64),
    };
    b.cur.seek(from).map(|p| p as isize).unwrap_or(-1)
}
pub unsafe extern "C" fn s_write(ctx: *mut api::StreamContext, data: *const u8, len: isize) -> isize {
    CB_STREAM.fetch_add(1, Ordering::Relaxed);
    let b = &mut *(ctx as *mut Back);
    if b.fail || len < 0 {
        return -1;
    }
    let buf = std::slice::from_raw_parts(data, len as usize);
    b.cur.write(buf).map(|n| n as isize).unwrap_or(-1)
}
pub unsafe extern "C" fn s_flush(ctx: *mut api::StreamContext) -> isize {
    CB_STREAM.fetch_add(1, Ordering::Relaxed);
    let b = &mut *(ctx as *mut Back);
    if b.fail {
        -1
    } else {
        0
    }
}

/// Signer callback: Ed25519 over the fixture key, done through the library's own
/// `c2pa_ed25519_sign` (as the C examples do); `ctx` points at the key's C string.
pub unsafe extern "C" fn sign_cb(ctx: *const (), data: *const u8, len: usize, out: *mut u8, out_len: usize) -> isize {
    CB_SIGN.fetch_add(1, Ordering::Relaxed);
    let sig = api::c2pa_ed25519_sign(data, len, ctx as *const std::os::raw::c_char);
    if sig.is_null() || out_len < 64 {
        if !sig.is_null() {
            api::c2pa_free(sig as *const c_void);
        }
        return -1;
    }
    std::ptr::copy_nonoverlapping(sig, out, 64);
    api::c2pa_free(sig as *const c_void);
    64
}

pub unsafe extern "C" fn progress_cb(_ctx: *const c_void, _phase: api::C2paProgressPhase, _step: u32, _total: u32) -> c_int {
    CB_PROGRESS.fetch_add(1, Ordering::Relaxed);
    1
}

pub unsafe extern "C" fn http_cb(_ctx: *mut c_void, _req: *const api::C2paHttpRequest, _resp: *mut api::C2paHttpResponse) -> c_int {
    CB_HTTP.fetch_add(1, Ordering::Relaxed);
    let msg = b"Other: vmon resolver offline\0";
    api::c2pa_error_set_last(msg.as_ptr() as *const std::os::raw::c_char);
    1
}
