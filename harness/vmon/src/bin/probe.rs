//! Development probe: signs every tiny asset and small fixture and prints the read-back state.
use c2pa::{Builder, Context};
use std::io::Cursor;
use vmon::{assets, report, signers};

fn main() {
    let settings = serde_json::json!({
        "verify": {"verify_trust": true},
        "trust": {"trust_anchors": signers::trust_anchors_pem()},
        "builder": {"thumbnail": {"enabled": false}}
    });
    let signer = signers::test_signer("ed25519");
    let mut all = assets::tiny_assets();
    all.extend(assets::fixture_assets(400_000));
    for a in all {
        let ctx = Context::new().with_settings(settings.to_string().as_str()).unwrap();
        let mut b = Builder::from_context(ctx)
            .with_definition(serde_json::json!({"title": "probe", "assertions": [{"label": "org.verif.test", "data": {"k": 1}}]}))
            .unwrap();
        b.set_intent(c2pa::BuilderIntent::Edit);
        let mut src = Cursor::new(a.bytes.clone());
        let mut dst = Cursor::new(Vec::new());
        match b.sign(signer.as_ref(), a.format, &mut src, &mut dst) {
            Ok(m) => {
                let out = dst.into_inner();
                let ctx = Context::new().with_settings(settings.to_string().as_str()).unwrap();
                let o = report::read_bytes(ctx, a.format, &out);
                println!("{:28} in={:7} out={:7} manifest={:6} state={} err={:?} fails={:?}", a.name, a.bytes.len(), out.len(), m.len(), o.state, o.error, o.failure_codes());
                if std::env::args().any(|x| x == "--json") && a.name == "tiny.png" {
                    println!("{}", serde_json::to_string_pretty(&o.report).unwrap());
                    println!("{:?}", o.codes);
                }
            }
            Err(e) => println!("{:28} SIGN ERROR {:?}", a.name, e),
        }
    }
}
