//! C31 — the C API never crashes or double-frees on handle misuse.
//!
//! Monitor = state-machine model of the handle registry (address -> (type, live)) driven by
//! random call histories over the exported C functions, every handle argument drawn from
//! {live right type, live wrong type, freed, reissued, NULL, foreign (harness buffer, misaligned,
//! small integer, interior pointer)}.  After every call: result class against the model, error
//! message present on every failure, registry (through the hook) == model.  At the end every
//! handle the model holds is released with exactly one free call and the registry must be empty.
//!
//! Engines: `release` (this binary; each shard of histories in a child process so that a crash
//! is a classified witness, not the end of the run), `asan` (same source built with
//! -Zsanitizer=address by tools/build_asan.sh; LSan leak check after every history),
//! `memcheck` (valgrind on the release binary, thorough tier).
#![allow(unexpected_cfgs, deprecated, clippy::all)]

mod gen;
mod model;
mod table;

use model::Hist;
use serde_json::{json, Value};
use std::collections::BTreeMap;
use std::io::{Read, Seek, SeekFrom, Write};
use std::path::{Path, PathBuf};
use std::process::{Command, Stdio};
use std::sync::Arc;
use std::time::{Duration, Instant};
use table::*;
use vmon::{par, Rng, Run};

#[cfg(vmon_asan)]
extern "C" {
    fn __lsan_do_recoverable_leak_check() -> std::os::raw::c_int;
}
fn leak_check() -> Option<bool> {
    #[cfg(vmon_asan)]
    {
        return Some(unsafe { __lsan_do_recoverable_leak_check() } != 0);
    }
    #[allow(unreachable_code)]
    None
}

fn arg_val(args: &[String], name: &str) -> Option<String> {
    args.iter().position(|a| a == name).and_then(|i| args.get(i + 1)).cloned()
}

// =============================================================================================
// child
// =============================================================================================

struct OneResult {
    ncalls: usize,
    viols: Vec<(String, String, usize)>,
    classes: BTreeMap<String, u64>,
    unjudged: BTreeMap<String, u64>,
    calls: Vec<Call>,
    sample: Option<Value>,
}

fn run_one(fx: Arc<Fixt>, class: &str, idx: usize, seed: u64, calls_path: &Path, replay: Option<Vec<Call>>) -> OneResult {
    let log = std::fs::OpenOptions::new().create(true).write(true).truncate(true).open(calls_path).ok();
    let header = json!({"history": idx, "class": class, "seed": seed}).to_string();
    let mut h = Hist::new(&fx, log, &header);
    if let Some(calls) = replay {
        for c in calls {
            h.step(c);
        }
        h.finish();
    } else if class == "canary" {
        // engine self-check: a deliberately leaked block must be reported by the leak check
        let v = std::hint::black_box(vec![0x5au8; 4096]);
        std::mem::forget(v);
        h.finish();
    } else if class == "directed" {
        gen::directed(&mut h, gen::DIRECTED[idx]);
    } else {
        let mut rng = Rng::new(seed, &format!("c31/{class}/{idx}"));
        let len = rng.range(20, 200) as usize;
        gen::random_history(&mut h, &mut rng, len);
    }
    let sample = h.calls.iter().zip(0..).find(|(c, _)| c.a.iter().any(|a| matches!(a, A::Slot { intent, .. } if intent == "freed"))).map(|(c, i)| json!({"history": idx, "call_index": i, "call": c}));
    OneResult {
        ncalls: h.calls.len(),
        viols: h.viols.iter().map(|v| (v.sig.clone(), v.what.clone(), v.call_index)).collect(),
        classes: std::mem::take(&mut h.classes),
        unjudged: std::mem::take(&mut h.unjudged),
        calls: std::mem::take(&mut h.calls),
        sample,
    }
}

fn child_main(args: &[String]) -> ! {
    let class = arg_val(args, "--class").unwrap_or_else(|| "main".into());
    let from: usize = arg_val(args, "--from").and_then(|s| s.parse().ok()).unwrap_or(0);
    let to: usize = arg_val(args, "--to").and_then(|s| s.parse().ok()).unwrap_or(1);
    let seed: u64 = arg_val(args, "--seed").and_then(|s| s.parse().ok()).unwrap_or(1);
    let scratch = PathBuf::from(arg_val(args, "--scratch").expect("--scratch"));
    let replay: Option<Vec<Call>> = arg_val(args, "--replay-calls").map(|p| serde_json::from_slice(&std::fs::read(p).expect("replay calls")).expect("replay calls json"));
    // own stderr goes to a file we can read back (sanitizer reports)
    let stderr_path = scratch.join("stderr.txt");
    if let Ok(f) = std::fs::OpenOptions::new().create(true).append(true).open(&stderr_path) {
        use std::os::fd::AsRawFd;
        unsafe { libc::dup2(f.as_raw_fd(), 2) };
    }
    let out = std::io::stdout();
    let say = |s: String| {
        let mut o = out.lock();
        let _ = o.write_all(s.as_bytes());
        let _ = o.write_all(b"\n");
        let _ = o.flush();
    };
    let tmp = scratch.join("base");
    let _ = std::fs::create_dir_all(&tmp);
    let mut fx = Fixt::base(tmp.to_str().unwrap_or("/tmp"));
    // The golden path runs once per engine run; later children of the same run load its products.
    let cache = arg_val(args, "--golden-cache").map(PathBuf::from);
    let cached = cache.as_ref().map(|c| load_golden(c, &mut fx)).unwrap_or(false);
    let g = if cached { Ok(Ok(Vec::new())) } else { std::thread::scope(|s| s.spawn(|| gen::golden(&mut fx)).join()) };
    if let (false, Some(c), Ok(Ok(_))) = (cached, cache.as_ref(), &g) {
        store_golden(c, &fx);
    }
    match g {
        Ok(Ok(v)) => {
            for x in v {
                say(format!("V {}", json!({"idx": -1, "sig": x.split(" :: ").next().unwrap_or("golden"), "what": x, "call_index": 0, "calls": []})));
            }
        }
        Ok(Err(e)) => {
            say(format!("GOLDEN-FAIL {e}"));
            std::process::exit(3);
        }
        Err(_) => {
            say("GOLDEN-FAIL harness panic".into());
            std::process::exit(4);
        }
    }
    let _ = leak_check(); // anything the golden path left behind is reported once, here
    let fx = Arc::new(fx);
    let calls_path = scratch.join("calls.jsonl");
    let mut classes: BTreeMap<String, u64> = BTreeMap::new();
    let mut unjudged: BTreeMap<String, u64> = BTreeMap::new();
    let mut samples: Vec<Value> = Vec::new();
    let mut ncalls = 0u64;
    let mut nh = 0u64;
    let flush_summary = |classes: &mut BTreeMap<String, u64>, unjudged: &mut BTreeMap<String, u64>, samples: &mut Vec<Value>, ncalls: &mut u64, nh: &mut u64| {
        let cb = json!({"stream": CB_STREAM.swap(0, std::sync::atomic::Ordering::Relaxed), "sign": CB_SIGN.swap(0, std::sync::atomic::Ordering::Relaxed), "progress": CB_PROGRESS.swap(0, std::sync::atomic::Ordering::Relaxed), "http": CB_HTTP.swap(0, std::sync::atomic::Ordering::Relaxed)});
        say(format!("S {}", json!({"classes": classes, "unjudged": unjudged, "samples": samples, "calls": *ncalls, "histories": *nh, "callbacks": cb})));
        classes.clear();
        unjudged.clear();
        samples.clear();
        *ncalls = 0;
        *nh = 0;
    };
    for idx in from..to {
        say(format!("BEGIN {idx}"));
        let stderr_off = std::fs::metadata(&stderr_path).map(|m| m.len()).unwrap_or(0);
        let fxc = fx.clone();
        let cls = class.clone();
        let cp = calls_path.clone();
        let rp = replay.clone();
        let r = std::thread::spawn(move || run_one(fxc, &cls, idx, seed, &cp, rp)).join();
        let r = match r {
            Ok(r) => r,
            Err(p) => {
                say(format!("HARNESS-PANIC {idx} {}", vmon::report::panic_msg(&p)));
                std::process::exit(4);
            }
        };
        for (sig, what, ci) in &r.viols {
            let calls: Vec<&Call> = r.calls.iter().take(ci + 1).collect();
            say(format!("V {}", json!({"idx": idx, "sig": sig, "what": what, "call_index": ci, "calls": calls})));
        }
        let mut leaked = false;
        if let Some(true) = leak_check() {
            leaked = true;
            let mut rep = String::new();
            if let Ok(mut f) = std::fs::File::open(&stderr_path) {
                let _ = f.seek(SeekFrom::Start(stderr_off));
                let _ = f.read_to_string(&mut rep);
            }
            let frame = first_repo_frame(&rep).unwrap_or_else(|| "unsymbolized".into());
            say(format!("V {}", json!({"idx": idx, "sig": format!("leak|{frame}"), "what": format!("LeakSanitizer: memory still allocated and unreachable after every handle was released\n{}", tail(&rep, 3000)), "call_index": r.ncalls.saturating_sub(1), "calls": r.calls})));
        }
        for (k, v) in r.classes {
            *classes.entry(k).or_insert(0) += v;
        }
        for (k, v) in r.unjudged {
            *unjudged.entry(k).or_insert(0) += v;
        }
        if let Some(s) = r.sample {
            if samples.len() < 2 {
                samples.push(s);
            }
        }
        ncalls += r.ncalls as u64;
        nh += 1;
        say(format!("END {idx} {}", r.ncalls));
        // per history: a later crash of this process must not lose what was already judged
        flush_summary(&mut classes, &mut unjudged, &mut samples, &mut ncalls, &mut nh);
        if leaked {
            // LSan would report the same blocks again after every later history
            flush_summary(&mut classes, &mut unjudged, &mut samples, &mut ncalls, &mut nh);
            say(format!("LEAK-RESTART {idx}"));
            std::process::exit(0);
        }
    }
    flush_summary(&mut classes, &mut unjudged, &mut samples, &mut ncalls, &mut nh);
    say("DONE".into());
    std::process::exit(0);
}

fn load_golden(dir: &Path, fx: &mut Fixt) -> bool {
    if !dir.join("ok").exists() {
        return false;
    }
    let rd = |n: &str| std::fs::read(dir.join(n)).ok();
    let (Some(signed), Some(archive), Some(manifest), Some(uri)) = (rd("signed.bin"), rd("archive.bin"), rd("manifest.bin"), rd("uri.txt")) else { return false };
    let Ok(uri) = std::ffi::CString::new(uri) else { return false };
    fx.contents.insert("signed".into(), signed);
    fx.contents.insert("archive".into(), archive);
    fx.bufs.insert("mb:ok".into(), manifest);
    fx.strings.insert("uri:thumb".into(), uri);
    true
}

fn store_golden(dir: &Path, fx: &Fixt) {
    let _ = std::fs::create_dir_all(dir);
    let pid = std::process::id();
    let put = |n: &str, b: &[u8]| {
        let t = dir.join(format!("{n}.{pid}.tmp"));
        if std::fs::write(&t, b).is_ok() {
            let _ = std::fs::rename(&t, dir.join(n));
        }
    };
    put("signed.bin", &fx.contents["signed"]);
    put("archive.bin", &fx.contents["archive"]);
    put("manifest.bin", &fx.bufs["mb:ok"]);
    put("uri.txt", fx.strings["uri:thumb"].as_bytes());
    put("ok", b"ok");
}

fn tail(s: &str, n: usize) -> String {
    if s.len() <= n {
        s.to_string()
    } else {
        let mut i = s.len() - n;
        while !s.is_char_boundary(i) {
            i += 1;
        }
        s[i..].to_string()
    }
}

/// First stack frame of a sanitizer / valgrind report that lies in the repository.
fn first_repo_frame(rep: &str) -> Option<String> {
    for line in rep.lines() {
        let l = line.trim();
        if !(l.starts_with('#') || l.starts_with("==") || l.contains(" in ")) {
            continue;
        }
        if l.contains("/repo/") && !l.contains("/verif/") {
            if let Some(p) = l.find(" in ") {
                let rest = &l[p + 4..];
                let fun = rest.split_whitespace().next().unwrap_or("");
                let fun = fun.split("::h").next().unwrap_or(fun);
                if !fun.is_empty() {
                    return Some(fun.chars().take(80).collect());
                }
            }
        }
    }
    None
}

// =============================================================================================
// parent
// =============================================================================================

#[derive(Clone)]
struct Engine {
    /// directory shared by the children of one engine run (golden-path products)
    cache: PathBuf,
    name: &'static str,
    exe: PathBuf,
    prefix: Vec<String>,
    env: Vec<(String, String)>,
    slow: u64,
}

#[derive(Default)]
struct ShardOut {
    histories: u64,
    calls: u64,
    children: u64,
    crashes: u64,
    classes: BTreeMap<String, u64>,
    unjudged: BTreeMap<String, u64>,
    callbacks: BTreeMap<String, u64>,
    samples: Vec<Value>,
    /// (sig, what, witness)
    viols: Vec<(String, String, Value)>,
    inconclusive: Vec<String>,
}

fn parse_child_output(text: &str, so: &mut ShardOut, eng: &Engine, class: &str, seed: u64) -> (bool, Option<usize>, bool) {
    let mut done = false;
    let mut open: Option<usize> = None;
    let mut leak_restart = false;
    for line in text.lines() {
        if let Some(r) = line.strip_prefix("BEGIN ") {
            open = r.trim().parse().ok();
        } else if line.starts_with("END ") {
            open = None;
        } else if line == "DONE" {
            done = true;
        } else if line.starts_with("LEAK-RESTART") {
            leak_restart = true;
        } else if let Some(r) = line.strip_prefix("S ") {
            if let Ok(v) = serde_json::from_str::<Value>(r) {
                so.histories += v["histories"].as_u64().unwrap_or(0);
                so.calls += v["calls"].as_u64().unwrap_or(0);
                for (k, n) in v["classes"].as_object().into_iter().flatten() {
                    *so.classes.entry(k.clone()).or_insert(0) += n.as_u64().unwrap_or(0);
                }
                for (k, n) in v["unjudged"].as_object().into_iter().flatten() {
                    *so.unjudged.entry(k.clone()).or_insert(0) += n.as_u64().unwrap_or(0);
                }
                for (k, n) in v["callbacks"].as_object().into_iter().flatten() {
                    *so.callbacks.entry(k.clone()).or_insert(0) += n.as_u64().unwrap_or(0);
                }
                for s in v["samples"].as_array().into_iter().flatten() {
                    if so.samples.len() < 2 {
                        so.samples.push(s.clone());
                    }
                }
            }
        } else if let Some(r) = line.strip_prefix("V ") {
            if let Ok(v) = serde_json::from_str::<Value>(r) {
                let sig = v["sig"].as_str().unwrap_or("?").to_string();
                let what = v["what"].as_str().unwrap_or("").to_string();
                let w = json!({"engine": eng.name, "class": class, "history": v["idx"], "history_seed": seed, "call_index": v["call_index"], "calls": v["calls"]});
                so.viols.push((sig, what, w));
            }
        } else if let Some(r) = line.strip_prefix("GOLDEN-FAIL") {
            so.inconclusive.push(format!("engine {}: golden path failed in a child: {}", eng.name, r.trim()));
        } else if let Some(r) = line.strip_prefix("HARNESS-PANIC") {
            so.inconclusive.push(format!("engine {}: harness panic in a child: {}", eng.name, r.trim()));
        }
    }
    (done, open, leak_restart)
}

fn describe_status(st: &std::process::ExitStatus) -> String {
    use std::os::unix::process::ExitStatusExt;
    if let Some(s) = st.signal() {
        let n = match s {
            11 => "SIGSEGV",
            6 => "SIGABRT",
            7 => "SIGBUS",
            4 => "SIGILL",
            8 => "SIGFPE",
            9 => "SIGKILL",
            _ => "signal",
        };
        format!("{n}({s})")
    } else {
        format!("exit({})", st.code().unwrap_or(-1))
    }
}

fn sanitizer_headline(stderr: &str) -> Option<String> {
    for l in stderr.lines() {
        if let Some(p) = l.find("ERROR: AddressSanitizer: ") {
            let rest = &l[p + 25..];
            return Some(format!("asan:{}", rest.split_whitespace().next().unwrap_or("error")));
        }
        if l.contains("ERROR: LeakSanitizer") {
            return Some("lsan:leak".into());
        }
    }
    for key in ["double free", "free(): invalid pointer", "invalid size", "corrupted", "cannot unwind", "panicked at", "Invalid free", "Invalid read", "Invalid write", "Jump to the invalid address"] {
        if let Some(l) = stderr.lines().find(|l| l.contains(key)) {
            return Some(l.trim().chars().take(160).collect());
        }
    }
    None
}

/// Runs histories [lo,hi) of `class` in child processes of `eng`; a child that dies is a
/// classified witness and the shard continues after the history that killed it.
fn run_shard(eng: &Engine, class: &str, lo: usize, hi: usize, seed: u64, replay_calls: Option<&Path>) -> ShardOut {
    let mut so = ShardOut::default();
    let dir = match tempfile::Builder::new().prefix("c31-").tempdir() {
        Ok(d) => d,
        Err(e) => {
            so.inconclusive.push(format!("cannot create scratch dir: {e}"));
            return so;
        }
    };
    let mut start = lo;
    while start < hi {
        let out_path = dir.path().join("out.txt");
        let _ = std::fs::remove_file(dir.path().join("stderr.txt"));
        let _ = std::fs::remove_file(dir.path().join("calls.jsonl"));
        let Ok(out_file) = std::fs::File::create(&out_path) else {
            so.inconclusive.push("cannot create child output file".into());
            return so;
        };
        let mut cmd = if eng.prefix.is_empty() {
            Command::new(&eng.exe)
        } else {
            let mut c = Command::new(&eng.prefix[0]);
            c.args(eng.prefix[1..].iter().map(|a| a.replace("{SCRATCH}", &dir.path().display().to_string())));
            c.arg(&eng.exe);
            c
        };
        cmd.arg("--child").args(["--class", class]).args(["--from", &start.to_string()]).args(["--to", &hi.to_string()]).args(["--seed", &seed.to_string()]).arg("--scratch").arg(dir.path());
        if let Some(p) = replay_calls {
            cmd.arg("--replay-calls").arg(p);
        }
        cmd.arg("--golden-cache").arg(&eng.cache);
        for (k, v) in &eng.env {
            cmd.env(k, v);
        }
        cmd.stdin(Stdio::null()).stdout(Stdio::from(out_file)).stderr(Stdio::null());
        let mut child = match cmd.spawn() {
            Ok(c) => c,
            Err(e) => {
                so.inconclusive.push(format!("engine {}: cannot start child: {e}", eng.name));
                return so;
            }
        };
        so.children += 1;
        let budget = Duration::from_secs((60 + (hi - start) as u64 * 2) * eng.slow);
        let t0 = Instant::now();
        let status = loop {
            match child.try_wait() {
                Ok(Some(st)) => break Some(st),
                Ok(None) => {
                    if t0.elapsed() > budget {
                        let _ = child.kill();
                        let _ = child.wait();
                        break None;
                    }
                    std::thread::sleep(Duration::from_millis(15));
                }
                Err(_) => break None,
            }
        };
        let text = std::fs::read_to_string(&out_path).unwrap_or_default();
        let (done, open, leak_restart) = parse_child_output(&text, &mut so, eng, class, seed);
        if done {
            break;
        }
        if leak_restart {
            let last = text.lines().filter_map(|l| l.strip_prefix("LEAK-RESTART ")).filter_map(|s| s.trim().parse::<usize>().ok()).last();
            match last {
                Some(k) => {
                    start = k + 1;
                    continue;
                }
                None => break,
            }
        }
        let stderr = std::fs::read_to_string(dir.path().join("stderr.txt")).unwrap_or_default();
        let Some(k) = open else {
            // died outside any history (start-up, golden path) or reported its own failure
            if !so.inconclusive.iter().any(|s| s.contains("golden") || s.contains("harness panic")) {
                so.inconclusive.push(format!("engine {}: child ended outside a history ({}) {}", eng.name, status.map(|s| describe_status(&s)).unwrap_or_else(|| "watchdog".into()), tail(&stderr, 300)));
            }
            break;
        };
        match status {
            None => so.inconclusive.push(format!("engine {}: watchdog killed the child in history {k} of class {class}", eng.name)),
            Some(st) => {
                use std::os::unix::process::ExitStatusExt;
                if st.code() == Some(4) || st.code() == Some(3) {
                    break; // already recorded as inconclusive
                }
                if st.signal() == Some(9) {
                    so.inconclusive.push(format!("engine {}: child killed (SIGKILL, OOM?) in history {k}", eng.name));
                } else {
                    // a crash: the last logged call is the one in progress
                    so.crashes += 1;
                    so.histories += 1;
                    let log = std::fs::read_to_string(dir.path().join("calls.jsonl")).unwrap_or_default();
                    let lines: Vec<Value> = log.lines().skip(1).filter_map(|l| serde_json::from_str(l).ok()).collect();
                    let calls: Vec<Value> = lines.iter().map(|l| l["call"].clone()).collect();
                    let last = lines.last().cloned().unwrap_or(Value::Null);
                    let fname = last["call"]["f"].as_str().unwrap_or("startup").to_string();
                    let head = sanitizer_headline(&stderr);
                    let frame = first_repo_frame(&stderr);
                    let sig = if let Some(b) = last["bad"].as_array() {
                        format!("{}|{}|{}|not-rejected", fname, b[0], model::sig_class(b[1].as_str().unwrap_or("")))
                    } else {
                        let kind = match &head {
                            Some(h) if h.starts_with("asan:") || h.starts_with("lsan:") => h.clone(),
                            _ => "crash".to_string(),
                        };
                        format!("{}|valid|{}", fname, kind)
                    };
                    let what = format!(
                        "process died with {} during {} (labels {}){}{}",
                        describe_status(&st),
                        fname,
                        last["labels"],
                        head.map(|h| format!("; {h}")).unwrap_or_default(),
                        frame.map(|f| format!("; first in-repo frame {f}")).unwrap_or_default()
                    );
                    let w = json!({"engine": eng.name, "class": class, "history": k, "history_seed": seed, "call_index": calls.len().saturating_sub(1), "calls": calls, "stderr_tail": tail(&stderr, 2500)});
                    so.viols.push((sig, what, w));
                }
            }
        }
        start = k + 1;
    }
    so
}

struct EngineOut {
    total: ShardOut,
    wall: f64,
}

fn run_engine(eng: &Engine, class: &str, n: usize, per_shard: usize, seed: u64) -> EngineOut {
    let t0 = Instant::now();
    let per = per_shard.max(1);
    let nshards = (n + per - 1) / per;
    let outs = par::par_map(nshards, |i| run_shard(eng, class, i * per, ((i + 1) * per).min(n), seed, None));
    let mut total = ShardOut::default();
    for o in outs {
        total.histories += o.histories;
        total.calls += o.calls;
        total.children += o.children;
        total.crashes += o.crashes;
        for (k, v) in o.classes {
            *total.classes.entry(k).or_insert(0) += v;
        }
        for (k, v) in o.unjudged {
            *total.unjudged.entry(k).or_insert(0) += v;
        }
        for (k, v) in o.callbacks {
            *total.callbacks.entry(k).or_insert(0) += v;
        }
        for s in o.samples {
            if total.samples.len() < 2 {
                total.samples.push(s);
            }
        }
        total.viols.extend(o.viols);
        total.inconclusive.extend(o.inconclusive);
    }
    EngineOut { total, wall: t0.elapsed().as_secs_f64() }
}

fn fold(run: &mut Run, eng: &Engine, class: &str, out: EngineOut, primary: bool) -> Value {
    let t = out.total;
    run.evals(t.histories);
    run.count(&format!("{}:{}:histories", eng.name, class), t.histories);
    run.count(&format!("{}:{}:calls", eng.name, class), t.calls);
    run.count(&format!("{}:{}:child_processes", eng.name, class), t.children);
    run.count(&format!("{}:{}:child_crashes", eng.name, class), t.crashes);
    for (k, v) in &t.callbacks {
        run.count(&format!("{}:callbacks:{}", eng.name, k), *v);
    }
    if primary {
        for (k, v) in &t.classes {
            run.nontrivial_n(k.clone(), *v);
        }
        for s in &t.samples {
            run.sample(&format!("{class}-history-call"), 2, s.clone());
        }
    }
    for (sig, what, w) in &t.viols {
        run.violation(sig, &format!("[{}] {}", eng.name, what), w.clone());
    }
    for i in &t.inconclusive {
        run.inconclusive(i.clone());
    }
    json!({"class": class, "histories": t.histories, "calls": t.calls, "distinct_call_classes": t.classes.len(), "children": t.children, "crashes": t.crashes, "oracle_firings": t.viols.len(), "inconclusive": t.inconclusive.len(), "wall_s": out.wall, "unjudged": t.unjudged})
}

fn main() {
    let args: Vec<String> = std::env::args().collect();
    if args.iter().any(|a| a == "--child") {
        child_main(&args);
    }
    let mut run = Run::from_args("C31", "exploration");
    run.rule = "a case = one call history (20..200 calls, then release of every live handle) over 78 exported C functions; handle arguments drawn from {live right type, live wrong type, freed, reissued address, NULL, foreign buffer / misaligned / small integer / interior pointer}, at most one deliberately invalid handle per call; strings and buffers valid, malformed or NULL. Plus directed histories (free twice per handle type, use after consume, reissued address, string arrays, unvalidated stream arguments). Non-trivial+distinct = distinct (function, handle-argument state classes, outcome) among judged calls of the release engine.".into();
    run.assumptions = vec![
        "the model is a map address -> (type, live) updated from the documented effect of each call; the registry is read through c2pa_c::utils::verif_hooks after every call".into(),
        "whether a documented-consumed handle is still consumed when the call fails is observed, not judged (the statement does not say); a typed void free function given a live handle of another type likewise".into(),
        "NULL for count / hash-type out-pointers is exercised only in the directed class; invalid (non-NULL garbage) char* / buffer pointers and invalid enum values are never generated (not handles)".into(),
        "c2pa_free(NULL) is documented as a no-op returning 0 and is not judged".into(),
        "a sanitizer-free release run cannot see a use-after-free that happens not to crash; that is what the asan / memcheck engines are for".into(),
    ];
    let root = vmon::evidence::verif_root();
    let self_exe = std::env::current_exe().expect("current exe");
    let cache_root = tempfile::Builder::new().prefix("c31-golden-").tempdir().expect("scratch dir");
    let release = Engine { cache: cache_root.path().join("release"), name: "release", exe: self_exe.clone(), prefix: vec![], env: vec![], slow: 1 };
    let asan_exe = root.join(".build/asan/x86_64-unknown-linux-gnu/release/c31");
    let asan_env = vec![
        ("ASAN_OPTIONS".to_string(), "detect_leaks=1:halt_on_error=1:exitcode=97:abort_on_error=0:symbolize=1:leak_check_at_exit=0:allocator_may_return_null=1:handle_abort=1:detect_stack_use_after_return=0".to_string()),
        ("LSAN_OPTIONS".to_string(), "exitcode=0:print_suppressions=0".to_string()),
        ("ASAN_SYMBOLIZER_PATH".to_string(), "/usr/bin/llvm-symbolizer".to_string()),
    ];
    let asan = Engine { cache: cache_root.path().join("asan"), name: "asan", exe: asan_exe.clone(), prefix: vec![], env: asan_env, slow: 6 };

    // ---- replay -----------------------------------------------------------------------
    if let Some(p) = run.replay.clone() {
        let v: Value = serde_json::from_slice(&std::fs::read(&p).expect("replay file")).expect("json");
        let w = &v["witness"];
        let eng = match w["engine"].as_str() {
            Some("asan") if asan_exe.exists() => asan.clone(),
            _ => release.clone(),
        };
        let tmp = tempfile::NamedTempFile::new().expect("tmp");
        std::fs::write(tmp.path(), serde_json::to_vec(&w["calls"]).unwrap()).expect("write calls");
        let so = run_shard(&eng, "replay", 0, 1, 1, Some(tmp.path()));
        for (sig, what, _) in &so.viols {
            println!("replay[{}]: sig={} :: {}", eng.name, sig, what.lines().next().unwrap_or(""));
        }
        let hit = so.viols.iter().any(|(s, _, _)| Some(s.as_str()) == v["sig"].as_str());
        println!("replay: {} oracle firings, witness signature {}reproduced", so.viols.len(), if hit { "" } else { "NOT " });
        std::process::exit(if so.viols.is_empty() { 0 } else { 1 });
    }

    // ---- ASan build (no-op when fresh; rebuilds when /repo changed) --------------------
    let asan_mode = std::env::var("VERIF_C31_ASAN").unwrap_or_default();
    let want_asan = asan_mode != "skip" && (asan_exe.exists() || !run.quick() || asan_mode == "build");
    let build_log = root.join(".build/logs/build-asan-c31.log");
    let mut asan_build = None;
    if want_asan {
        let _ = std::fs::create_dir_all(root.join(".build/logs"));
        if let Ok(lf) = std::fs::File::create(&build_log) {
            let lf2 = lf.try_clone().expect("clone log");
            let jobs = par::workers().max(2) / 2;
            asan_build = Command::new(root.join("tools/build_asan.sh")).args(["-j", &jobs.to_string()]).env_remove("RUSTFLAGS").stdin(Stdio::null()).stdout(Stdio::from(lf)).stderr(Stdio::from(lf2)).spawn().ok();
        }
    }

    // ---- release engine ---------------------------------------------------------------
    let n_main = run.tier.pick(2000usize, 50_000);
    let jobs = par::workers();
    let per = ((n_main + jobs * 4 - 1) / (jobs * 4)).max(1);
    let mut details = Vec::new();
    let o = run_engine(&release, "directed", gen::DIRECTED.len(), 1, run.seed);
    details.push(fold(&mut run, &release, "directed", o, true));
    let o = run_engine(&release, "main", n_main, per, run.seed);
    let unj = o.total.unjudged.clone();
    details.push(fold(&mut run, &release, "main", o, true));
    run.set("unjudged", json!(unj));
    run.engine("release", true, json!({"runs": details, "threads": jobs}));

    // ---- asan engine ------------------------------------------------------------------
    if want_asan {
        let mut ok = false;
        let mut why = String::from("tools/build_asan.sh could not be started");
        if let Some(mut c) = asan_build {
            let t0 = Instant::now();
            let limit = Duration::from_secs(run.tier.pick(1500, 3600));
            loop {
                match c.try_wait() {
                    Ok(Some(st)) => {
                        ok = st.success() && asan_exe.exists();
                        if !ok {
                            why = format!("ASan build failed ({}), see {}", describe_status(&st), build_log.display());
                        }
                        break;
                    }
                    Ok(None) if t0.elapsed() > limit => {
                        let _ = c.kill();
                        let _ = c.wait();
                        why = format!("ASan build did not finish within {} s", limit.as_secs());
                        break;
                    }
                    Ok(None) => std::thread::sleep(Duration::from_millis(200)),
                    Err(e) => {
                        why = format!("waiting for the ASan build: {e}");
                        break;
                    }
                }
            }
        }
        if ok {
            let n_asan = run.tier.pick(300usize, 10_000);
            let per = ((n_asan + jobs * 2 - 1) / (jobs * 2)).max(1);
            let mut d = Vec::new();
            let canary = run_shard(&asan, "canary", 0, 1, run.seed, None);
            let leak_ok = canary.viols.iter().any(|(s, _, _)| s.starts_with("leak|"));
            run.count("asan:leak_canary_detected", leak_ok as u64);
            if !leak_ok {
                run.inconclusive("engine asan: the LeakSanitizer canary (a deliberately leaked block) was not reported; leak detection is not effective in this environment, UAF / double-free detection is unaffected");
            }
            let o = run_engine(&asan, "directed", gen::DIRECTED.len(), 1, run.seed);
            d.push(fold(&mut run, &asan, "directed", o, false));
            let o = run_engine(&asan, "main", n_asan, per, run.seed ^ 0xA5A5);
            d.push(fold(&mut run, &asan, "main", o, false));
            run.engine("asan", true, json!({"runs": d, "binary": asan_exe, "leak_check": "LSan after every history", "leak_canary_detected": leak_ok}));
        } else {
            run.inconclusive(format!("engine asan: {why}"));
            run.engine("asan", false, json!({"reason": why}));
        }
    } else {
        let why = if asan_mode == "skip" { "VERIF_C31_ASAN=skip".to_string() } else { format!("{} not built (run tools/build_asan.sh or setup.sh); the quick tier does not start a cold sanitizer build", asan_exe.display()) };
        run.inconclusive(format!("engine asan: {why}"));
        run.engine("asan", false, json!({"reason": why}));
    }

    // ---- memcheck (thorough tier) -----------------------------------------------------
    if !run.quick() || std::env::var("VERIF_C31_MEMCHECK").is_ok() {
        let vg = Path::new("/usr/bin/valgrind");
        if vg.exists() {
            let memcheck = Engine {
                cache: cache_root.path().join("memcheck"),
                name: "memcheck",
                exe: self_exe.clone(),
                prefix: vec![vg.display().to_string(), "-q".into(), "--error-exitcode=99".into(), "--exit-on-first-error=yes".into(), "--leak-check=no".into(), "--undef-value-errors=no".into(), "--log-file={SCRATCH}/stderr.txt".into()],
                env: vec![],
                slow: 60,
            };
            let mut d = Vec::new();
            let o = run_engine(&memcheck, "directed", gen::DIRECTED.len(), 1, run.seed);
            d.push(fold(&mut run, &memcheck, "directed", o, false));
            let o = run_engine(&memcheck, "main", run.tier.pick(8, 64), 2, run.seed ^ 0x5A5A);
            d.push(fold(&mut run, &memcheck, "main", o, false));
            run.engine("memcheck", true, json!({"runs": d}));
        } else {
            run.inconclusive("engine memcheck: valgrind not installed");
            run.engine("memcheck", false, json!({"reason": "valgrind not installed"}));
        }
    }
    run.engine("miri", false, json!({"reason": "the monitor crate links vendored OpenSSL (C); a Miri run needs a separate C-free crate (vmon-miri), not part of this check"}));
    run.finish(150);
}
