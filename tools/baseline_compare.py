#!/usr/bin/env python3
"""Runs the repository baseline (guard off) and compares with /root/.vp/BASELINE.json stable_pass.
usage: tools/baseline_compare.py [logfile]  (runs `cargo test --workspace --no-fail-fast --offline` in /repo if no log given)"""
import json, re, subprocess, sys
log = None
if len(sys.argv) > 1:
    log = open(sys.argv[1]).read()
else:
    r = subprocess.run("cd /repo && cargo test --workspace --no-fail-fast --offline", shell=True, capture_output=True, text=True)
    log = r.stdout + r.stderr
b = json.load(open('/root/.vp/BASELINE.json'))
sp = b['stable_pass']
ok = set(re.findall(r'^test (\S+)(?: - should panic)? \.\.\. ok$', log, re.M))
failed = set(re.findall(r'^test (\S+)(?: - should panic)? \.\.\. FAILED$', log, re.M))
missing = [s for s in sp if not any(s.endswith('::' + o) for o in ok)]
print(f"ok={len(ok)} failed={len(failed)} stable_pass={len(sp)} stable_pass_not_ok={len(missing)}")
for m in missing[:50]:
    print("  NOT OK:", m)
sys.exit(1 if missing else 0)
