//! C32 — c2patool never clobbers outputs and its signed files validate.
//!
//! Builds the CLI from /repo (tools/build_cli.sh, target dir /verif/.build/cli), then runs generated
//! command lines, one fresh sandbox per invocation (`<tmp>/iNNNN/{home,work}`; HOME and
//! XDG_CONFIG_HOME point into it, cwd = work, environment cleared).
//!
//! Oracle A (from the statement): full file-system snapshot of the sandbox before/after; without
//! `-f` no pre-existing entry may be changed, replaced or deleted; with `-f` only entries the
//! invocation's output paths designate (output, its sidecar, output folder, aliases of those) may.
//! Oracle B: an invocation in a signing mode that exits 0 must leave an output file that the SDK
//! `Reader` *in this process* reads back as Valid/Trusted.
use c2pa::{Builder, BuilderIntent, Context, Reader, ValidationState};
use serde_json::{json, Value};
use std::collections::BTreeMap;
use std::io::Cursor;
use std::path::{Path, PathBuf};
use std::process::{Command, Stdio};
use vmon::fssnap::{self, ChangeKind, Kind};
use vmon::{assets, evidence, par, report, signers, Rng, Run};

#[derive(Clone, Debug)]
struct Inv {
    /// embed | sidecar | remote | remote-sidecar | report | detailed | ingredient | fragment | readonly
    mode: String,
    fmt: String,
    out_state: String,
    force: bool,
    parent: bool,
    /// definition passed with -m (file) or -c (inline json)
    via_config: bool,
}

fn inv_json(i: &Inv) -> Value {
    json!({"mode": i.mode, "fmt": i.fmt, "out_state": i.out_state, "force": i.force, "parent": i.parent, "via_config": i.via_config})
}

fn inv_from_json(v: &Value) -> Inv {
    Inv {
        mode: v["mode"].as_str().unwrap_or("embed").into(),
        fmt: v["fmt"].as_str().unwrap_or("jpg").into(),
        out_state: v["out_state"].as_str().unwrap_or("absent").into(),
        force: v["force"].as_bool().unwrap_or(false),
        parent: v["parent"].as_bool().unwrap_or(false),
        via_config: v["via_config"].as_bool().unwrap_or(false),
    }
}

struct Shared {
    tool: PathBuf,
    /// ext -> unsigned bytes
    plain: BTreeMap<String, Vec<u8>>,
    /// ext -> bytes carrying a manifest (for the report modes)
    signed: BTreeMap<String, Vec<u8>>,
    cert: Vec<u8>,
    key: Vec<u8>,
    frag_init: Vec<u8>,
    frags: Vec<(String, Vec<u8>)>,
}

fn is_sign_mode(m: &str) -> bool {
    matches!(m, "embed" | "sidecar" | "remote" | "remote-sidecar")
}

const FILE_STATES: &[&str] = &[
    "absent", "absent-subdir", "existing-file", "existing-dir", "same-as-input", "same-dotslash", "same-symlink", "same-hardlink", "dangling-symlink", "symlink-to-other", "ext-mismatch", "no-ext",
    "same-via-subdir-dotdot",
];
const SIDECAR_STATES: &[&str] = &["sidecar-existing-file", "sidecar-symlink-to-file", "sidecar-dir", "sidecar-dangling-symlink", "sidecar-hardlink"];
const DIR_STATES: &[&str] = &["absent", "absent-nested", "empty-dir", "nonempty-dir", "existing-file", "symlink-to-nonempty-dir", "dir-with-report-files"];
const FRAG_STATES: &[&str] = &["absent", "empty-dir", "dir-with-rendition-files", "parent-of-input", "existing-file"];

fn w(p: &Path, b: &[u8]) {
    if let Some(d) = p.parent() {
        let _ = std::fs::create_dir_all(d);
    }
    std::fs::write(p, b).expect("write sandbox file");
}

fn precious(name: &str) -> Vec<u8> {
    format!("PRECIOUS-{name}-do-not-touch").into_bytes()
}

struct Prepared {
    args: Vec<String>,
    /// sandbox-relative roles of paths: (path relative to work, role)
    roles: Vec<(PathBuf, &'static str)>,
    /// output file relative to work (sign modes)
    output: Option<PathBuf>,
}

fn manifest_def(fmt: &str) -> Value {
    let _ = fmt;
    json!({
        "alg": "es256", "private_key": "es256_private.key", "sign_cert": "es256_certs.pem",
        "claim_generator_info": [{"name": "c32-monitor", "version": "1.0"}],
        "title": "c32",
        "assertions": [{"label": "org.verif.c32", "data": {"k": 1}}]
    })
}

fn prepare(work: &Path, inv: &Inv, sh: &Shared) -> Option<Prepared> {
    let ext = inv.fmt.as_str();
    let mut args: Vec<String> = Vec::new();
    let mut roles: Vec<(PathBuf, &'static str)> = Vec::new();
    w(&work.join("es256_certs.pem"), &sh.cert);
    w(&work.join("es256_private.key"), &sh.key);
    w(&work.join("precious.bin"), &precious("precious.bin"));
    let input = format!("in.{ext}");
    let mode = inv.mode.as_str();
    if mode == "fragment" {
        let rend = work.join("rend");
        w(&rend.join("seg_init.mp4"), &sh.frag_init);
        roles.push((PathBuf::from("rend/seg_init.mp4"), "input"));
        for (n, b) in &sh.frags {
            w(&rend.join(n), b);
            roles.push((PathBuf::from("rend").join(n), "input"));
        }
        w(&work.join("manifest.json"), manifest_def("mp4").to_string().as_bytes());
        let out: String = match inv.out_state.as_str() {
            "absent" => "fout".into(),
            "empty-dir" => {
                std::fs::create_dir_all(work.join("fout")).ok()?;
                "fout".into()
            }
            "dir-with-rendition-files" => {
                w(&work.join("fout/rend/seg_init.mp4"), &precious("fout/rend/seg_init.mp4"));
                w(&work.join("fout/rend/seg_1.m4s"), &precious("fout/rend/seg_1.m4s"));
                w(&work.join("fout/rend/unrelated.txt"), &precious("fout/rend/unrelated.txt"));
                "fout".into()
            }
            "parent-of-input" => ".".into(),
            "existing-file" => {
                w(&work.join("fout"), &precious("fout"));
                "fout".into()
            }
            _ => return None,
        };
        roles.push((PathBuf::from(&out), "output-folder"));
        args.extend(["-m".into(), "manifest.json".into(), "-o".into(), out]);
        if inv.force {
            args.push("-f".into());
        }
        // no source asset to derive a parent from: sign the rendition as a new creation
        args.extend(["--create".into(), "digitalCapture".into()]);
        args.push("rend/seg_init.mp4".into());
        args.extend(["fragment".into(), "--fragments_glob".into(), "seg_[0-9].m4s".into()]);
        return Some(Prepared { args, roles, output: None });
    }
    if is_sign_mode(mode) {
        let bytes = sh.plain.get(ext)?;
        w(&work.join(&input), bytes);
        roles.push((PathBuf::from(&input), "input"));
        if inv.parent {
            let pb = sh.signed.get(ext).or_else(|| sh.plain.get(ext))?;
            w(&work.join(format!("parent.{ext}")), pb);
        }
        let other_ext = if ext == "png" { "jpg" } else { "png" };
        let out: String = match inv.out_state.as_str() {
            "absent" | "sidecar-existing-file" | "sidecar-symlink-to-file" | "sidecar-dir" | "sidecar-dangling-symlink" | "sidecar-hardlink" => format!("out.{ext}"),
            "absent-subdir" => format!("newdir/sub/out.{ext}"),
            "existing-file" => {
                w(&work.join(format!("other.{ext}")), &precious("other"));
                format!("other.{ext}")
            }
            "existing-dir" => {
                w(&work.join(format!("adir.{ext}/keep.txt")), &precious("keep"));
                format!("adir.{ext}")
            }
            "same-as-input" => input.clone(),
            "same-dotslash" => format!("./{input}"),
            "same-via-subdir-dotdot" => {
                std::fs::create_dir_all(work.join("sub")).ok()?;
                format!("sub/../{input}")
            }
            "same-symlink" => {
                std::os::unix::fs::symlink(&input, work.join(format!("link.{ext}"))).ok()?;
                format!("link.{ext}")
            }
            "same-hardlink" => {
                std::fs::hard_link(work.join(&input), work.join(format!("hard.{ext}"))).ok()?;
                format!("hard.{ext}")
            }
            "dangling-symlink" => {
                std::os::unix::fs::symlink(format!("nothere.{ext}"), work.join(format!("dang.{ext}"))).ok()?;
                format!("dang.{ext}")
            }
            "symlink-to-other" => {
                w(&work.join(format!("other.{ext}")), &precious("other"));
                std::os::unix::fs::symlink(format!("other.{ext}"), work.join(format!("lnk2.{ext}"))).ok()?;
                roles.push((PathBuf::from(format!("other.{ext}")), "output-link-target"));
                format!("lnk2.{ext}")
            }
            "ext-mismatch" => format!("out.{other_ext}"),
            "no-ext" => "outnoext".into(),
            _ => return None,
        };
        let out_norm: PathBuf = PathBuf::from(out.trim_start_matches("./").replace("sub/../", ""));
        roles.push((out_norm.clone(), "output"));
        let sidecar = PathBuf::from(&out).with_extension("c2pa");
        let sidecar_norm = out_norm.with_extension("c2pa");
        match inv.out_state.as_str() {
            "sidecar-existing-file" => w(&work.join(&sidecar), &precious("sidecar")),
            "sidecar-symlink-to-file" => {
                std::os::unix::fs::symlink("precious.bin", work.join(&sidecar)).ok()?;
                roles.push((PathBuf::from("precious.bin"), "sidecar-link-target"));
            }
            "sidecar-dir" => w(&work.join(&sidecar).join("keep.txt"), &precious("keep")),
            "sidecar-dangling-symlink" => {
                std::os::unix::fs::symlink("nothere.c2pa", work.join(&sidecar)).ok()?;
            }
            "sidecar-hardlink" => {
                std::fs::hard_link(work.join("precious.bin"), work.join(&sidecar)).ok()?;
                roles.push((PathBuf::from("precious.bin"), "sidecar-link-target"));
            }
            _ => {}
        }
        roles.push((sidecar_norm, "sidecar"));
        let def = manifest_def(ext);
        if inv.via_config {
            args.extend(["-c".into(), def.to_string()]);
        } else {
            w(&work.join("manifest.json"), def.to_string().as_bytes());
            args.extend(["-m".into(), "manifest.json".into()]);
        }
        args.extend(["-o".into(), out.clone()]);
        if inv.force {
            args.push("-f".into());
        }
        match mode {
            "sidecar" => args.push("-s".into()),
            "remote" => args.extend(["-r".into(), "http://127.0.0.1:9/c32/manifest.c2pa".into()]),
            "remote-sidecar" => args.extend(["-s".into(), "-r".into(), "http://127.0.0.1:9/c32/manifest.c2pa".into()]),
            _ => {}
        }
        if inv.parent {
            args.extend(["-p".into(), format!("parent.{ext}")]);
        }
        args.push(input);
        return Some(Prepared { args, roles, output: Some(out_norm) });
    }
    // folder / read-only modes need an input that carries a manifest
    let bytes = sh.signed.get(ext)?;
    w(&work.join(&input), bytes);
    roles.push((PathBuf::from(&input), "input"));
    if mode == "readonly" {
        args.push(input);
        match inv.out_state.as_str() {
            "info" => args.push("--info".into()),
            "tree" => args.push("--tree".into()),
            "certs" => args.push("--certs".into()),
            "detailed" => args.push("-d".into()),
            "crjson" => args.push("--crjson".into()),
            "ingredient" => args.push("--ingredient".into()),
            _ => {}
        }
        return Some(Prepared { args, roles, output: None });
    }
    let out: String = match inv.out_state.as_str() {
        "absent" => "report".into(),
        "absent-nested" => "a/b/report".into(),
        "empty-dir" => {
            std::fs::create_dir_all(work.join("report")).ok()?;
            "report".into()
        }
        "nonempty-dir" => {
            w(&work.join("report/keep.txt"), &precious("keep"));
            w(&work.join("report/sub/deep.txt"), &precious("deep"));
            "report".into()
        }
        "existing-file" => {
            w(&work.join("report"), &precious("report-file"));
            "report".into()
        }
        "symlink-to-nonempty-dir" => {
            w(&work.join("realdir/keep.txt"), &precious("keep"));
            std::os::unix::fs::symlink("realdir", work.join("report")).ok()?;
            roles.push((PathBuf::from("realdir"), "output-link-target"));
            "report".into()
        }
        "dir-with-report-files" => {
            w(&work.join("report/manifest_store.json"), &precious("old-report"));
            w(&work.join("report/ingredient.json"), &precious("old-ingredient"));
            w(&work.join("report/manifest_data.c2pa"), &precious("old-data"));
            "report".into()
        }
        _ => return None,
    };
    roles.push((PathBuf::from(&out), "output-folder"));
    args.push(input);
    args.extend(["-o".into(), out]);
    match mode {
        "detailed" => args.push("-d".into()),
        "ingredient" => args.push("--ingredient".into()),
        _ => {}
    }
    if inv.force {
        args.push("-f".into());
    }
    Some(Prepared { args, roles, output: None })
}

struct Outcome {
    class: String,
    nontrivial: bool,
    violations: Vec<(String, String)>,
    unjudged: Vec<String>,
    inconclusive: Option<String>,
    exit: String,
    counters: Vec<(String, u64)>,
    detail: Value,
}

fn role_of(rel: &Path, roles: &[(PathBuf, &'static str)]) -> &'static str {
    // rel is relative to the sandbox: "work/<..>" or "home/<..>"
    let Ok(in_work) = rel.strip_prefix("work") else {
        return "home";
    };
    for (p, r) in roles {
        if in_work == p.as_path() {
            return r;
        }
    }
    for (p, r) in roles {
        if (*r == "output-folder" || *r == "output-link-target" || *r == "output") && p.as_os_str() != "." && in_work.starts_with(p) {
            return "output-folder-content";
        }
    }
    if roles.iter().any(|(p, r)| *r == "output-folder" && p.as_os_str() == ".") {
        return "output-folder-content";
    }
    "other"
}

/// Cause-class tokens for witness signatures (the detailed mode / role / state stay in the class strings).
fn mode_group(m: &str) -> &'static str {
    match m {
        "embed" | "remote" => "sign",
        "sidecar" | "remote-sidecar" => "sign-sidecar",
        "report" | "detailed" | "ingredient" => "folder",
        "fragment" => "fragment",
        _ => "readonly",
    }
}

fn role_group(r: &str) -> &'static str {
    match r {
        "sidecar" | "sidecar-link-target" => "sidecar",
        "output" | "output-link-target" | "output-folder" | "output-folder-content" => "output",
        "input" => "input",
        "home" => "home",
        _ => "other",
    }
}

fn state_group(s: &str) -> String {
    match s {
        "sidecar-existing-file" | "sidecar-symlink-to-file" | "sidecar-hardlink" => "existing-sidecar".into(),
        "same-as-input" | "same-dotslash" | "same-symlink" | "same-hardlink" | "same-via-subdir-dotdot" => "output-is-input".into(),
        x => x.to_string(),
    }
}

fn effect_group(e: &str) -> &'static str {
    match e {
        "deleted" => "deleted",
        _ => "overwritten",
    }
}

fn stderr_class(s: &str) -> String {
    let s = s.trim();
    let line = s.lines().find(|l| l.starts_with("Error") || l.contains("rror")).or_else(|| s.lines().last()).unwrap_or("");
    let mut c: String = line.chars().filter(|c| c.is_ascii_alphabetic() || *c == ' ').collect();
    c.truncate(48);
    c.trim().replace(' ', "_")
}

fn run_tool(tool: &Path, work: &Path, home: &Path, args: &[String]) -> Result<(i32, String, String), String> {
    let mut child = Command::new(tool)
        .current_dir(work)
        .env_clear()
        .env("HOME", home)
        .env("XDG_CONFIG_HOME", home.join(".config"))
        .env("PATH", "/usr/bin:/bin")
        .env("RUST_BACKTRACE", "0")
        .args(args)
        .stdin(Stdio::null())
        .stdout(Stdio::piped())
        .stderr(Stdio::piped())
        .spawn()
        .map_err(|e| format!("spawn: {e}"))?;
    // stdout/stderr can be large (reports): drain them on threads while polling for exit
    let mut so = child.stdout.take().ok_or("no stdout")?;
    let mut se = child.stderr.take().ok_or("no stderr")?;
    let t1 = std::thread::spawn(move || {
        let mut v = Vec::new();
        let _ = std::io::Read::read_to_end(&mut so, &mut v);
        v
    });
    let t2 = std::thread::spawn(move || {
        let mut v = Vec::new();
        let _ = std::io::Read::read_to_end(&mut se, &mut v);
        v
    });
    let t0 = std::time::Instant::now();
    let status = loop {
        match child.try_wait() {
            Ok(Some(s)) => break s,
            Ok(None) => {
                if t0.elapsed().as_secs() > 600 {
                    let _ = child.kill();
                    let _ = child.wait();
                    return Err("watchdog: c2patool did not finish within 600 s".into());
                }
                std::thread::sleep(std::time::Duration::from_millis(5));
            }
            Err(e) => return Err(format!("wait: {e}")),
        }
    };
    let out = String::from_utf8_lossy(&t1.join().unwrap_or_default()).to_string();
    let err = String::from_utf8_lossy(&t2.join().unwrap_or_default()).to_string();
    let code = status.code().unwrap_or_else(|| 128 + std::os::unix::process::ExitStatusExt::signal(&status).unwrap_or(0));
    Ok((code, out, err))
}

fn run_inv(tmp: &Path, idx: usize, inv: &Inv, sh: &Shared, keep: bool) -> Outcome {
    let sandbox = tmp.join(format!("i{idx:05}"));
    fssnap::rm_rf(&sandbox);
    let work = sandbox.join("work");
    let home = sandbox.join("home");
    std::fs::create_dir_all(&work).expect("work");
    std::fs::create_dir_all(home.join(".config")).expect("home");
    let mut o = Outcome {
        class: String::new(),
        nontrivial: false,
        violations: Vec::new(),
        unjudged: Vec::new(),
        inconclusive: None,
        exit: String::new(),
        counters: Vec::new(),
        detail: json!(null),
    };
    let Some(prep) = prepare(&work, inv, sh) else {
        o.class = format!("{}|{}|{}|unprepared", inv.mode, inv.fmt, inv.out_state);
        fssnap::rm_rf(&sandbox);
        return o;
    };
    let before = fssnap::snapshot(&sandbox);
    let r = run_tool(&sh.tool, &work, &home, &prep.args);
    let (code, stdout, stderr) = match r {
        Ok(x) => x,
        Err(e) => {
            o.inconclusive = Some(e);
            fssnap::rm_rf(&sandbox);
            return o;
        }
    };
    let after = fssnap::snapshot(&sandbox);
    let changes = fssnap::diff(&before, &after);
    let exit_class = if code == 0 {
        "exit0".to_string()
    } else if code == 2 && stderr.contains("Usage:") {
        "usage-error".to_string()
    } else if code >= 128 || stderr.contains("panicked at") {
        format!("crash:{}", stderr_class(&stderr))
    } else {
        format!("err:{}", stderr_class(&stderr))
    };
    o.exit = exit_class.clone();
    o.nontrivial = exit_class != "usage-error";
    let mut effects: Vec<String> = Vec::new();
    let mut created = 0u64;
    for c in &changes {
        if c.change == ChangeKind::Created {
            created += 1;
            continue;
        }
        // pre-existing entry changed / replaced / deleted
        if c.before == Some(Kind::Dir) && c.change == ChangeKind::Content {
            continue;
        }
        let role = role_of(&c.path, &prep.roles);
        let eff = c.change.name();
        effects.push(format!("{role}:{eff}"));
        let what = format!(
            "`c2patool {}` (exit {code}) {} the pre-existing {} {} [{}]",
            prep.args.join(" "),
            match c.change {
                ChangeKind::Deleted => "deleted",
                ChangeKind::Retyped => "replaced (type changed)",
                ChangeKind::Content => "modified",
                _ => "rewrote/replaced",
            },
            c.before.as_ref().map(|k| k.name()).unwrap_or("entry"),
            c.path.display(),
            role
        );
        if !inv.force {
            o.violations.push((format!("{}|{}|{}|{}", mode_group(&inv.mode), role_group(role), state_group(&inv.out_state), effect_group(eff)), what));
        } else if role == "other" || role == "home" || (role == "input" && !inv.out_state.starts_with("same") && inv.out_state != "parent-of-input") {
            o.violations.push((format!("{}+force|{}|{}|{}", mode_group(&inv.mode), role_group(role), state_group(&inv.out_state), effect_group(eff)), what));
        } else {
            o.unjudged.push(format!("force:{role}:{eff}"));
        }
    }
    o.counters.push(("entries_created".into(), created));
    o.counters.push(("preexisting_entries_changed".into(), effects.len() as u64));
    // a crash of the tool is worth a finding of its own kind (not this property's oracle, but never silent)
    if exit_class.starts_with("crash") {
        o.violations.push((format!("{}|tool|{}|crash", mode_group(&inv.mode), state_group(&inv.out_state)), format!("`c2patool {}` crashed: {}", prep.args.join(" "), stderr.lines().last().unwrap_or(""))));
    }
    // Oracle B
    let mut readback = "n/a".to_string();
    if is_sign_mode(&inv.mode) && code == 0 {
        let out = work.join(prep.output.clone().unwrap_or_default());
        let rb = report::catch_sdk(|| Reader::from_context(Context::new()).with_file(&out).map(|r| (r.validation_state(), r.active_label().map(|s| s.to_string()))));
        readback = match rb {
            Ok(Ok((ValidationState::Valid, _))) => "valid".into(),
            Ok(Ok((ValidationState::Trusted, _))) => "trusted".into(),
            Ok(Ok((ValidationState::Invalid, _))) => "invalid".into(),
            Ok(Err(e)) => format!("unreadable:{}", report::err_kind(&e)),
            Err(p) => format!("panic:{p}"),
        };
        if readback != "valid" && readback != "trusted" {
            o.violations.push((
                format!("{}|output|{}|readback-{}", mode_group(&inv.mode), state_group(&inv.out_state), readback.split(':').next().unwrap_or("")),
                format!("`c2patool {}` exited 0 and printed a report ({} bytes of stdout) but {} reads back as {readback} in the monitor process", prep.args.join(" "), stdout.len(), out.display()),
            ));
        }
        if !stdout.contains("active_manifest") && !stdout.contains("manifests") {
            o.unjudged.push("exit0-without-report-on-stdout".into());
        }
    }
    effects.sort();
    effects.dedup();
    o.class = format!(
        "{}|{}|{}|{}{}{}|{}|{}|rb={}",
        inv.mode,
        inv.fmt,
        inv.out_state,
        if inv.force { "force" } else { "noforce" },
        if inv.parent { "+parent" } else { "" },
        if inv.via_config { "+c" } else { "" },
        exit_class,
        if effects.is_empty() { "no-preexisting-change".to_string() } else { effects.join(",") },
        readback
    );
    o.detail = json!({"args": prep.args, "exit": code, "stderr_tail": stderr.lines().rev().take(3).collect::<Vec<_>>(), "changes": changes.iter().map(|c| format!("{}:{}", c.change.name(), c.path.display())).collect::<Vec<_>>()});
    if !keep {
        fssnap::rm_rf(&sandbox);
    }
    o
}

fn build_tool(run: &mut Run) -> Option<PathBuf> {
    let script = evidence::verif_root().join("tools/build_cli.sh");
    let t0 = std::time::Instant::now();
    let out = Command::new("sh").arg(&script).env("VERIF_REPO", evidence::repo_root()).output();
    match out {
        Ok(o) if o.status.success() => {
            let s = String::from_utf8_lossy(&o.stdout);
            let p = PathBuf::from(s.lines().last().unwrap_or("").trim());
            if p.is_file() {
                run.engine("cli", true, json!({"binary": p, "profile": "debug", "build_s": t0.elapsed().as_secs_f64()}));
                return Some(p);
            }
            run.inconclusive(format!("build_cli.sh succeeded but {} is not a file", p.display()));
            None
        }
        Ok(o) => {
            run.inconclusive(format!("c2patool build failed: {}", String::from_utf8_lossy(&o.stderr).lines().last().unwrap_or("")));
            None
        }
        Err(e) => {
            run.inconclusive(format!("cannot run build_cli.sh: {e}"));
            None
        }
    }
}

fn sign_in_process(fmt: &str, bytes: &[u8]) -> Option<Vec<u8>> {
    let signer = signers::test_signer("es256");
    let r = report::catch_sdk(|| -> c2pa::Result<Vec<u8>> {
        let ctx = Context::new().with_settings(json!({"builder": {"thumbnail": {"enabled": false}}}).to_string().as_str())?;
        let mut b = Builder::from_context(ctx).with_definition(json!({"title": "c32-input", "thumbnail": {"format": "image/jpeg", "identifier": "t.jpg"}, "assertions": [{"label": "org.verif.c32in", "data": {"k": 2}}]}))?;
        b.add_resource("t.jpg", Cursor::new(b"THUMB-c32".to_vec()))?;
        b.set_intent(BuilderIntent::Edit);
        let mut s = Cursor::new(bytes.to_vec());
        let mut d = Cursor::new(Vec::new());
        b.sign(signer.as_ref(), fmt, &mut s, &mut d)?;
        Ok(d.into_inner())
    });
    r.ok().and_then(|x| x.ok())
}

fn main() {
    let mut run = Run::from_args("C32", "exploration");
    report::quiet_panics();
    run.rule = "invocation = (mode: embed/-s sidecar/-r remote/-r -s/report folder/-d/--ingredient/fragment/read-only) x (state of the output path before the run: absent, new sub-directory, existing file, existing directory, the input itself, the input via ./ , sub/.. , symlink or hard link, dangling symlink, symlink to another file, wrong/missing extension; existing sidecar out.c2pa as file/symlink/dir/dangling/hard link; report folder absent/empty/non-empty/file/symlink/with old report files; fragment output absent/empty/with rendition files/parent of the input) x -f x format x -m/-c x -p. Non-trivial = the tool ran past argument parsing; distinct = (mode, format, out-state, force, exit class, changed pre-existing roles, read-back state).".into();
    run.assumptions = vec![
        "every pre-existing entry of the sandbox (content hash, type, link target, inode) is protected without -f; with -f only the output, its sidecar, the output folder and aliases of those are allowed to change".into(),
        "newly created entries are never judged; directory mtimes are ignored".into(),
        "'reports as signed' = a signing-mode invocation that exits 0; read-back uses Reader::with_file with default settings in the monitor process (Valid or Trusted accepted)".into(),
        "the tool is the debug-profile build of /repo/cli (thin-LTO release build is too slow to rebuild on every run)".into(),
    ];
    let Some(tool) = build_tool(&mut run) else {
        run.finish(40);
    };
    let repo = evidence::repo_root();
    let mut sh = Shared {
        tool,
        plain: BTreeMap::new(),
        signed: BTreeMap::new(),
        cert: std::fs::read(repo.join("cli/sample/es256_certs.pem")).expect("sample cert"),
        key: std::fs::read(repo.join("cli/sample/es256_private.key")).expect("sample key"),
        frag_init: std::fs::read(repo.join("sdk/tests/fixtures/bunny/bunny_89283bps/BigBuckBunny_2s_init.mp4")).unwrap_or_default(),
        frags: Vec::new(),
    };
    for (i, n) in ["BigBuckBunny_2s1.m4s", "BigBuckBunny_2s2.m4s", "BigBuckBunny_2s3.m4s"].iter().enumerate() {
        if let Ok(b) = std::fs::read(repo.join("sdk/tests/fixtures/bunny/bunny_89283bps").join(n)) {
            sh.frags.push((format!("seg_{}.m4s", i + 1), b));
        }
    }
    for a in assets::tiny_assets() {
        if !sh.plain.contains_key(a.format) {
            if let Some(s) = sign_in_process(a.format, &a.bytes) {
                sh.signed.insert(a.format.to_string(), s);
            }
            sh.plain.insert(a.format.to_string(), a.bytes.clone());
        }
    }
    if let Ok(b) = std::fs::read(repo.join("cli/sample/C.jpg")) {
        sh.signed.insert("jpeg".into(), b);
    }
    if let Some(b) = sh.plain.get("jpg").cloned() {
        sh.plain.insert("jpeg".into(), b);
    }
    let tmp_parent = evidence::verif_root().join(".build/tmp");
    let tmp = tmp_parent.join(format!("c32-{}", std::process::id()));
    fssnap::rm_rf(&tmp);
    std::fs::create_dir_all(&tmp).expect("tmp");

    if let Some(p) = run.replay.clone() {
        let v: Value = serde_json::from_slice(&std::fs::read(&p).expect("replay file")).expect("json");
        let inv = inv_from_json(&v["witness"]["invocation"]);
        let o = run_inv(&tmp, 0, &inv, &sh, false);
        println!("replay: class={} violations={:?} detail={}", o.class, o.violations, o.detail);
        fssnap::rm_rf(&tmp);
        std::process::exit(if o.violations.is_empty() { 0 } else { 1 });
    }

    // ---- workload
    let mut rng = Rng::new(run.seed, "c32");
    let quick = run.quick();
    let all_fmts: Vec<String> = sh.plain.keys().cloned().collect();
    let mut invs: Vec<Inv> = Vec::new();
    let sign_modes = ["embed", "sidecar", "remote", "remote-sidecar"];
    for mode in sign_modes {
        let mut states: Vec<&str> = FILE_STATES.to_vec();
        if mode.contains("sidecar") {
            states.extend(SIDECAR_STATES);
        }
        for st in states {
            for force in [false, true] {
                let fmts: Vec<String> = if quick {
                    let mut f = vec!["jpg".to_string()];
                    f.push(rng.pick(&all_fmts).clone());
                    f
                } else {
                    all_fmts.clone()
                };
                for fmt in fmts {
                    let variants: Vec<(bool, bool)> = if quick { vec![(rng.chance(1, 4), rng.chance(1, 3))] } else { vec![(false, false), (true, false), (false, true)] };
                    for (parent, via_config) in variants {
                        invs.push(Inv { mode: mode.into(), fmt: fmt.clone(), out_state: st.into(), force, parent, via_config });
                    }
                }
            }
        }
    }
    let signed_fmts: Vec<String> = sh.signed.keys().cloned().collect();
    for mode in ["report", "detailed", "ingredient"] {
        for st in DIR_STATES {
            for force in [false, true] {
                let fmts: Vec<String> = if quick { vec!["jpeg".to_string(), rng.pick(&signed_fmts).clone()] } else { signed_fmts.clone() };
                for fmt in fmts {
                    invs.push(Inv { mode: mode.into(), fmt, out_state: (*st).into(), force, parent: false, via_config: false });
                }
            }
        }
    }
    if !sh.frag_init.is_empty() && !sh.frags.is_empty() {
        for st in FRAG_STATES {
            for force in [false, true] {
                invs.push(Inv { mode: "fragment".into(), fmt: "mp4".into(), out_state: (*st).into(), force, parent: false, via_config: false });
            }
        }
    } else {
        run.inconclusive("fragment fixtures missing: fragment mode not exercised");
    }
    for st in ["plain", "info", "tree", "certs", "detailed", "crjson", "ingredient"] {
        invs.push(Inv { mode: "readonly".into(), fmt: "jpeg".into(), out_state: st.into(), force: false, parent: false, via_config: false });
    }
    let results = par::par_map(invs.len(), |i| run_inv(&tmp, i, &invs[i], &sh, false));
    let mut unjudged: BTreeMap<String, u64> = BTreeMap::new();
    let mut n_incon = 0;
    for (i, o) in results.iter().enumerate() {
        run.eval();
        if let Some(why) = &o.inconclusive {
            n_incon += 1;
            if n_incon <= 3 {
                run.inconclusive(format!("{}: {why}", o.class));
            }
            continue;
        }
        run.count(&format!("mode:{}", invs[i].mode), 1);
        run.count(&format!("exit:{}", o.exit.split(':').next().unwrap_or("")), 1);
        for (k, n) in &o.counters {
            run.count(k, *n);
        }
        for u in &o.unjudged {
            *unjudged.entry(u.clone()).or_insert(0) += 1;
        }
        if o.nontrivial {
            run.nontrivial(o.class.clone());
            run.sample(&format!("{}:{}", invs[i].mode, o.exit.split(':').next().unwrap_or("")), 1, json!({"invocation": inv_json(&invs[i]), "observed": o.detail, "class": o.class}));
        }
        for (sig, what) in &o.violations {
            run.violation(sig, what, json!({"invocation": inv_json(&invs[i]), "observed": o.detail}));
        }
    }
    fssnap::rm_rf(&tmp);
    let _ = std::fs::remove_dir(&tmp_parent);
    run.set("invocations", json!(invs.len()));
    run.set("unjudged", json!(unjudged));
    run.set("formats", json!(all_fmts));
    run.finish(40);
}
