#!/bin/bash
. "$(cd "$(dirname "$0")" && pwd)/env.sh"
# Warm-up for the "dbg" engine of C10 (debug assertions + overflow checks): the check rebuilds it on
# every run (no-op when fresh); building it in setup keeps the first quick run short.
cd "$(dirname "$0")/../harness" || exit 0
export CARGO_NET_OFFLINE=true
export CARGO_TARGET_DIR="$(cd .. && pwd)/.build"
cargo build --profile dbg --offline -p vmon --bin c10 2>&1 | tail -2
exit 0
