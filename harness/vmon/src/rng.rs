//! Deterministic PRNG (splitmix64 seeding + xoshiro256**). Every random choice in a
//! monitor derives from VERIF_SEED through `Rng::new(seed, stream_name)`.
#[derive(Clone, Debug)]
pub struct Rng {
    s: [u64; 4],
}

fn splitmix(x: &mut u64) -> u64 {
    *x = x.wrapping_add(0x9E37_79B9_7F4A_7C15);
    let mut z = *x;
    z = (z ^ (z >> 30)).wrapping_mul(0xBF58_476D_1CE4_E5B9);
    z = (z ^ (z >> 27)).wrapping_mul(0x94D0_49BB_1331_11EB);
    z ^ (z >> 31)
}

impl Rng {
    pub fn new(seed: u64, stream: &str) -> Rng {
        let mut h = seed ^ 0xA076_1D64_78BD_642F;
        for b in stream.bytes() {
            h = (h ^ b as u64).wrapping_mul(0x100_0000_01B3);
        }
        let mut x = h;
        let s = [splitmix(&mut x), splitmix(&mut x), splitmix(&mut x), splitmix(&mut x)];
        Rng { s }
    }
    pub fn fork(&mut self, n: u64) -> Rng {
        let a = self.next_u64();
        Rng::new(a ^ n.wrapping_mul(0x9E37_79B9_7F4A_7C15), "fork")
    }
    pub fn next_u64(&mut self) -> u64 {
        let r = self.s[1].wrapping_mul(5).rotate_left(7).wrapping_mul(9);
        let t = self.s[1] << 17;
        self.s[2] ^= self.s[0];
        self.s[3] ^= self.s[1];
        self.s[1] ^= self.s[2];
        self.s[0] ^= self.s[3];
        self.s[2] ^= t;
        self.s[3] = self.s[3].rotate_left(45);
        r
    }
    /// uniform in [0, n) (n > 0)
    pub fn below(&mut self, n: u64) -> u64 {
        if n == 0 {
            return 0;
        }
        self.next_u64() % n
    }
    pub fn range(&mut self, lo: u64, hi_incl: u64) -> u64 {
        lo + self.below(hi_incl - lo + 1)
    }
    pub fn usize(&mut self, n: usize) -> usize {
        self.below(n as u64) as usize
    }
    pub fn bool(&mut self) -> bool {
        self.next_u64() & 1 == 1
    }
    pub fn chance(&mut self, num: u64, den: u64) -> bool {
        self.below(den) < num
    }
    pub fn pick<'a, T>(&mut self, v: &'a [T]) -> &'a T {
        &v[self.usize(v.len())]
    }
    pub fn bytes(&mut self, n: usize) -> Vec<u8> {
        let mut v = Vec::with_capacity(n);
        while v.len() < n {
            let x = self.next_u64().to_le_bytes();
            let k = (n - v.len()).min(8);
            v.extend_from_slice(&x[..k]);
        }
        v
    }
    pub fn shuffle<T>(&mut self, v: &mut [T]) {
        for i in (1..v.len()).rev() {
            let j = self.usize(i + 1);
            v.swap(i, j);
        }
    }
    pub fn ascii_lower(&mut self, n: usize) -> String {
        (0..n).map(|_| (b'a' + self.below(26) as u8) as char).collect()
    }
}
