//! Workloads: the golden path (sanity + fixtures made through the C API itself), random call
//! histories, and directed histories for the reported findings.
use crate::model::*;
use crate::table::*;
use c2pa_c::utils::verif_hooks as hooks;
use std::ffi::CString;
use vmon::Rng;

fn slot(s: usize) -> A {
    A::Slot { slot: s, intent: "live".into() }
}
fn st(k: &str) -> A {
    A::Str { key: k.into() }
}
fn call(f: &str, a: Vec<A>) -> Call {
    Call { f: f.into(), a }
}
fn content(kind: &str) -> A {
    A::Num { v: STREAM_CONTENTS.iter().position(|k| *k == kind).expect("content kind") as u64 }
}

/// Signs a tiny JPEG, archives the builder, reads the result back and reads a fixture with a
/// thumbnail — all through the C API and under the oracle.  Fills the fixtures other histories
/// use (signed asset, manifest bytes, archive, a resolvable resource URI).
pub fn golden(fx: &mut Fixt) -> Result<Vec<String>, String> {
    let mut signed = Vec::new();
    let mut archive = Vec::new();
    let mut manifest = Vec::new();
    let mut uri = None;
    let mut viols = Vec::new();
    {
        let mut h = Hist::new(fx, None, "");
        let need = |o: &StepOut, what: &str, h: &Hist| -> Result<usize, String> { o.new_slot.ok_or_else(|| format!("golden path: {what} failed: {}", h.last_error)) };
        let o = h.step(call("c2pa_load_settings", vec![st("set:json"), st("sf:json")]));
        if o.failed {
            return Err(format!("golden path: c2pa_load_settings failed: {}", h.last_error));
        }
        let o = h.step(call("c2pa_signer_from_info", vec![A::Info { key: "ed25519".into() }]));
        let signer = need(&o, "c2pa_signer_from_info", &h)?;
        let o = h.step(call("c2pa_builder_from_json", vec![st("mj:full")]));
        let builder = need(&o, "c2pa_builder_from_json", &h)?;
        let o = h.step(call("c2pa_create_stream", vec![content("jpeg")]));
        let src = need(&o, "c2pa_create_stream", &h)?;
        let o = h.step(call("c2pa_create_stream", vec![content("empty")]));
        let dst = need(&o, "c2pa_create_stream", &h)?;
        let dst_back = h.n_backs() - 1;
        let o = h.step(call("c2pa_builder_sign", vec![slot(builder), st("fmt:jpeg"), slot(src), slot(dst), slot(signer), A::Out { valid: true }]));
        if o.failed {
            return Err(format!("golden path: c2pa_builder_sign failed: {}", h.last_error));
        }
        let mb = o.out_slot.ok_or("golden path: sign returned no manifest bytes")?;
        let n = o.ret_int as usize;
        manifest.extend_from_slice(unsafe { std::slice::from_raw_parts(h.m.slots[mb].addr as *const u8, n) });
        signed = h.back_bytes(dst_back);
        let o = h.step(call("c2pa_create_stream", vec![content("empty")]));
        let ar = need(&o, "c2pa_create_stream", &h)?;
        let ar_back = h.n_backs() - 1;
        let o = h.step(call("c2pa_builder_to_archive", vec![slot(builder), slot(ar)]));
        if o.failed {
            return Err(format!("golden path: c2pa_builder_to_archive failed: {}", h.last_error));
        }
        archive = h.back_bytes(ar_back);
        // read back what we signed
        let o = h.step(call("c2pa_reader_from_stream", vec![st("fmt:jpeg"), slot(dst)]));
        let rd = need(&o, "c2pa_reader_from_stream(signed)", &h)?;
        let o = h.step(call("c2pa_reader_json", vec![slot(rd)]));
        let js = need(&o, "c2pa_reader_json", &h)?;
        let json = unsafe { std::ffi::CStr::from_ptr(h.m.slots[js].addr as *const _) }.to_string_lossy().into_owned();
        if !json.contains("active_manifest") {
            return Err("golden path: signed asset has no active manifest".into());
        }
        // a fixture with a thumbnail gives a resolvable resource URI
        let o = h.step(call("c2pa_reader_from_file", vec![st("file:cjpg")]));
        if let Some(r2) = o.new_slot {
            let o = h.step(call("c2pa_reader_json", vec![slot(r2)]));
            if let Some(j2) = o.new_slot {
                let json = unsafe { std::ffi::CStr::from_ptr(h.m.slots[j2].addr as *const _) }.to_string_lossy().into_owned();
                if let Some(p) = json.find("\"identifier\":") {
                    let rest = &json[p + 13..];
                    if let Some(q) = rest.find('"') {
                        let rest = &rest[q + 1..];
                        if let Some(e) = rest.find('"') {
                            uri = Some(rest[..e].to_string());
                        }
                    }
                }
            }
        }
        h.finish();
        for v in &h.viols {
            viols.push(format!("{} :: {}", v.sig, v.what));
        }
        if hooks::registry_len() != 0 {
            return Err("golden path: registry not empty at the end".into());
        }
    }
    fx.contents.insert("signed".into(), signed);
    fx.contents.insert("archive".into(), archive);
    fx.bufs.insert("mb:ok".into(), manifest);
    if let Some(u) = uri {
        fx.strings.insert("uri:thumb".into(), CString::new(u).map_err(|e| e.to_string())?);
    } else {
        return Err("golden path: no resource identifier found in the fixture's manifest".into());
    }
    Ok(viols)
}

const BAD_KINDS: &[(&str, u32)] = &[("null", 3), ("freed", 6), ("wrongtype", 5), ("foreign-buf", 1), ("misaligned", 1), ("smallint", 1), ("randbuf", 1), ("interior", 2), ("reissued", 2)];

fn weighted<'x, T>(rng: &mut Rng, items: &'x [(T, u32)]) -> &'x T {
    let total: u32 = items.iter().map(|(_, w)| *w).sum();
    let mut r = rng.below(total as u64) as u32;
    for (t, w) in items {
        if r < *w {
            return t;
        }
        r -= *w;
    }
    &items[0].0
}

fn bad_handle(rng: &mut Rng, m: &Model, want: Option<Ty>, allow_null: bool) -> A {
    for _ in 0..8 {
        let kind = *weighted(rng, BAD_KINDS);
        match kind {
            "null" if allow_null => return A::Null,
            "freed" => {
                let c: Vec<usize> = m.freed.iter().copied().filter(|s| !m.live.contains_key(&m.slots[*s].addr)).collect();
                if !c.is_empty() {
                    return A::Slot { slot: *rng.pick(&c), intent: "freed".into() };
                }
            }
            "reissued" => {
                // a released slot whose address the library has handed out again
                let c: Vec<usize> = m.freed.iter().copied().filter(|s| m.live.contains_key(&m.slots[*s].addr)).collect();
                if !c.is_empty() {
                    return A::Slot { slot: *rng.pick(&c), intent: "freed".into() };
                }
            }
            "wrongtype" => {
                if let Some(t) = want {
                    let c = m.live_not(t);
                    if !c.is_empty() {
                        return A::Slot { slot: *rng.pick(&c), intent: "live".into() };
                    }
                }
            }
            "interior" => {
                let c = match want {
                    Some(t) => m.live_of(t),
                    None => m.live_slots(),
                };
                if !c.is_empty() {
                    return A::Interior { slot: *rng.pick(&c) };
                }
            }
            "foreign-buf" | "misaligned" | "smallint" | "randbuf" => return A::Foreign { kind: kind.into() },
            _ => {}
        }
    }
    A::Foreign { kind: "foreign-buf".into() }
}

fn gen_str(rng: &mut Rng, kind: &str, optional: bool) -> A {
    let (pool, nvalid) = str_pool(kind);
    let r = rng.below(100);
    if r < (if optional { 40 } else { 6 }) {
        return st("null");
    }
    if r < 85 || nvalid == pool.len() {
        st(pool[rng.usize(nvalid)])
    } else {
        st(pool[nvalid + rng.usize(pool.len() - nvalid)])
    }
}

fn gen_num(rng: &mut Rng, kind: &str) -> A {
    let v = match kind {
        "intent" => rng.below(3),
        "dst" => rng.below(4),
        "reserve" => *rng.pick(&[0u64, 1024, 20000]),
        "kb" => *rng.pick(&[0u64, 1, 64]),
        "mdat" => rng.below(2),
        "bool" => rng.below(2),
        "content" => {
            // favour contents that let later calls succeed
            *rng.pick(&[0u64, 0, 1, 1, 1, 2, 3, 3, 3, 4, 4, 5, 6])
        }
        _ => 0,
    };
    A::Num { v }
}

/// Builds the next call from the model state.  At most one handle argument is deliberately
/// invalid, so a rejection (or a crash) can be attributed to that argument.
pub fn gen_call(rng: &mut Rng, m: &Model) -> Call {
    let weights: Vec<(usize, u32)> = FUNCS.iter().enumerate().map(|(i, f)| (i, f.w)).collect();
    let mut fi = *weighted(rng, &weights);
    // keep the population of live handles bounded
    if m.live.len() > 40 && rng.chance(1, 2) {
        fi = func("c2pa_free");
    }
    for _attempt in 0..4 {
        let f = &FUNCS[fi];
        let hidx: Vec<usize> = f.params.iter().enumerate().filter(|(_, p)| matches!(p, P::H(..) | P::HOpt(_) | P::HAny | P::SA)).map(|(i, _)| i).collect();
        let bad_at = if !hidx.is_empty() && rng.chance(40, 100) { Some(*rng.pick(&hidx)) } else { None };
        let mut used: Vec<usize> = Vec::new();
        let mut args = Vec::new();
        let mut missing: Option<Ty> = None;
        for (i, p) in f.params.iter().enumerate() {
            let a = match p {
                P::H(ty, _) | P::HOpt(ty) => {
                    let optional = matches!(p, P::HOpt(_));
                    if bad_at == Some(i) {
                        bad_handle(rng, m, Some(*ty), !optional)
                    } else if optional && rng.chance(1, 3) {
                        A::Null
                    } else {
                        let c: Vec<usize> = m.live_of(*ty).into_iter().filter(|s| !used.contains(s)).collect();
                        if c.is_empty() {
                            missing = Some(*ty);
                            A::Null
                        } else {
                            let s = *rng.pick(&c);
                            used.push(s);
                            slot(s)
                        }
                    }
                }
                P::HAny => {
                    if bad_at == Some(i) {
                        bad_handle(rng, m, None, true)
                    } else {
                        let c = m.live_slots();
                        if c.is_empty() {
                            A::Null
                        } else {
                            slot(*rng.pick(&c))
                        }
                    }
                }
                P::S(kind, optional) => gen_str(rng, kind, *optional),
                P::B(kind) => A::Buf { key: (*rng.pick(buf_pool(kind))).into() },
                P::OutBytes => A::Out { valid: !rng.chance(1, 12) },
                // a NULL count / hash-type out-pointer is exercised in the directed class only
                P::OutCount | P::OutHash => A::Out { valid: true },
                P::N(kind) => gen_num(rng, kind),
                P::Arr => A::Arr { key: (*rng.pick(&["null", "refs", "roles", "empty"])).into() },
                P::Info => A::Info { key: (*rng.pick(&["ed25519", "ed25519", "ed25519", "bad-alg", "bad-key", "null-field"])).into() },
                P::SA => {
                    let c: Vec<usize> = m.arrays.iter().enumerate().filter(|(_, s)| s.live).map(|(i, _)| i).collect();
                    if c.is_empty() || bad_at == Some(i) {
                        A::Null
                    } else {
                        A::SArr { slot: *rng.pick(&c) }
                    }
                }
            };
            args.push(a);
        }
        if let Some(t) = missing {
            if rng.chance(4, 5) {
                // build up state instead: construct the missing handle first
                fi = func(constructor_for(t, rng.next_u64()));
                continue;
            }
        }
        return Call { f: f.name.into(), a: args };
    }
    call("c2pa_context_new", vec![])
}

/// One random history of `len` calls, then release of everything the model holds.
pub fn random_history(h: &mut Hist, rng: &mut Rng, len: usize) {
    for _ in 0..len {
        let c = gen_call(rng, &h.m);
        h.step(c);
        if h.tainted {
            break;
        }
    }
    h.finish();
}

pub const DIRECTED: &[&str] = &[
    "string-array-freed-twice",
    "string-array-foreign-pointer",
    "add-resource-null-stream",
    "add-resource-freed-stream",
    "add-resource-wrongtype-stream",
    "resource-to-stream-null-stream",
    "resource-to-stream-freed-stream",
    "resource-to-stream-wrongtype-stream",
    "sign-data-hashed-freed-asset",
    "sign-data-hashed-wrongtype-asset",
    "signer-from-info-null",
    "reader-mime-types-null-count",
    "builder-mime-types-null-count",
    "hash-type-null-out",
    "free-twice-each-type",
    "consume-then-free",
    "reissued-address-free",
    "context-signer-chain",
    "embeddable-chain",
];

/// Directed histories.  Those that pass a dangling pointer to an argument the library may not
/// validate run in their own child process; the parent classifies a crash.
pub fn directed(h: &mut Hist, name: &str) {
    let foreign = |k: &str| A::Foreign { kind: k.into() };
    match name {
        "string-array-freed-twice" => {
            let o = h.step(call("c2pa_reader_supported_mime_types", vec![A::Out { valid: true }]));
            if let Some(arr) = o.new_arr {
                h.step(call("c2pa_free_string_array", vec![A::SArr { slot: arr }]));
                h.step(call("c2pa_free_string_array", vec![A::SArr { slot: arr }]));
            }
        }
        "string-array-foreign-pointer" => {
            h.step(call("c2pa_free_string_array", vec![A::SArrForeign { kind: "foreign-buf".into() }]));
        }
        "add-resource-null-stream" | "add-resource-freed-stream" | "add-resource-wrongtype-stream" => {
            let b = h.step(call("c2pa_builder_from_json", vec![st("mj:empty")])).new_slot;
            let s = h.step(call("c2pa_create_stream", vec![content("jpeg")])).new_slot;
            if let (Some(b), Some(s)) = (b, s) {
                let arg = match name {
                    "add-resource-null-stream" => A::Null,
                    "add-resource-freed-stream" => {
                        h.step(call("c2pa_free", vec![slot(s)]));
                        A::Slot { slot: s, intent: "freed".into() }
                    }
                    _ => slot(b),
                };
                h.step(call("c2pa_builder_add_resource", vec![slot(b), st("uri:none"), arg]));
            }
        }
        "resource-to-stream-null-stream" | "resource-to-stream-freed-stream" | "resource-to-stream-wrongtype-stream" => {
            let src = h.step(call("c2pa_create_stream", vec![content("cjpg")])).new_slot;
            let dst = h.step(call("c2pa_create_stream", vec![content("empty")])).new_slot;
            if let (Some(src), Some(dst)) = (src, dst) {
                let r = h.step(call("c2pa_reader_from_stream", vec![st("fmt:jpeg"), slot(src)])).new_slot;
                if let Some(r) = r {
                    let arg = match name {
                        "resource-to-stream-null-stream" => A::Null,
                        "resource-to-stream-freed-stream" => {
                            h.step(call("c2pa_free", vec![slot(dst)]));
                            A::Slot { slot: dst, intent: "freed".into() }
                        }
                        _ => slot(r),
                    };
                    h.step(call("c2pa_reader_resource_to_stream", vec![slot(r), st("uri:thumb"), arg]));
                }
            }
        }
        "sign-data-hashed-freed-asset" | "sign-data-hashed-wrongtype-asset" => {
            let b = h.step(call("c2pa_builder_from_json", vec![st("mj:full")])).new_slot;
            let sg = h.step(call("c2pa_signer_from_info", vec![A::Info { key: "ed25519".into() }])).new_slot;
            let s = h.step(call("c2pa_create_stream", vec![content("jpeg")])).new_slot;
            if let (Some(b), Some(sg), Some(s)) = (b, sg, s) {
                let arg = if name.contains("freed") {
                    h.step(call("c2pa_free", vec![slot(s)]));
                    A::Slot { slot: s, intent: "freed".into() }
                } else {
                    slot(sg)
                };
                h.step(call("c2pa_builder_sign_data_hashed_embeddable", vec![slot(b), slot(sg), st("dh:ok"), st("fmt:jpeg"), arg, A::Out { valid: true }]));
            }
        }
        "signer-from-info-null" => {
            h.step(call("c2pa_signer_from_info", vec![A::Info { key: "null".into() }]));
        }
        "reader-mime-types-null-count" => {
            h.step(call("c2pa_reader_supported_mime_types", vec![A::Out { valid: false }]));
        }
        "builder-mime-types-null-count" => {
            h.step(call("c2pa_builder_supported_mime_types", vec![A::Out { valid: false }]));
        }
        "hash-type-null-out" => {
            if let Some(b) = h.step(call("c2pa_builder_from_json", vec![st("mj:empty")])).new_slot {
                h.step(call("c2pa_builder_hash_type", vec![slot(b), st("fmt:jpeg"), A::Out { valid: false }]));
            }
        }
        "free-twice-each-type" => {
            // every handle kind: free, free again (must be rejected), use after free (must be rejected)
            let mut made = Vec::new();
            for t in ALL_TY {
                for k in 0..3u64 {
                    let cname = constructor_for(*t, k);
                    let f = &FUNCS[func(cname)];
                    let mut args = Vec::new();
                    let mut ok = true;
                    for p in f.params {
                        args.push(match p {
                            P::H(ty, _) => match h.m.live_of(*ty).first() {
                                Some(s) => slot(*s),
                                None => {
                                    ok = false;
                                    A::Null
                                }
                            },
                            P::S(kind, _) => st(str_pool(kind).0[0]),
                            P::B(kind) => A::Buf { key: buf_pool(kind)[0].into() },
                            P::N(kind) if *kind == "content" => content("cjpg"),
                            P::N(_) => A::Num { v: 0 },
                            P::Info => A::Info { key: "ed25519".into() },
                            _ => A::Null,
                        });
                    }
                    if !ok {
                        continue;
                    }
                    if let Some(s) = h.step(call(cname, args)).new_slot {
                        made.push(s);
                    }
                }
            }
            for s in made {
                if !h.m.slot_live(s) {
                    continue; // consumed by a later constructor
                }
                h.step(call("c2pa_free", vec![slot(s)]));
                h.step(call("c2pa_free", vec![A::Slot { slot: s, intent: "freed".into() }]));
                h.step(call("cimpl_free", vec![A::Slot { slot: s, intent: "freed".into() }]));
                h.step(call("c2pa_reader_json", vec![A::Slot { slot: s, intent: "freed".into() }]));
                for k in ["foreign-buf", "misaligned", "smallint", "randbuf"] {
                    h.step(call("c2pa_free", vec![foreign(k)]));
                }
            }
        }
        "consume-then-free" => {
            // every consuming call: the consumed handle must be rejected by a later free / use
            let cb = h.step(call("c2pa_context_builder_new", vec![])).new_slot;
            let sg = h.step(call("c2pa_signer_from_info", vec![A::Info { key: "ed25519".into() }])).new_slot;
            let rs = h.step(call("c2pa_http_resolver_create", vec![])).new_slot;
            if let (Some(cb), Some(sg), Some(rs)) = (cb, sg, rs) {
                h.step(call("c2pa_context_builder_set_signer", vec![slot(cb), slot(sg)]));
                h.step(call("c2pa_free", vec![A::Slot { slot: sg, intent: "freed".into() }]));
                h.step(call("c2pa_signer_reserve_size", vec![A::Slot { slot: sg, intent: "freed".into() }]));
                h.step(call("c2pa_context_builder_set_http_resolver", vec![slot(cb), slot(rs)]));
                h.step(call("c2pa_free", vec![A::Slot { slot: rs, intent: "freed".into() }]));
                let ctx = h.step(call("c2pa_context_builder_build", vec![slot(cb)])).new_slot;
                h.step(call("c2pa_free", vec![A::Slot { slot: cb, intent: "freed".into() }]));
                h.step(call("c2pa_context_builder_build", vec![A::Slot { slot: cb, intent: "freed".into() }]));
                if let Some(ctx) = ctx {
                    let st_signed = h.step(call("c2pa_create_stream", vec![content("signed")])).new_slot;
                    let st_ar = h.step(call("c2pa_create_stream", vec![content("archive")])).new_slot;
                    let r = h.step(call("c2pa_reader_from_context", vec![slot(ctx)])).new_slot;
                    if let (Some(r), Some(ss)) = (r, st_signed) {
                        let r2 = h.step(call("c2pa_reader_with_stream", vec![slot(r), st("fmt:jpeg"), slot(ss)])).new_slot;
                        h.step(call("c2pa_reader_json", vec![A::Slot { slot: r, intent: "freed".into() }]));
                        h.step(call("c2pa_free", vec![A::Slot { slot: r, intent: "freed".into() }]));
                        if let Some(r2) = r2 {
                            // failing consuming call (bad stream): whatever happens to r2, no double free later
                            h.step(call("c2pa_reader_with_stream", vec![slot(r2), st("fmt:jpeg"), A::Null]));
                            h.step(call("c2pa_free", vec![A::Slot { slot: r2, intent: "freed".into() }]));
                        }
                    }
                    let b = h.step(call("c2pa_builder_from_context", vec![slot(ctx)])).new_slot;
                    if let Some(b) = b {
                        let b2 = h.step(call("c2pa_builder_with_definition", vec![slot(b), st("mj:full")])).new_slot;
                        h.step(call("c2pa_free", vec![A::Slot { slot: b, intent: "freed".into() }]));
                        if let (Some(b2), Some(sa)) = (b2, st_ar) {
                            let b3 = h.step(call("c2pa_builder_with_archive", vec![slot(b2), slot(sa)])).new_slot;
                            h.step(call("c2pa_free", vec![A::Slot { slot: b2, intent: "freed".into() }]));
                            if let Some(b3) = b3 {
                                h.step(call("c2pa_builder_with_definition", vec![slot(b3), st("mj:bad")]));
                                h.step(call("c2pa_free", vec![A::Slot { slot: b3, intent: "freed".into() }]));
                            }
                        }
                    }
                    let s1 = h.step(call("c2pa_signer_from_info", vec![A::Info { key: "ed25519".into() }])).new_slot;
                    let s2 = h.step(call("c2pa_signer_create", vec![st("pem:ed25519"), st("null")])).new_slot;
                    if let (Some(s1), Some(s2)) = (s1, s2) {
                        h.step(call("c2pa_identity_signer_create", vec![slot(s1), slot(s2), A::Arr { key: "refs".into() }, A::Arr { key: "null".into() }]));
                        h.step(call("c2pa_free", vec![A::Slot { slot: s1, intent: "freed".into() }]));
                        h.step(call("c2pa_free", vec![A::Slot { slot: s2, intent: "freed".into() }]));
                    }
                }
            }
        }
        "reissued-address-free" => {
            // free A, allocate until the address comes back, then "free A again": must succeed
            // and release the new handle exactly once.
            for _ in 0..6 {
                let Some(a) = h.step(call("c2pa_settings_new", vec![])).new_slot else { return };
                h.step(call("c2pa_free", vec![slot(a)]));
                let mut news = Vec::new();
                for _ in 0..4 {
                    if let Some(n) = h.step(call("c2pa_settings_new", vec![])).new_slot {
                        news.push(n);
                    }
                }
                h.step(call("c2pa_free", vec![A::Slot { slot: a, intent: "freed".into() }]));
                h.step(call("c2pa_free", vec![A::Slot { slot: a, intent: "freed".into() }]));
                let _ = news;
            }
        }
        "context-signer-chain" => {
            // signer and settings end up owned by a context; signing through the context; then
            // everything is released once (the sanitizer engines see a double drop of the signer)
            let se = h.step(call("c2pa_settings_new", vec![])).new_slot;
            let cb = h.step(call("c2pa_context_builder_new", vec![])).new_slot;
            let sg = h.step(call("c2pa_signer_create", vec![st("pem:ed25519"), st("null")])).new_slot;
            if let (Some(se), Some(cb), Some(sg)) = (se, cb, sg) {
                h.step(call("c2pa_settings_update_from_string", vec![slot(se), st("set:json"), st("sf:json")]));
                h.step(call("c2pa_context_builder_set_settings", vec![slot(cb), slot(se)]));
                h.step(call("c2pa_context_builder_set_signer", vec![slot(cb), slot(sg)]));
                h.step(call("c2pa_context_builder_set_progress_callback", vec![slot(cb)]));
                if let Some(ctx) = h.step(call("c2pa_context_builder_build", vec![slot(cb)])).new_slot {
                    let b = h.step(call("c2pa_builder_from_context", vec![slot(ctx)])).new_slot;
                    let src = h.step(call("c2pa_create_stream", vec![content("jpeg")])).new_slot;
                    let dst = h.step(call("c2pa_create_stream", vec![content("empty")])).new_slot;
                    if let (Some(b), Some(src), Some(dst)) = (b, src, dst) {
                        if let Some(b2) = h.step(call("c2pa_builder_with_definition", vec![slot(b), st("mj:full")])).new_slot {
                            h.step(call("c2pa_builder_sign_context", vec![slot(b2), st("fmt:jpeg"), slot(src), slot(dst), A::Out { valid: true }]));
                            h.step(call("c2pa_free", vec![slot(ctx)]));
                            // the builder still shares the context: signing again must still work or fail cleanly
                            let src2 = h.step(call("c2pa_create_stream", vec![content("jpeg")])).new_slot;
                            let dst2 = h.step(call("c2pa_create_stream", vec![content("empty")])).new_slot;
                            if let (Some(s2), Some(d2)) = (src2, dst2) {
                                h.step(call("c2pa_builder_sign_context", vec![slot(b2), st("fmt:jpeg"), slot(s2), slot(d2), A::Out { valid: true }]));
                                if let Some(r) = h.step(call("c2pa_reader_from_stream", vec![st("fmt:jpeg"), slot(d2)])).new_slot {
                                    h.step(call("c2pa_reader_json", vec![slot(r)]));
                                }
                            }
                        }
                    }
                }
            }
            h.step(call("c2pa_load_settings", vec![st("set:signer"), st("sf:json")]));
            h.step(call("c2pa_signer_from_settings", vec![]));
        }
        "embeddable-chain" => {
            let b = h.step(call("c2pa_builder_from_json", vec![st("mj:full")])).new_slot;
            let sg = h.step(call("c2pa_signer_from_info", vec![A::Info { key: "ed25519".into() }])).new_slot;
            let s = h.step(call("c2pa_create_stream", vec![content("jpeg")])).new_slot;
            if let (Some(b), Some(sg), Some(s)) = (b, sg, s) {
                h.step(call("c2pa_builder_data_hashed_placeholder", vec![slot(b), A::Num { v: 20000 }, st("fmt:jpeg"), A::Out { valid: true }]));
                h.step(call("c2pa_builder_sign_data_hashed_embeddable", vec![slot(b), slot(sg), st("dh:ok"), st("fmt:jpeg"), A::Null, A::Out { valid: true }]));
                h.step(call("c2pa_builder_sign_data_hashed_embeddable", vec![slot(b), slot(sg), st("dh:ok"), st("fmt:jpeg"), slot(s), A::Out { valid: true }]));
                h.step(call("c2pa_builder_hash_type", vec![slot(b), st("fmt:jpeg"), A::Out { valid: true }]));
                h.step(call("c2pa_format_embeddable", vec![st("fmt:jpeg"), A::Buf { key: "mb:ok".into() }, A::Out { valid: true }]));
            }
        }
        other => panic!("unknown directed history {other}"),
    }
    h.finish();
}
