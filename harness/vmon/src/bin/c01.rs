//! C01 — tamper evidence: signed asset content cannot change without detection.
//!
//! Oracle (one-sided, written from the statement): if the reader accepts a mutant F' (Valid/Trusted)
//! then (1) its normalised report equals the original's and (2) the *protected content* of F' equals
//! the protected content of F, where "protected content" is computed by this harness alone from the
//! exclusions the signed hard-binding assertion declares (parsed out of the signed store with the
//! harness's own JUMBF walker + CBOR decoder):
//!   * c2pa.hash.data  : all bytes of the file outside the literal (start,length) exclusion ranges;
//!   * c2pa.hash.bmff  : for every top-level box found by the harness's own BMFF walker, its offset and
//!     the bytes not covered by a matching xpath exclusion (with `data` match and `subset` ranges),
//!     plus any trailing bytes that do not form a box;
//!   * c2pa.hash.boxes : every byte outside the manifest container located by the independent
//!     per-format parser (vmon::fmt) — enabled once that parser is available.
//! Rejections are never judged.
use c2pa::{Builder, BuilderIntent, Context};
use serde_json::{json, Value};
use std::io::Cursor;
use vmon::{assets, jumbf, par, report, signers, Rng, Run};

#[derive(Clone, Debug)]
enum Binding {
    Data { exclusions: Vec<(u64, u64)> },
    Bmff { exclusions: Vec<BmffExcl>, merkle: bool },
    /// box hash (only the box named C2PA is excluded) and update manifests over a data-hash parent
    /// (the parent's single exclusion covers exactly the manifest container): everything outside the
    /// manifest container located by the independent parser `vmon::fmt` is protected.
    Complement { why: &'static str },
}

#[derive(Clone, Debug)]
struct BmffExcl {
    xpath: String,
    length: Option<u64>,
    data: Vec<(u64, Vec<u8>)>,
    subset: Vec<(u64, u64)>,
    version: Option<u64>,
    flags: Option<Vec<u8>>,
    exact: Option<bool>,
}

fn cbor_get<'a>(v: &'a ciborium::Value, key: &str) -> Option<&'a ciborium::Value> {
    v.as_map()?.iter().find(|(k, _)| k.as_text() == Some(key)).map(|(_, v)| v)
}
fn cbor_u64(v: &ciborium::Value) -> Option<u64> {
    v.as_integer().and_then(|i| u64::try_from(i).ok())
}

/// Extracts the hard binding of the *active* (last) manifest of the store.
fn binding_of(store: &[u8]) -> Option<Binding> {
    let expanded = jumbf::expand_brob(store, 8 << 20);
    let store = expanded.as_deref().unwrap_or(store);
    let root = jumbf::parse_store(store)?;
    let active = *jumbf::manifests(&root).last()?;
    let mut all = Vec::new();
    active.walk(&mut all);
    for b in all {
        if &b.typ != b"jumb" {
            continue;
        }
        let Some(label) = &b.label else { continue };
        if !b.path.contains("/c2pa.assertions/") {
            continue;
        }
        let Some(c) = b.children.iter().find(|c| &c.typ == b"cbor") else { continue };
        let Ok(v) = ciborium::from_reader::<ciborium::Value, _>(&store[c.payload_start()..c.end()]) else { continue };
        if label == "c2pa.hash.data" {
            let mut ex = Vec::new();
            if let Some(a) = cbor_get(&v, "exclusions").and_then(|a| a.as_array()) {
                for e in a {
                    ex.push((cbor_u64(cbor_get(e, "start")?)?, cbor_u64(cbor_get(e, "length")?)?));
                }
            }
            return Some(Binding::Data { exclusions: ex });
        }
        if label.starts_with("c2pa.hash.boxes") {
            // declared exclusions of a box hash: the entry named C2PA (hash-less) and entries flagged `excluded`
            let boxes = cbor_get(&v, "boxes").and_then(|a| a.as_array())?;
            let mut c2pa_entries = 0;
            for bx in boxes {
                let names: Vec<&str> = cbor_get(bx, "names").and_then(|n| n.as_array()).map(|n| n.iter().filter_map(|x| x.as_text()).collect()).unwrap_or_default();
                let excluded = cbor_get(bx, "excluded").and_then(|e| e.as_bool()).unwrap_or(false);
                if names.contains(&"C2PA") {
                    c2pa_entries += 1;
                } else if excluded {
                    return None; // other declared exclusions: not resolved by this oracle -> subject unusable
                }
            }
            if c2pa_entries != 1 {
                return None;
            }
            return Some(Binding::Complement { why: "box" });
        }
        if label.starts_with("c2pa.hash.bmff") {
            let mut ex = Vec::new();
            if let Some(a) = cbor_get(&v, "exclusions").and_then(|a| a.as_array()) {
                for e in a {
                    let mut x = BmffExcl {
                        xpath: cbor_get(e, "xpath")?.as_text()?.to_string(),
                        length: cbor_get(e, "length").and_then(cbor_u64),
                        data: vec![],
                        subset: vec![],
                        version: cbor_get(e, "version").and_then(cbor_u64),
                        flags: cbor_get(e, "flags").and_then(|f| f.as_bytes().cloned()),
                        exact: cbor_get(e, "exact").and_then(|f| f.as_bool()),
                    };
                    if let Some(d) = cbor_get(e, "data").and_then(|d| d.as_array()) {
                        for m in d {
                            x.data.push((cbor_u64(cbor_get(m, "offset")?)?, cbor_get(m, "value")?.as_bytes()?.clone()));
                        }
                    }
                    if let Some(d) = cbor_get(e, "subset").and_then(|d| d.as_array()) {
                        for m in d {
                            x.subset.push((cbor_u64(cbor_get(m, "offset")?)?, cbor_u64(cbor_get(m, "length")?)?));
                        }
                    }
                    ex.push(x);
                }
            }
            let merkle = cbor_get(&v, "merkle").map(|m| !m.is_null()).unwrap_or(false);
            return Some(Binding::Bmff { exclusions: ex, merkle });
        }
    }
    None
}

/// Independent top-level BMFF walk: (offset, header_len, total_len, type); remainder offset if the tail is not a box.
fn bmff_top(data: &[u8]) -> (Vec<(usize, usize, usize, [u8; 4])>, usize) {
    let mut out = Vec::new();
    let mut o = 0usize;
    while o + 8 <= data.len() {
        let sz = u32::from_be_bytes([data[o], data[o + 1], data[o + 2], data[o + 3]]) as u64;
        let typ = [data[o + 4], data[o + 5], data[o + 6], data[o + 7]];
        let (hdr, len) = if sz == 1 {
            if o + 16 > data.len() {
                break;
            }
            let l = u64::from_be_bytes(data[o + 8..o + 16].try_into().unwrap());
            (16usize, l)
        } else if sz == 0 {
            (8usize, (data.len() - o) as u64)
        } else {
            (8usize, sz)
        };
        if len < hdr as u64 || (o as u64).saturating_add(len) > data.len() as u64 {
            break;
        }
        out.push((o, hdr, len as usize, typ));
        o += len as usize;
    }
    (out, o)
}

/// Protected content per the declared binding, or None when it is undefined for this file (e.g. an
/// exclusion reaches past the end): then acceptance itself is the violation.
fn protected(b: &Binding, format: &str, f: &[u8], orig_container: &[(usize, usize)], orig_len: usize) -> Option<Vec<u8>> {
    match b {
        Binding::Complement { .. } => {
            let ranges: Vec<(usize, usize)> = match vmon::fmt::parse(format, f) {
                Ok(p) if !p.containers.is_empty() => p.containers.iter().flat_map(|c| c.ranges.clone()).collect(),
                // the independent parser rejects the mutant (or finds no container): a same-length mutant keeps
                // the original container extents; otherwise the protected content is undefined
                _ if f.len() == orig_len => orig_container.to_vec(),
                _ => return None,
            };
            let mut inc = vec![true; f.len()];
            for (s, l) in ranges {
                for p in s..(s + l).min(f.len()) {
                    inc[p] = false;
                }
            }
            Some(f.iter().zip(inc.iter()).filter(|(_, i)| **i).map(|(b, _)| *b).collect())
        }
        Binding::Data { exclusions } => {
            let mut inc = vec![true; f.len()];
            for (s, l) in exclusions {
                let e = s.checked_add(*l)?;
                if e > f.len() as u64 {
                    return None;
                }
                for p in *s..e {
                    inc[p as usize] = false;
                }
            }
            Some(f.iter().zip(inc.iter()).filter(|(_, i)| **i).map(|(b, _)| *b).collect())
        }
        Binding::Bmff { exclusions, .. } => {
            let (boxes, rest) = bmff_top(f);
            let mut out = Vec::new();
            for (off, _hdr, len, typ) in boxes {
                let bx = &f[off..off + len];
                let mut inc = vec![true; len];
                let mut fully = false;
                for x in exclusions {
                    let name = x.xpath.trim_start_matches('/');
                    if name.contains('/') || name.as_bytes() != typ {
                        continue; // nested paths are not resolved by this walker (none are written by the SDK by default)
                    }
                    if let Some(l) = x.length {
                        if l != len as u64 {
                            continue;
                        }
                    }
                    if !x.data.iter().all(|(o, v)| {
                        let o = *o as usize;
                        o + v.len() <= len && &bx[o..o + v.len()] == v.as_slice()
                    }) {
                        continue;
                    }
                    if x.version.is_some() || x.flags.is_some() || x.exact.is_some() {
                        // full-box version/flags matching: not resolved here, treat as not excluded (conservative for the
                        // *oracle* would be wrong) -> make the whole file unjudgeable instead
                        return Some(vec![0xFF; 0]).filter(|_| false);
                    }
                    if x.subset.is_empty() {
                        fully = true;
                    } else {
                        for (so, sl) in &x.subset {
                            let s = (*so as usize).min(len);
                            let e = if *sl == 0 { len } else { (s + *sl as usize).min(len) };
                            for p in s..e {
                                inc[p] = false;
                            }
                        }
                    }
                }
                if fully {
                    continue;
                }
                out.extend_from_slice(b"BOX@");
                out.extend_from_slice(&(off as u64).to_be_bytes());
                out.extend(bx.iter().zip(inc.iter()).filter(|(_, i)| **i).map(|(b, _)| *b));
            }
            if rest < f.len() {
                out.extend_from_slice(b"TAIL");
                out.extend_from_slice(&f[rest..]);
            }
            Some(out)
        }
    }
}

#[derive(Clone, Debug)]
struct Mutant {
    kind: &'static str,
    pos: usize,
    arg: u64,
}

fn apply(f: &[u8], m: &Mutant) -> Vec<u8> {
    let mut v = f.to_vec();
    match m.kind {
        "xor01" => v[m.pos] ^= 0x01,
        "xor80" => v[m.pos] ^= 0x80,
        "set00" => v[m.pos] = 0x00,
        "setff" => v[m.pos] = 0xFF,
        "ins1" => v.insert(m.pos, m.arg as u8),
        "ins16" => {
            let fill: Vec<u8> = (0..16).map(|i| (m.arg as u8).wrapping_add(i)).collect();
            v.splice(m.pos..m.pos, fill);
        }
        "del1" => {
            v.remove(m.pos);
        }
        "del16" => {
            let e = (m.pos + 16).min(v.len());
            v.drain(m.pos..e);
        }
        "trunc" => v.truncate(m.pos),
        "append" => v.extend((0..m.arg).map(|i| (i * 7 + 1) as u8)),
        "dup16" => {
            let e = (m.pos + 16).min(v.len());
            let seg = v[m.pos..e].to_vec();
            v.splice(e..e, seg);
        }
        "swap8" => {
            let a = m.pos;
            let b = m.arg as usize;
            if a + 8 <= v.len() && b + 8 <= v.len() && (a + 8 <= b || b + 8 <= a) {
                for i in 0..8 {
                    v.swap(a + i, b + i);
                }
            }
        }
        "xor2" => {
            v[m.pos] ^= 0x10;
            let q = m.arg as usize;
            v[q] ^= 0x04;
        }
        _ => {}
    }
    v
}

struct Subject {
    name: String,
    format: &'static str,
    kind: &'static str,
    signed: Vec<u8>,
    binding: Binding,
    base: report::Outcome,
    prot: Vec<u8>,
    tiny: bool,
    container: Vec<(usize, usize)>,
}

fn settings(extra: &Value) -> String {
    let mut s = json!({
        "verify": {"verify_trust": true},
        "trust": {"trust_anchors": signers::trust_anchors_pem()},
        "builder": {"thumbnail": {"enabled": false}}
    });
    merge(&mut s, extra);
    s.to_string()
}

fn merge(a: &mut Value, b: &Value) {
    match (a, b) {
        (Value::Object(a), Value::Object(b)) => {
            for (k, v) in b {
                merge(a.entry(k.clone()).or_insert(Value::Null), v);
            }
        }
        (a, b) => *a = b.clone(),
    }
}

fn region_class(s: &Subject, m: &Mutant) -> String {
    match &s.binding {
        Binding::Data { exclusions } => {
            let p = m.pos as u64;
            for (st, l) in exclusions {
                let e = st + l;
                if p >= *st && p < e {
                    if p < st + 2 || p + 2 >= e {
                        return "excluded-edge".into();
                    }
                    return "excluded".into();
                }
                if p + 2 >= *st && p < *st || (p >= e && p < e + 2) {
                    return "protected-edge".into();
                }
            }
            if p >= s.signed.len() as u64 {
                "eof".into()
            } else {
                "protected".into()
            }
        }
        Binding::Complement { .. } => {
            for (st, l) in &s.container {
                if m.pos >= *st && m.pos < st + l {
                    return if m.pos < st + 12 || m.pos + 6 >= st + l { "container-edge".into() } else { "container".into() };
                }
                if (m.pos + 2 >= *st && m.pos < *st) || (m.pos >= st + l && m.pos < st + l + 2) {
                    return "protected-edge".into();
                }
            }
            if let Ok(p) = vmon::fmt::parse(s.format, &s.signed) {
                if let Some(e) = p.elems.iter().find(|e| m.pos >= e.start && m.pos < e.end()) {
                    return format!("elem:{}", e.kind.chars().take(12).collect::<String>());
                }
            }
            if m.pos >= s.signed.len() { "eof".into() } else { "protected".into() }
        }
        Binding::Bmff { .. } => {
            let (boxes, _) = bmff_top(&s.signed);
            for (off, hdr, len, typ) in boxes {
                if m.pos >= off && m.pos < off + len {
                    let t = String::from_utf8_lossy(&typ).to_string();
                    return if m.pos < off + hdr { format!("{t}-header") } else { t };
                }
            }
            "eof".into()
        }
    }
}

struct Res {
    class: String,
    state: String,
    violation: Option<(String, String)>,
    panic: Option<String>,
}

fn judge(s: &Subject, m: &Mutant) -> Res {
    let f2 = apply(&s.signed, m);
    let region = region_class(s, m);
    if f2 == s.signed {
        return Res { class: "noop".into(), state: "noop".into(), violation: None, panic: None };
    }
    let ctx = Context::new().with_settings(settings(&json!({})).as_str()).expect("settings");
    let o = report::read_bytes_catch(ctx, s.format, &f2);
    let mut violation = None;
    let mut panic = None;
    if o.state == "Panic" {
        panic = o.error.clone();
    }
    if o.accepted() {
        let p2 = protected(&s.binding, s.format, &f2, &s.container, s.signed.len());
        let prot_same = p2.as_ref() == Some(&s.prot);
        let rep_same = o.report == s.base.report;
        // cause class for signatures: where the first changed byte sits (never the raw offset / edit kind)
        let first = s.signed.iter().zip(f2.iter()).position(|(a, b)| a != b).unwrap_or(s.signed.len().min(f2.len()));
        let cause = if first >= s.signed.len() {
            "appended-after-end".to_string()
        } else if f2.len() != s.signed.len() && vmon::fmt::parse(s.format, &s.signed).map(|p| p.elems.iter().any(|e| e.start == first)).unwrap_or(false) {
            "length-change-at-element-boundary".to_string()
        } else {
            format!("at:{}", region_class(s, &Mutant { kind: m.kind, pos: first, arg: 0 }))
        };
        if !prot_same {
            violation = Some((
                format!("{}|{}|{}|protected-content-changed", s.format, s.kind, cause),
                format!("{}: mutant {:?} accepted as {} although bytes outside the declared exclusions differ", s.name, m, o.state),
            ));
        } else if !rep_same {
            violation = Some((
                format!("{}|{}|{}|report-changed", s.format, s.kind, cause),
                format!("{}: mutant {:?} accepted as {} with a different manifest report", s.name, m, o.state),
            ));
        }
    }
    let outcome = if o.accepted() { "accepted".to_string() } else if o.state == "Err" { format!("err:{}", o.error.clone().unwrap_or_default()) } else { o.state.clone() };
    Res { class: format!("{}|{}|{}|{}|{}", s.format, s.kind, m.kind, region, outcome), state: o.state, violation, panic }
}

fn sign_once(format: &str, bytes: &[u8], intent: BuilderIntent, extra: &Value, title: &str) -> Result<(Vec<u8>, Vec<u8>), String> {
    let signer = signers::test_signer("ed25519");
    let ctx = Context::new().with_settings(settings(extra).as_str()).map_err(|e| e.to_string())?;
    let mut b = Builder::from_context(ctx)
        .with_definition(json!({"title": title, "assertions": [{"label": "org.verif.note", "data": {"marker": "C01-PLANTED"}}]}))
        .map_err(|e| e.to_string())?;
    b.set_intent(intent);
    let mut src = Cursor::new(bytes.to_vec());
    let mut dst = Cursor::new(Vec::new());
    let store = report::catch_sdk(|| b.sign(signer.as_ref(), format, &mut src, &mut dst))?.map_err(|e| format!("sign: {e}"))?;
    Ok((dst.into_inner(), store))
}

fn make_subject(name: &str, format: &'static str, bytes: &[u8], kind: &'static str, extra: Value, tiny: bool) -> Result<Subject, String> {
    let (signed, binding) = if kind == "update" {
        // step 1: ordinary signed asset (data hash); step 2: update manifest on top of it
        let (first, store1) = sign_once(format, bytes, BuilderIntent::Edit, &extra, "c01-base")?;
        let b1 = binding_of(&store1).ok_or("no hard binding in the base manifest")?;
        let single_range = matches!(&b1, Binding::Data { exclusions } if exclusions.len() == 1);
        let ctx = Context::new().with_settings(settings(&extra).as_str()).map_err(|e| e.to_string())?;
        let signer = signers::test_signer("ed25519");
        let mut b = Builder::from_context(ctx).with_definition(json!({"title": "c01-update"})).map_err(|e| e.to_string())?;
        b.set_intent(BuilderIntent::Update);
        let mut src = Cursor::new(first.clone());
        let mut dst = Cursor::new(Vec::new());
        let store2 = report::catch_sdk(|| b.sign(signer.as_ref(), format, &mut src, &mut dst))?.map_err(|e| format!("sign update: {e}"))?;
        if binding_of(&store2).is_some() {
            return Err("update manifest unexpectedly carries a hard binding".into());
        }
        if !single_range {
            return Err("base manifest's binding is not a single data-hash exclusion: complement oracle not applicable".into());
        }
        (dst.into_inner(), Binding::Complement { why: "update" })
    } else {
        let (signed, store) = sign_once(format, bytes, BuilderIntent::Edit, &extra, "c01")?;
        let binding = binding_of(&store).ok_or("no hard binding found by the independent walker")?;
        match (&binding, kind) {
            (Binding::Complement { .. }, "box") | (Binding::Data { .. }, "data") | (Binding::Bmff { .. }, "bmff") | (Binding::Bmff { .. }, "bmff-merkle") => {}
            _ => return Err(format!("requested binding kind {kind} but the SDK wrote {:?}", binding).chars().take(200).collect()),
        }
        (signed, binding)
    };
    let mut container = Vec::new();
    if let Binding::Complement { .. } = &binding {
        let p = vmon::fmt::parse(format, &signed).map_err(|e| format!("independent parser rejects the signed file: {e}"))?;
        container = p.containers.iter().flat_map(|c| c.ranges.clone()).collect();
        if container.is_empty() {
            return Err("independent parser finds no manifest container".into());
        }
    }
    let ctx = Context::new().with_settings(settings(&json!({})).as_str()).map_err(|e| e.to_string())?;
    let base = report::read_bytes_catch(ctx, format, &signed);
    if !base.accepted() {
        return Err(format!("baseline read not accepted: {:?} {:?} {:?}", base.state, base.error, base.failure_codes()));
    }
    let prot = protected(&binding, format, &signed, &container, signed.len()).ok_or("protected content undefined on the signed file")?;
    Ok(Subject { name: name.to_string(), format, kind, signed, binding, base, prot, tiny, container })
}

fn mutants_for(s: &Subject, rng: &mut Rng, quick: bool) -> Vec<Mutant> {
    let n = s.signed.len();
    let mut v = Vec::new();
    let flips: &[&'static str] = if quick { &["xor01", "setff"] } else { &["xor01", "xor80", "set00", "setff"] };
    if s.tiny {
        for p in 0..n {
            for k in flips {
                v.push(Mutant { kind: k, pos: p, arg: 0 });
            }
            v.push(Mutant { kind: "ins1", pos: p, arg: 0x41 });
            v.push(Mutant { kind: "del1", pos: p, arg: 0 });
            v.push(Mutant { kind: "trunc", pos: p, arg: 0 });
            if !quick || p % 4 == 0 {
                v.push(Mutant { kind: "ins16", pos: p, arg: (p % 251) as u64 });
                v.push(Mutant { kind: "del16", pos: p, arg: 0 });
                v.push(Mutant { kind: "dup16", pos: p, arg: 0 });
            }
        }
        v.push(Mutant { kind: "ins1", pos: n, arg: 0x41 });
    } else {
        // fixtures: boundary positions of every declared exclusion + seeded sample
        let mut pos: Vec<usize> = Vec::new();
        if let Binding::Data { exclusions } = &s.binding {
            for (st, l) in exclusions {
                for d in 0..6u64 {
                    pos.push((st.saturating_sub(d)) as usize);
                    pos.push((st + l + d) as usize);
                    pos.push((st + l).saturating_sub(d + 1) as usize);
                    pos.push((st + d) as usize);
                }
            }
        }
        let (boxes, _) = bmff_top(&s.signed);
        if matches!(s.binding, Binding::Bmff { .. }) {
            for (off, hdr, len, _) in boxes {
                for d in 0..(hdr + 2) {
                    pos.push(off + d);
                }
                pos.push(off + len - 1);
            }
        }
        let k = if quick { 1500 } else { 40_000 };
        for _ in 0..k {
            pos.push(rng.usize(n));
        }
        pos.retain(|p| *p < n);
        pos.sort();
        pos.dedup();
        for p in pos {
            for kx in flips {
                v.push(Mutant { kind: kx, pos: p, arg: 0 });
            }
            v.push(Mutant { kind: "ins1", pos: p, arg: 0x41 });
            v.push(Mutant { kind: "del1", pos: p, arg: 0 });
            if p % 3 == 0 {
                v.push(Mutant { kind: "trunc", pos: p, arg: 0 });
            }
        }
    }
    for a in [1u64, 16, 4096] {
        v.push(Mutant { kind: "append", pos: n, arg: a });
    }
    // pairs: one flip inside and one outside the first excluded region, and block swaps
    for _ in 0..(if quick { 200 } else { 5000 }) {
        let a = rng.usize(n);
        let b = rng.usize(n);
        if a != b {
            v.push(Mutant { kind: "xor2", pos: a, arg: b as u64 });
        }
        if n > 32 {
            v.push(Mutant { kind: "swap8", pos: rng.usize(n - 8), arg: rng.usize(n - 8) as u64 });
        }
    }
    v
}

fn main() {
    let mut run = Run::from_args("C01", "exploration");
    report::quiet_panics();
    run.rule = "subjects = every tiny synthetic asset (all formats) and small fixtures, signed with each hard-binding kind available; mutants = every byte position x {xor01,setff[,xor80,set00]} + insert/delete/truncate at every position + 16-byte insert/delete/duplicate + appends + paired flips + block swaps (tiny assets: all positions, exhaustive; fixtures: exclusion/box boundaries + seeded sample). Non-trivial = a mutant that differs from the signed file and was read; distinct = (format, binding, mutation kind, region class of the touched byte, outcome).".into();
    run.assumptions = vec![
        "the declared exclusions are read from the store returned by Builder::sign with the harness's own JUMBF walker and CBOR decoder".into(),
        "one-sided oracle: only accepted (Valid/Trusted) mutants are judged; rejections are always fine".into(),
        "BMFF nested-path / version / flags exclusions are not resolved by the harness walker (the SDK writes none by default); subjects using them would be unjudged".into(),
        "box-hash subjects are added when the independent container parsers (vmon::fmt) are available".into(),
    ];
    let quick = run.quick();
    let mut rng = Rng::new(run.seed, "c01");

    // ---- subjects
    let mut specs: Vec<(String, &'static str, Vec<u8>, &'static str, Value, bool)> = Vec::new();
    for a in assets::tiny_assets() {
        let bmff = a.format == "mp4";
        specs.push((a.name.clone(), a.format, a.bytes.clone(), if bmff { "bmff" } else { "data" }, json!({}), true));
        if bmff {
            specs.push((format!("{}+merkle", a.name), a.format, a.bytes.clone(), "bmff-merkle", json!({"core": {"merkle_tree_chunk_size_in_kb": 1}}), true));
        }
        if matches!(a.format, "jpg" | "png" | "gif") {
            // compressed manifests cannot be pre-sized, so the SDK binds them with a box hash
            specs.push((format!("{}+boxhash", a.name), a.format, a.bytes.clone(), "box", json!({"core": {"prefer_compress_manifests": true}}), true));
        }
        if matches!(a.format, "jpg" | "png" | "gif" | "wav" | "tif" | "mp3") && !a.name.contains("xmp") {
            specs.push((format!("{}+update", a.name), a.format, a.bytes.clone(), "update", json!({}), true));
        }
    }
    let fx_max = if quick { 70_000 } else { 400_000 };
    for a in assets::fixture_assets(fx_max) {
        let bmff = matches!(a.format, "mp4" | "avif" | "heif" | "heic" | "mov" | "m4a");
        specs.push((a.name.clone(), a.format, a.bytes.clone(), if bmff { "bmff" } else { "data" }, json!({}), false));
    }
    let mut subjects = Vec::new();
    for (name, fmt, bytes, kind, extra, tiny) in specs {
        match make_subject(&name, fmt, &bytes, kind, extra, tiny) {
            Ok(s) => {
                run.sample("subject", 30, json!({"name": s.name, "format": s.format, "binding": s.kind, "signed_len": s.signed.len(), "declared": format!("{:?}", s.binding).chars().take(300).collect::<String>(), "baseline": s.base.state}));
                subjects.push(s);
            }
            Err(e) => run.inconclusive(format!("subject {name} ({kind}) unusable: {e}")),
        }
    }
    if let Some(p) = run.replay.clone() {
        let v: Value = serde_json::from_slice(&std::fs::read(&p).expect("replay")).expect("json");
        let w = &v["witness"];
        let s = subjects.iter().find(|s| s.name == w["subject"].as_str().unwrap_or("")).expect("subject");
        let kinds = ["xor01", "xor80", "set00", "setff", "ins1", "ins16", "del1", "del16", "trunc", "append", "dup16", "swap8", "xor2"];
        let kind = kinds.iter().find(|k| **k == w["kind"].as_str().unwrap_or("")).expect("kind");
        let m = Mutant { kind, pos: w["pos"].as_u64().unwrap() as usize, arg: w["arg"].as_u64().unwrap() };
        let r = judge(s, &m);
        println!("replay: class={} violation={:?}", r.class, r.violation);
        std::process::exit(if r.violation.is_some() { 1 } else { 0 });
    }

    // ---- mutants
    let mut work: Vec<(usize, Mutant)> = Vec::new();
    for (i, s) in subjects.iter().enumerate() {
        let mut r = rng.fork(i as u64);
        for m in mutants_for(s, &mut r, quick) {
            work.push((i, m));
        }
    }
    let results = par::par_map_watch(
        work.len(),
        120,
        |i| {
            let (si, m) = &work[i];
            println!("INCONCLUSIVE: property=C01 watchdog: read of mutant {:?} of {} exceeded 120 s (see C10)", m, subjects[*si].name);
        },
        |i| {
            let (si, m) = &work[i];
            judge(&subjects[*si], m)
        },
    );
    let mut accepted = 0u64;
    for (i, r) in results.iter().enumerate() {
        let (si, m) = &work[i];
        let s = &subjects[*si];
        if r.class == "noop" {
            run.count("noop_mutants", 1);
            continue;
        }
        run.eval();
        run.nontrivial(r.class.clone());
        run.count(&format!("state:{}", r.state), 1);
        let w = json!({"subject": s.name, "format": s.format, "binding": s.kind, "kind": m.kind, "pos": m.pos, "arg": m.arg, "signed_len": s.signed.len()});
        if r.state == "Valid" || r.state == "Trusted" {
            accepted += 1;
            run.sample("accepted-mutant", 3, w.clone());
        } else {
            run.sample(&format!("rejected:{}", m.kind), 1, w.clone());
        }
        if let Some(p) = &r.panic {
            run.count("panics(see C10)", 1);
            run.sample("panic", 3, json!({"case": w, "panic": p}));
        }
        if let Some((sig, what)) = &r.violation {
            run.violation(sig, what, w);
        }
    }
    run.set("subjects", json!(subjects.len()));
    run.set("accepted_mutants", json!(accepted));
    run.exhaustive = false;
    run.engine("release", true, json!({"threads": par::workers()}));
    run.finish(30);
}
