//! Harness-side embedding of caller-owned placeholders (C15 / C17): our own container writers put
//! an opaque byte string into a tiny asset at a known offset and later patch it in place.  None of
//! this calls into the SDK's asset handlers.

#[derive(Clone, Debug)]
pub struct TopBox {
    pub start: usize,
    pub len: usize,
    pub hdr: usize,
    pub typ: [u8; 4],
}

/// Top-level ISO BMFF boxes (32-bit, 64-bit `largesize` and size-0 "to end" headers).
pub fn bmff_top_boxes(b: &[u8]) -> Option<Vec<TopBox>> {
    let mut out = Vec::new();
    let mut o = 0usize;
    while o < b.len() {
        if o + 8 > b.len() {
            return None;
        }
        let s32 = u32::from_be_bytes(b[o..o + 4].try_into().ok()?) as usize;
        let typ: [u8; 4] = b[o + 4..o + 8].try_into().ok()?;
        let (hdr, len) = if s32 == 1 {
            if o + 16 > b.len() {
                return None;
            }
            (16, u64::from_be_bytes(b[o + 8..o + 16].try_into().ok()?) as usize)
        } else if s32 == 0 {
            (8, b.len() - o)
        } else {
            (8, s32)
        };
        if len < hdr || o + len > b.len() {
            return None;
        }
        out.push(TopBox { start: o, len, hdr, typ });
        o += len;
    }
    Some(out)
}

pub fn bmff_box(typ: &[u8; 4], payload: &[u8]) -> Vec<u8> {
    let mut v = Vec::with_capacity(payload.len() + 8);
    v.extend_from_slice(&((payload.len() + 8) as u32).to_be_bytes());
    v.extend_from_slice(typ);
    v.extend_from_slice(payload);
    v
}

pub fn bmff_box_large(typ: &[u8; 4], payload: &[u8]) -> Vec<u8> {
    let mut v = Vec::with_capacity(payload.len() + 16);
    v.extend_from_slice(&1u32.to_be_bytes());
    v.extend_from_slice(typ);
    v.extend_from_slice(&((payload.len() + 16) as u64).to_be_bytes());
    v.extend_from_slice(payload);
    v
}

/// A `free` box of exactly `total` bytes (total >= 8).
pub fn bmff_free(total: usize) -> Vec<u8> {
    assert!(total >= 8);
    bmff_box(b"free", &vec![0u8; total - 8])
}

/// Inserts `insert` right after the `ftyp` box and moves the absolute chunk offsets in every
/// `stco` / `co64` table by the inserted length.  Returns (new bytes, offset of the insertion).
pub fn bmff_insert_after_ftyp(asset: &[u8], insert: &[u8]) -> Option<(Vec<u8>, usize)> {
    let boxes = bmff_top_boxes(asset)?;
    let ftyp = boxes.iter().find(|b| &b.typ == b"ftyp")?;
    let at = ftyp.start + ftyp.len;
    let mut v = Vec::with_capacity(asset.len() + insert.len());
    v.extend_from_slice(&asset[..at]);
    v.extend_from_slice(insert);
    v.extend_from_slice(&asset[at..]);
    // patch sample-table chunk offsets (only inside moov)
    let nb = bmff_top_boxes(&v)?;
    for mb in nb.iter().filter(|b| &b.typ == b"moov") {
        let (s, e) = (mb.start, mb.start + mb.len);
        let mut i = s;
        while i + 16 <= e {
            let t = &v[i + 4..i + 8];
            if t == b"stco" || t == b"co64" {
                let wide = t == b"co64";
                let blen = u32::from_be_bytes(v[i..i + 4].try_into().ok()?) as usize;
                let n = u32::from_be_bytes(v[i + 12..i + 16].try_into().ok()?) as usize;
                let w = if wide { 8 } else { 4 };
                if blen == 16 + n * w && i + blen <= e {
                    for k in 0..n {
                        let p = i + 16 + k * w;
                        if wide {
                            let x = u64::from_be_bytes(v[p..p + 8].try_into().ok()?) + insert.len() as u64;
                            v[p..p + 8].copy_from_slice(&x.to_be_bytes());
                        } else {
                            let x = u32::from_be_bytes(v[p..p + 4].try_into().ok()?) + insert.len() as u32;
                            v[p..p + 4].copy_from_slice(&x.to_be_bytes());
                        }
                    }
                    i += blen;
                    continue;
                }
            }
            i += 1;
        }
    }
    Some((v, at))
}

/// Overwrites `region_len` bytes at `at` with `signed` followed by a `free` box covering the rest.
/// Returns false if the leftover cannot be expressed as a box (1..=7 bytes) or `signed` is too long.
pub fn bmff_patch_region(asset: &mut [u8], at: usize, region_len: usize, signed: &[u8]) -> bool {
    if signed.len() > region_len {
        return false;
    }
    let rest = region_len - signed.len();
    if rest != 0 && rest < 8 {
        return false;
    }
    asset[at..at + signed.len()].copy_from_slice(signed);
    if rest > 0 {
        let f = bmff_free(rest);
        asset[at + signed.len()..at + region_len].copy_from_slice(&f);
    }
    true
}

// ---------------------------------------------------------------------------------------------
// Non-BMFF containers: where a composed C2PA block goes, written by hand.

/// JPEG: right after SOI and the JFIF APP0 segment (if present).
pub fn jpeg_insert_offset(asset: &[u8]) -> Option<usize> {
    if asset.len() < 4 || asset[0] != 0xFF || asset[1] != 0xD8 {
        return None;
    }
    let mut at = 2;
    if asset[2] == 0xFF && asset[3] == 0xE0 {
        let l = u16::from_be_bytes([*asset.get(4)?, *asset.get(5)?]) as usize;
        at += 2 + l;
    }
    Some(at)
}

/// PNG: right after the IHDR chunk (8 signature + 25 bytes).
pub fn png_insert_offset(asset: &[u8]) -> Option<usize> {
    if asset.len() >= 33 && &asset[12..16] == b"IHDR" {
        Some(33)
    } else {
        None
    }
}

/// GIF: after the logical screen descriptor and the global colour table.
pub fn gif_insert_offset(asset: &[u8]) -> Option<usize> {
    if asset.len() < 13 || &asset[..3] != b"GIF" {
        return None;
    }
    let flags = asset[10];
    let mut at = 13;
    if flags & 0x80 != 0 {
        at += 3 * (1usize << ((flags & 7) + 1));
    }
    Some(at)
}

/// Splices `insert` into `asset` at `at`.
pub fn splice(asset: &[u8], at: usize, insert: &[u8]) -> Vec<u8> {
    let mut v = Vec::with_capacity(asset.len() + insert.len());
    v.extend_from_slice(&asset[..at]);
    v.extend_from_slice(insert);
    v.extend_from_slice(&asset[at..]);
    v
}

/// Little-endian classic TIFF with one strip of `n` bytes and a C2PA field (tag 0xCD41, type
/// UNDEFINED, count = manifest length) whose data block holds `manifest`.  Returns (bytes, offset
/// of the manifest block).
pub fn tiff_with_c2pa(n: usize, manifest: &[u8], trailing: &[u8]) -> (Vec<u8>, usize) {
    let mut v = vec![b'I', b'I', 42, 0, 0, 0, 0, 0];
    let strip_off = v.len() as u32;
    v.extend((0..n).map(|i| (i * 13 % 256) as u8));
    if v.len() % 2 == 1 {
        v.push(0);
    }
    let man_off = v.len();
    v.extend_from_slice(manifest);
    if v.len() % 2 == 1 {
        v.push(0);
    }
    v.extend_from_slice(trailing);
    if v.len() % 2 == 1 {
        v.push(0);
    }
    let ifd_off = v.len() as u32;
    v[4..8].copy_from_slice(&ifd_off.to_le_bytes());
    let entries: Vec<(u16, u16, u32, u32)> = vec![
        (256, 3, 1, n as u32),
        (257, 3, 1, 1),
        (258, 3, 1, 8),
        (259, 3, 1, 1),
        (262, 3, 1, 1),
        (273, 4, 1, strip_off),
        (277, 3, 1, 1),
        (278, 3, 1, 1),
        (279, 4, 1, n as u32),
        (0xCD41, 7, manifest.len() as u32, man_off as u32),
    ];
    v.extend_from_slice(&(entries.len() as u16).to_le_bytes());
    for (tag, typ, cnt, val) in entries {
        v.extend_from_slice(&tag.to_le_bytes());
        v.extend_from_slice(&typ.to_le_bytes());
        v.extend_from_slice(&cnt.to_le_bytes());
        v.extend_from_slice(&val.to_le_bytes());
    }
    v.extend_from_slice(&0u32.to_le_bytes());
    (v, man_off)
}

/// Minimal JPEG XL container: signature box, ftyp, [insert], jxlc (stub codestream), trailing boxes.
/// Returns (bytes, offset of `insert`).
pub fn jxl_with_box(insert: &[u8], extra_free: usize) -> (Vec<u8>, usize) {
    let mut v = vec![0, 0, 0, 0x0C, b'J', b'X', b'L', b' ', 0x0D, 0x0A, 0x87, 0x0A];
    v.extend(bmff_box(b"ftyp", b"jxl \0\0\0\0jxl "));
    let at = v.len();
    v.extend_from_slice(insert);
    v.extend(bmff_box(b"jxlc", &[0xFF, 0x0A, 0x00]));
    if extra_free >= 8 {
        v.extend(bmff_box(b"Exif", &vec![0u8; extra_free - 8]));
    }
    (v, at)
}
