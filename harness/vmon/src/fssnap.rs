//! File-system snapshots, diffs and an independent `realpath -m` used by the confinement
//! monitors (C29: resource files stay inside the manifest root; C32: c2patool never clobbers).
//!
//! Nothing here calls SDK code.  A snapshot walks a directory tree *without* following symbolic
//! links and records (type, size, mtime, sha256, link target, inode, nlink) per entry.
use sha2::{Digest, Sha256};
use std::collections::BTreeMap;
use std::os::unix::fs::MetadataExt;
use std::path::{Component, Path, PathBuf};

#[derive(Clone, Debug, PartialEq, Eq)]
pub enum Kind {
    File,
    Dir,
    Symlink,
    Other,
}

impl Kind {
    pub fn name(&self) -> &'static str {
        match self {
            Kind::File => "file",
            Kind::Dir => "dir",
            Kind::Symlink => "symlink",
            Kind::Other => "other",
        }
    }
}

#[derive(Clone, Debug, PartialEq, Eq)]
pub struct Entry {
    pub kind: Kind,
    pub size: u64,
    pub mtime_ns: i128,
    pub sha256: Option<[u8; 32]>,
    pub target: Option<PathBuf>,
    pub ino: u64,
    pub nlink: u64,
}

/// path relative to the snapshot root ("" is the root itself) -> entry
pub type Snap = BTreeMap<PathBuf, Entry>;

fn entry_of(p: &Path) -> Option<Entry> {
    let md = std::fs::symlink_metadata(p).ok()?;
    let ft = md.file_type();
    let kind = if ft.is_symlink() {
        Kind::Symlink
    } else if ft.is_dir() {
        Kind::Dir
    } else if ft.is_file() {
        Kind::File
    } else {
        Kind::Other
    };
    let sha256 = if kind == Kind::File {
        std::fs::read(p).ok().map(|b| {
            let d = Sha256::digest(&b);
            let mut a = [0u8; 32];
            a.copy_from_slice(&d);
            a
        })
    } else {
        None
    };
    let target = if kind == Kind::Symlink { std::fs::read_link(p).ok() } else { None };
    Some(Entry {
        kind,
        size: if ft.is_dir() { 0 } else { md.len() },
        mtime_ns: md.mtime() as i128 * 1_000_000_000 + md.mtime_nsec() as i128,
        sha256,
        target,
        ino: md.ino(),
        nlink: md.nlink(),
    })
}

fn walk(root: &Path, rel: &Path, out: &mut Snap, budget: &mut usize) {
    if *budget == 0 {
        return;
    }
    *budget -= 1;
    let abs = if rel.as_os_str().is_empty() { root.to_path_buf() } else { root.join(rel) };
    let Some(e) = entry_of(&abs) else { return };
    let is_dir = e.kind == Kind::Dir;
    out.insert(rel.to_path_buf(), e);
    if is_dir {
        let Ok(rd) = std::fs::read_dir(&abs) else { return };
        let mut names: Vec<_> = rd.filter_map(|x| x.ok()).map(|x| x.file_name()).collect();
        names.sort();
        for n in names {
            walk(root, &rel.join(n), out, budget);
        }
    }
}

/// Snapshot of everything below `root` (symlinks are recorded, never followed).
pub fn snapshot(root: &Path) -> Snap {
    let mut out = Snap::new();
    let mut budget = 200_000usize;
    walk(root, Path::new(""), &mut out, &mut budget);
    out
}

#[derive(Clone, Debug, PartialEq, Eq)]
pub enum ChangeKind {
    Created,
    Deleted,
    /// type changed (file -> symlink, dir -> file, ...)
    Retyped,
    /// file bytes or link target differ
    Content,
    /// same bytes, different mtime or inode: the entry was rewritten/replaced with equal content
    Touched,
}

impl ChangeKind {
    pub fn name(&self) -> &'static str {
        match self {
            ChangeKind::Created => "created",
            ChangeKind::Deleted => "deleted",
            ChangeKind::Retyped => "retyped",
            ChangeKind::Content => "content",
            ChangeKind::Touched => "touched",
        }
    }
}

#[derive(Clone, Debug)]
pub struct Change {
    pub path: PathBuf,
    pub change: ChangeKind,
    pub before: Option<Kind>,
    pub after: Option<Kind>,
}

/// Differences between two snapshots of the same root.  Directory mtimes are ignored (they move
/// whenever a child is created, which is reported on the child).
pub fn diff(a: &Snap, b: &Snap) -> Vec<Change> {
    let mut out = Vec::new();
    for (p, ea) in a {
        match b.get(p) {
            None => out.push(Change { path: p.clone(), change: ChangeKind::Deleted, before: Some(ea.kind.clone()), after: None }),
            Some(eb) => {
                let ch = if ea.kind != eb.kind {
                    Some(ChangeKind::Retyped)
                } else if ea.sha256 != eb.sha256 || ea.target != eb.target || (ea.kind != Kind::Dir && ea.size != eb.size) {
                    Some(ChangeKind::Content)
                } else if ea.kind != Kind::Dir && (ea.mtime_ns != eb.mtime_ns || ea.ino != eb.ino) {
                    Some(ChangeKind::Touched)
                } else if ea.kind == Kind::Dir && ea.ino != eb.ino {
                    Some(ChangeKind::Touched)
                } else {
                    None
                };
                if let Some(c) = ch {
                    out.push(Change { path: p.clone(), change: c, before: Some(ea.kind.clone()), after: Some(eb.kind.clone()) });
                }
            }
        }
    }
    for (p, eb) in b {
        if !a.contains_key(p) {
            out.push(Change { path: p.clone(), change: ChangeKind::Created, before: None, after: Some(eb.kind.clone()) });
        }
    }
    out
}

/// How a path walk finally left a given directory (see `Resolved::escape`).
#[derive(Clone, Debug, PartialEq, Eq)]
pub enum Escape {
    /// `..` climbed out and no symbolic link had been traversed before
    DotDot,
    /// `..` climbed out after a symbolic link had been traversed (`res/up/..`)
    DotDotAfterSymlink,
    /// a symbolic link jumped out and further components followed it (used as a directory)
    SymlinkDir,
    /// a symbolic link in the last position jumped out, its final target exists
    SymlinkFile,
    /// a symbolic link in the last position jumped out, its final target does not exist
    SymlinkDangling,
    /// the walk started outside already (absolute identifier)
    StartOutside,
}

impl Escape {
    pub fn name(&self) -> &'static str {
        match self {
            Escape::DotDot => "dotdot",
            Escape::DotDotAfterSymlink => "dotdot-after-symlink",
            Escape::SymlinkDir => "symlink-dir",
            Escape::SymlinkFile => "symlink-file",
            Escape::SymlinkDangling => "symlink-dangling",
            Escape::StartOutside => "start-outside",
        }
    }
}

#[derive(Clone, Debug)]
pub struct Resolved {
    /// `realpath -m` result: symlinks resolved as far as components exist, the rest appended lexically
    pub path: PathBuf,
    /// the final location exists (stat through links succeeds)
    pub exists: bool,
    /// resolution is undefined for the OS (loop, name too long, non-directory used as directory, NUL)
    pub undefined: Option<&'static str>,
    pub symlinks_traversed: usize,
    /// the way the walk left `confine` for good (None: never left it, or came back); only meaningful with `resolve_in`
    pub escape: Option<Escape>,
    /// the walk left `confine` at some point but the final location is inside again
    pub returned: bool,
}

fn inside(cur: &Path, confine: Option<&Path>) -> bool {
    match confine {
        Some(c) => cur.starts_with(c),
        None => true,
    }
}

/// POSIX path resolution written for the harness (component by component, `..` applied *after*
/// link resolution, at most 40 links), continuing lexically past the first missing component.
/// `confine` must already be a real (link-free) absolute directory path.
pub fn resolve_in(abs: &Path, confine: Option<&Path>) -> Resolved {
    let mut queue: Vec<String> = Vec::new();
    let mut res = Resolved { path: PathBuf::from("/"), exists: true, undefined: None, symlinks_traversed: 0, escape: None, returned: false };
    let s = abs.to_string_lossy().to_string();
    if s.contains('\0') {
        res.undefined = Some("nul");
    }
    if s.len() >= 4096 {
        res.undefined = Some("path-too-long");
    }
    for c in abs.components().rev() {
        match c {
            Component::RootDir | Component::Prefix(_) => {}
            Component::CurDir => queue.push(".".into()),
            Component::ParentDir => queue.push("..".into()),
            Component::Normal(n) => queue.push(n.to_string_lossy().to_string()),
        }
    }
    // a trailing slash demands a directory; remember it
    // (`file/.` is ENOTDIR just like `file/`; Path::components() drops the trailing `.`)
    let trailing_slash = s.len() > 1 && (s.ends_with('/') || s.ends_with("/."));
    let mut cur = PathBuf::from("/");
    let mut missing = false;
    let mut hops = 0usize;
    let mut ever_out = false;
    // the walk starts at "/" which is outside any confine; escapes are only tracked once we have been inside
    let mut been_inside = false;
    while let Some(comp) = queue.pop() {
        let last = queue.is_empty();
        if comp == "." {
            continue;
        }
        // an excursion that came back inside is over: `escape` describes the *final* way out only
        // (a link recorded while `cur` was still inside keeps its classification: no out->in transition)
        let prev_in = inside(&cur, confine);
        if comp == ".." {
            let was_in = been_inside && prev_in;
            cur.pop();
            if was_in && !inside(&cur, confine) {
                ever_out = true;
                if res.escape.is_none() {
                    res.escape = Some(if res.symlinks_traversed > 0 { Escape::DotDotAfterSymlink } else { Escape::DotDot });
                }
            } else if been_inside && !prev_in && inside(&cur, confine) {
                res.escape = None;
            }
            continue;
        }
        if comp.len() > 255 && res.undefined.is_none() {
            res.undefined = Some("name-too-long");
        }
        let next = cur.join(&comp);
        if missing {
            cur = next;
            continue;
        }
        match std::fs::symlink_metadata(&next) {
            Err(_) => {
                missing = true;
                cur = next;
            }
            Ok(md) if md.file_type().is_symlink() => {
                hops += 1;
                res.symlinks_traversed += 1;
                if hops > 40 {
                    res.undefined = Some("symlink-loop");
                    missing = true;
                    cur = next;
                    continue;
                }
                let target = std::fs::read_link(&next).unwrap_or_default();
                let was_in = been_inside && inside(&cur, confine);
                let mut tcomps: Vec<String> = Vec::new();
                for c in target.components() {
                    match c {
                        Component::RootDir | Component::Prefix(_) => {
                            cur = PathBuf::from("/");
                        }
                        Component::CurDir => {}
                        Component::ParentDir => tcomps.push("..".into()),
                        Component::Normal(n) => tcomps.push(n.to_string_lossy().to_string()),
                    }
                }
                // where does the link lead?  resolve it on its own to classify the jump
                if was_in && res.escape.is_none() {
                    let mut probe = cur.clone();
                    for t in &tcomps {
                        probe.push(t);
                    }
                    let pr = resolve_in(&probe, None);
                    if !inside(&pr.path, confine) {
                        ever_out = true;
                        res.escape = Some(if !last {
                            Escape::SymlinkDir
                        } else if pr.exists {
                            Escape::SymlinkFile
                        } else {
                            Escape::SymlinkDangling
                        });
                    }
                }
                for t in tcomps.into_iter().rev() {
                    queue.push(t);
                }
            }
            Ok(md) => {
                if !md.is_dir() && (!last || trailing_slash) && res.undefined.is_none() {
                    res.undefined = Some("not-a-directory");
                }
                cur = next;
            }
        }
        if inside(&cur, confine) && confine.is_some() {
            if been_inside && !prev_in {
                res.escape = None;
            }
            been_inside = true;
        } else if been_inside && !inside(&cur, confine) {
            ever_out = true;
        }
    }
    if confine.is_some() && !been_inside && !inside(&cur, confine) {
        res.escape = Some(Escape::StartOutside);
    }
    res.exists = !missing && std::fs::metadata(&cur).is_ok() && res.undefined.is_none();
    res.returned = ever_out && inside(&cur, confine);
    res.path = cur;
    res
}

pub fn resolve(abs: &Path) -> Resolved {
    resolve_in(abs, None)
}

pub fn hex32(h: &[u8; 32]) -> String {
    hex::encode(h)
}

/// Removes a directory tree; never follows symlinks (remove_dir_all does not either).
pub fn rm_rf(p: &Path) {
    let _ = std::fs::remove_dir_all(p);
}
